"""T-dtype / T-copy (C17, C09): Python ast -> Gallina for the dtype tables of torchsnapshot/serialization.py
and the typed translation of TensorBufferStager._should_copy_cpu_tensor (io_preparers/tensor.py).

Fail closed: every construct that is not exactly of a recognised form raises TranslateError, which the
driver reports as a broken obligation `translate:gen_dtype:<where>`.

What is generated (coq/gen/DtypeGen.v); a dtype `torch.float64` is named by the code points of "float64":

  all_supported_dtypes, supported_quantized_dtypes, buffer_protocol_supported_dtypes : list pystr
  dtype_to_string_table : list (pystr * pystr)      dict literal, source order (Dtype_get = last binding wins)
  dtype_to_element_size_table : list (pystr * Z)
  string_to_dtype_table : list (pystr * pystr)      := map swap dtype_to_string_table  (the dict comprehension)
  serializer_enum : list (pystr * pystr)            member name -> value
  serializer_<member>_value : pystr
  bf16_carrier_dtype : pystr                        dtype of the `torch.empty((0), dtype=...)` carrier tensor in
                                                    _tensor_as_memoryview_via_untyped_storage (float32 when absent)
  numpy_cast_itemsize : Z                           item size of the format passed to memoryview.cast in tensor_as_memoryview
  should_copy_cpu_tensor : pystr -> bool -> bool -> bool -> bool
"""
from __future__ import annotations

import ast

from translator.pyast import TranslateError, find_class, find_func, parse, src

OUTPUTS = ["DtypeGen"]

SER = "torchsnapshot/serialization.py"
TEN = "torchsnapshot/io_preparers/tensor.py"

# struct/memoryview format characters -> item size (native sizes on the supported platforms)
_FORMAT_ITEMSIZE = {"b": 1, "B": 1, "c": 1, "h": 2, "H": 2, "i": 4, "I": 4, "f": 4, "l": 8, "L": 8, "q": 8, "Q": 8, "d": 8}


# ----------------------------------------------------------------------------- printing
def _pystr(s: str) -> str:
    return "[" + "; ".join(str(ord(c)) for c in s) + "]"


def _cm(s: str) -> str:
    return "(* " + s.replace("*)", "* )").replace("(*", "( *") + " *)"


# ----------------------------------------------------------------------------- recognisers
def _dtype_name(e: ast.AST, where: str) -> str:
    """`torch.<name>` -> name"""
    if isinstance(e, ast.Attribute) and isinstance(e.value, ast.Name) and e.value.id == "torch" and e.attr.isidentifier():
        return e.attr
    raise TranslateError(where, f"expected torch.<dtype>, found {src(e)}")


def _toplevel_value(mod: ast.Module, name: str) -> ast.AST:
    found = []
    for n in mod.body:
        if isinstance(n, ast.AnnAssign) and isinstance(n.target, ast.Name) and n.target.id == name and n.value is not None:
            found.append(n.value)
        elif isinstance(n, ast.Assign) and any(isinstance(t, ast.Name) and t.id == name for t in n.targets):
            if len(n.targets) != 1:
                raise TranslateError(name, "multiple assignment targets")
            found.append(n.value)
        elif isinstance(n, ast.AugAssign) and isinstance(n.target, ast.Name) and n.target.id == name:
            raise TranslateError(name, "augmented assignment to a translated table")
    if len(found) != 1:
        raise TranslateError(name, f"expected exactly one top-level assignment, found {len(found)}")
    # the name must not be rebound or mutated anywhere else in the module (functions included)
    stores = [n for n in ast.walk(mod) if isinstance(n, ast.Name) and n.id == name and isinstance(n.ctx, (ast.Store, ast.Del))]
    if len(stores) != 1:
        raise TranslateError(name, "table is rebound outside its top-level definition")
    for n in ast.walk(mod):
        if isinstance(n, ast.Global) and name in n.names:
            raise TranslateError(name, "table is declared global in a function")
        if isinstance(n, ast.Call) and isinstance(n.func, ast.Attribute) and isinstance(n.func.value, ast.Name) \
                and n.func.value.id == name and n.func.attr not in ("items", "keys", "values", "get"):
            raise TranslateError(name, f"table is mutated: {src(n)}")
        if isinstance(n, (ast.Subscript,)) and isinstance(n.value, ast.Name) and n.value.id == name \
                and isinstance(n.ctx, (ast.Store, ast.Del)):
            raise TranslateError(name, f"table is mutated: {src(n)}")
    return found[0]


def _dtype_list(mod: ast.Module, name: str) -> list[str]:
    v = _toplevel_value(mod, name)
    if not isinstance(v, ast.List):
        raise TranslateError(name, f"expected a list literal, found {type(v).__name__}")
    return [_dtype_name(e, name) for e in v.elts]


def _dtype_dict(mod: ast.Module, name: str, kind: type) -> list[tuple[str, object]]:
    v = _toplevel_value(mod, name)
    if not isinstance(v, ast.Dict):
        raise TranslateError(name, f"expected a dict literal, found {type(v).__name__}")
    out = []
    for k, e in zip(v.keys, v.values):
        if k is None:
            raise TranslateError(name, "dict unpacking in a translated table")
        if not (isinstance(e, ast.Constant) and type(e.value) is kind):
            raise TranslateError(name, f"expected a {kind.__name__} literal, found {src(e)}")
        out.append((_dtype_name(k, name), e.value))
    return out


def _check_inverse_comprehension(mod: ast.Module) -> None:
    """_STRING_TO_DTYPE = {val: key for key, val in _DTYPE_TO_STRING.items()}"""
    name = "_STRING_TO_DTYPE"
    v = _toplevel_value(mod, name)
    ok = (isinstance(v, ast.DictComp) and len(v.generators) == 1 and not v.generators[0].ifs
          and not v.generators[0].is_async)
    if ok:
        g = v.generators[0]
        ok = (isinstance(g.target, ast.Tuple) and len(g.target.elts) == 2
              and all(isinstance(x, ast.Name) for x in g.target.elts)
              and isinstance(v.key, ast.Name) and isinstance(v.value, ast.Name)
              and v.key.id == g.target.elts[1].id and v.value.id == g.target.elts[0].id
              and g.target.elts[0].id != g.target.elts[1].id
              and src(g.iter) == "_DTYPE_TO_STRING.items()")
    if not ok:
        raise TranslateError(name, f"expected the inverse comprehension of _DTYPE_TO_STRING, found {src(v)}")


def _strip_doc(body: list[ast.stmt]) -> list[ast.stmt]:
    if body and isinstance(body[0], ast.Expr) and isinstance(body[0].value, ast.Constant) and isinstance(body[0].value.value, str):
        return body[1:]
    return body


def _check_lookup(mod: ast.Module, fname: str, table: str) -> None:
    """def f(x): if x in T: return T[x] else: raise ValueError(...)"""
    f = find_func(mod, fname, fname)
    if len(f.args.args) != 1 or f.args.vararg or f.args.kwarg or f.args.kwonlyargs or f.decorator_list:
        raise TranslateError(fname, "unexpected signature")
    x = f.args.args[0].arg
    body = _strip_doc(f.body)
    ok = len(body) == 1 and isinstance(body[0], ast.If)
    if ok:
        i = body[0]
        ok = (src(i.test) == f"{x} in {table}" and len(i.body) == 1 and isinstance(i.body[0], ast.Return)
              and i.body[0].value is not None and src(i.body[0].value) == f"{table}[{x}]"
              and len(i.orelse) == 1 and isinstance(i.orelse[0], ast.Raise)
              and isinstance(i.orelse[0].exc, ast.Call) and src(i.orelse[0].exc.func) == "ValueError")
    if not ok:
        raise TranslateError(fname, f"expected `if {x} in {table}: return {table}[{x}] else: raise ValueError(..)`")


def _serializer_enum(mod: ast.Module) -> list[tuple[str, str]]:
    c = find_class(mod, "Serializer")
    if [src(b) for b in c.bases] != ["Enum"] or c.keywords or c.decorator_list:
        raise TranslateError("Serializer", "expected `class Serializer(Enum)`")
    out = []
    for st in _strip_doc(c.body):
        if (isinstance(st, ast.Assign) and len(st.targets) == 1 and isinstance(st.targets[0], ast.Name)
                and isinstance(st.value, ast.Constant) and isinstance(st.value.value, str)):
            out.append((st.targets[0].id, st.value.value))
        else:
            raise TranslateError("Serializer", f"unsupported enum body statement: {src(st)}")
    if len({n for n, _ in out}) != len(out):
        raise TranslateError("Serializer", "duplicate member name")
    return out


def _is_memoryview_numpy_cast(e: ast.AST, var: str):
    """memoryview(<var>.numpy()).cast(<fmt literal>) -> fmt, else None"""
    if (isinstance(e, ast.Call) and isinstance(e.func, ast.Attribute) and e.func.attr == "cast"
            and len(e.args) == 1 and not e.keywords and isinstance(e.args[0], ast.Constant) and isinstance(e.args[0].value, str)
            and src(e.func.value) == f"memoryview({var}.numpy())"):
        return e.args[0].value
    return None


def _itemsize(fmt: str, where: str) -> int:
    f = fmt[1:] if fmt[:1] == "@" else fmt
    if f not in _FORMAT_ITEMSIZE:
        raise TranslateError(where, f"unknown memoryview.cast format {fmt!r}")
    return _FORMAT_ITEMSIZE[f]


def _bf16_carrier(mod: ast.Module) -> tuple[str, int]:
    """In _tensor_as_memoryview_via_untyped_storage:
         tensor = torch.empty((0)[, dtype=torch.X]); tensor.set_(untyped_storage); return memoryview(tensor.numpy()).cast(fmt)
       -> (X or float32, itemsize(fmt))"""
    where = "_tensor_as_memoryview_via_untyped_storage"
    f = find_func(mod, where, where)
    empties = [n for n in ast.walk(f) if isinstance(n, ast.Call) and src(n.func) == "torch.empty"]
    if len(empties) != 1:
        raise TranslateError(where, f"expected exactly one torch.empty call, found {len(empties)}")
    call = empties[0]
    if len(call.args) != 1 or not (isinstance(call.args[0], ast.Constant) and call.args[0].value == 0
                                   and type(call.args[0].value) is int):
        raise TranslateError(where, f"carrier tensor is not torch.empty((0), ...): {src(call)}")
    carrier = "float32"  # torch's default dtype (harness asserts torch.get_default_dtype() is float32)
    for kw in call.keywords:
        if kw.arg == "dtype":
            carrier = _dtype_name(kw.value, where)
        else:
            raise TranslateError(where, f"unexpected keyword in carrier construction: {src(call)}")
    body = _strip_doc(f.body)
    # the statements after the contiguity assertion must be exactly: storage, carrier, set_, return
    tail = [st for st in body if not isinstance(st, ast.If)]
    ok = (len(tail) == 4
          and isinstance(tail[0], ast.Assign) and src(tail[0]) == "untyped_storage = contiguous_view_as_untyped_storage(tensor)"
          and isinstance(tail[1], ast.Assign) and len(tail[1].targets) == 1 and src(tail[1].targets[0]) == "tensor"
          and tail[1].value is call
          and isinstance(tail[2], ast.Expr) and src(tail[2].value) == "tensor.set_(untyped_storage)"
          and isinstance(tail[3], ast.Return) and tail[3].value is not None)
    fmt = _is_memoryview_numpy_cast(tail[3].value, "tensor") if ok else None
    if fmt is None:
        raise TranslateError(where, "unexpected statement sequence (storage slice; carrier; set_; return memoryview(..).cast(..))")
    if _itemsize(fmt, where) != 1:
        raise TranslateError(where, f"carrier memoryview is cast to item size {_itemsize(fmt, where)} (model assumes bytes)")
    return carrier, 1


def _numpy_cast_itemsize(mod: ast.Module) -> int:
    where = "tensor_as_memoryview"
    f = find_func(mod, where, where)
    body = _strip_doc(f.body)
    if not body or not isinstance(body[-1], ast.Return) or body[-1].value is None:
        raise TranslateError(where, "last statement is not a return")
    fmt = _is_memoryview_numpy_cast(body[-1].value, "tensor")
    if fmt is None:
        raise TranslateError(where, f"expected `return memoryview(tensor.numpy()).cast(<fmt>)`, found {src(body[-1])}")
    return _itemsize(fmt, where)


# ----------------------------------------------------------------------------- typed translation of the copy guard
class _Typed:
    """Typed boolean expression translator for _should_copy_cpu_tensor.
       Types: STR (a Python str), ENUM (a Serializer member), BOOL."""

    def __init__(self, enum: dict[str, str], where: str):
        self.enum = enum
        self.where = where

    def operand(self, e: ast.AST):
        s = src(e)
        if s == "self.entry.serializer":
            return ("STR", "serializer")
        if isinstance(e, ast.Attribute) and e.attr == "value" and isinstance(e.value, ast.Attribute) \
                and isinstance(e.value.value, ast.Name) and e.value.value.id == "Serializer":
            if e.value.attr not in self.enum:
                raise TranslateError(self.where, f"unknown Serializer member {e.value.attr}")
            return ("STR", _pystr(self.enum[e.value.attr]) + " " + _cm(self.enum[e.value.attr]))
        if isinstance(e, ast.Attribute) and isinstance(e.value, ast.Name) and e.value.id == "Serializer":
            if e.attr not in self.enum:
                raise TranslateError(self.where, f"unknown Serializer member {e.attr}")
            return ("ENUM", e.attr)
        if isinstance(e, ast.Constant) and isinstance(e.value, str):
            return ("STR", _pystr(e.value) + " " + _cm(e.value))
        raise TranslateError(self.where, f"unsupported comparison operand: {s}")

    def b(self, e: ast.AST) -> str:
        s = src(e)
        if s == "self.is_async_snapshot":
            return "is_async"
        if s == "self.tensor.is_contiguous()":
            return "is_contiguous"
        if s == "self.tensor.nelement() != self.tensor.storage().size()":
            return "nelem_ne_storage"
        if s == "self.tensor.nelement() == self.tensor.storage().size()":
            return "(negb nelem_ne_storage)"
        if isinstance(e, ast.BoolOp):
            op = "orb" if isinstance(e.op, ast.Or) else "andb"
            parts = [self.b(v) for v in e.values]
            out = parts[-1]
            for p in reversed(parts[:-1]):
                out = f"({op} {p} {out})"
            return out
        if isinstance(e, ast.UnaryOp) and isinstance(e.op, ast.Not):
            return f"(negb {self.b(e.operand)})"
        if isinstance(e, ast.Constant) and isinstance(e.value, bool):
            return "true" if e.value else "false"
        if isinstance(e, ast.Compare) and len(e.ops) == 1 and isinstance(e.ops[0], (ast.Eq, ast.NotEq)):
            (ta, a), (tb, c) = self.operand(e.left), self.operand(e.comparators[0])
            if ta == "STR" and tb == "STR":
                r = f"(Dtype_str_eqb {a} {c})"
            elif {ta, tb} == {"STR", "ENUM"}:
                # a str never equals an Enum member (Enum defines no __eq__ against its value)
                r = "false " + _cm(f"str compared with Enum member: {s}")
                r = f"({r})"
            elif ta == "ENUM" and tb == "ENUM":
                r = "true" if a == c else "false"
            else:
                raise TranslateError(self.where, f"ill-typed comparison {s}")
            return r if isinstance(e.ops[0], ast.Eq) else f"(negb {r})"
        raise TranslateError(self.where, f"unsupported boolean expression: {s}")


def _should_copy(ten: ast.Module, enum: dict[str, str]) -> str:
    where = "_should_copy_cpu_tensor"
    cls = find_class(ten, "TensorBufferStager")
    f = find_func(cls, where, where)
    if [a.arg for a in f.args.args] != ["self"] or f.decorator_list:
        raise TranslateError(where, "unexpected signature")
    body = _strip_doc(f.body)
    tr = _Typed(enum, where)
    conds = []
    for st in body[:-1]:
        if not (isinstance(st, ast.If) and not st.orelse and len(st.body) == 1 and isinstance(st.body[0], ast.Return)
                and isinstance(st.body[0].value, ast.Constant) and st.body[0].value.value is True):
            raise TranslateError(where, f"expected `if <cond>: return True`, found {src(st)[:80]}")
        conds.append(tr.b(st.test))
    last = body[-1] if body else None
    if not (isinstance(last, ast.Return) and isinstance(last.value, ast.Constant) and last.value.value is False):
        raise TranslateError(where, "expected a final `return False`")
    expr = "false"
    for c in reversed(conds):
        expr = f"if {c}\n  then true\n  else {expr}"
    return ("Definition should_copy_cpu_tensor (serializer : pystr) (is_async is_contiguous nelem_ne_storage : bool) : bool :=\n  "
            + expr + ".\n")


def _stage_dispatch(ten: ast.Module, enum: dict[str, str]) -> str:
    """Which serializer strings make stage_buffer call tensor_as_memoryview / torch_save_as_bytes (typed the same way).
       stage_kind serializer = 1 (torch_save) | 2 (buffer protocol) | 0 (ValueError)."""
    where = "stage_buffer"
    cls = find_class(ten, "TensorBufferStager")
    f = find_func(cls, where, where)
    last = f.body[-1]
    tr = _Typed(enum, where)
    arms = []
    node = last
    while True:
        if not isinstance(node, ast.If) or len(node.body) != 1:
            raise TranslateError(where, "expected the final if/elif/else serializer dispatch")
        st = node.body[0]
        if isinstance(st, ast.Return) and st.value is not None and src(st.value) == "torch_save_as_bytes(cpu_tensor)":
            k = 1
        elif isinstance(st, ast.Return) and st.value is not None and src(st.value) == "tensor_as_memoryview(cpu_tensor)":
            k = 2
        else:
            raise TranslateError(where, f"unexpected dispatch arm: {src(st)[:80]}")
        arms.append((tr.b(node.test), k))
        if len(node.orelse) == 1 and isinstance(node.orelse[0], ast.If):
            node = node.orelse[0]
            continue
        if len(node.orelse) == 1 and isinstance(node.orelse[0], ast.Raise):
            break
        raise TranslateError(where, "dispatch does not end in `else: raise`")
    expr = "0"
    for c, k in reversed(arms):
        expr = f"if {c} then {k} else {expr}"
    return "Definition stage_kind (serializer : pystr) : Z :=\n  " + expr + ".\n"


# ----------------------------------------------------------------------------- entry point
def generate() -> dict[str, str]:
    ser = parse(SER)
    ten = parse(TEN)

    all_d = _dtype_list(ser, "ALL_SUPPORTED_DTYPES")
    quant = _dtype_list(ser, "SUPPORTED_QUANTIZED_DTYPES")
    bp = _dtype_list(ser, "BUFFER_PROTOCOL_SUPPORTED_DTYPES")
    to_str = _dtype_dict(ser, "_DTYPE_TO_STRING", str)
    to_size = _dtype_dict(ser, "_DTYPE_TO_ELEMENT_SIZE", int)
    _check_inverse_comprehension(ser)
    _check_lookup(ser, "dtype_to_string", "_DTYPE_TO_STRING")
    _check_lookup(ser, "dtype_to_element_size", "_DTYPE_TO_ELEMENT_SIZE")
    _check_lookup(ser, "string_to_dtype", "_STRING_TO_DTYPE")
    enum = _serializer_enum(ser)
    carrier, _ = _bf16_carrier(ser)
    cast_sz = _numpy_cast_itemsize(ser)
    enum_d = dict(enum)

    def lst(name, xs):
        body = ";\n  ".join(f"{_pystr(x)} {_cm('torch.' + x)}" for x in xs)
        return f"Definition {name} : list pystr := [\n  {body}\n].\n"

    out = ["(* GENERATED by translator/gen_dtype.py from torchsnapshot/serialization.py and io_preparers/tensor.py."
           " Do not edit. *)",
           "From TS Require Import model.Base model.Dtype.", "",
           lst("all_supported_dtypes", all_d),
           lst("supported_quantized_dtypes", quant),
           lst("buffer_protocol_supported_dtypes", bp),
           "Definition dtype_to_string_table : list (pystr * pystr) := [\n  "
           + ";\n  ".join(f"({_pystr(k)}, {_pystr(v)}) {_cm('torch.' + k + ' : ' + repr(v))}" for k, v in to_str) + "\n].\n",
           "Definition dtype_to_element_size_table : list (pystr * Z) := [\n  "
           + ";\n  ".join(f"({_pystr(k)}, {v if v >= 0 else '(' + str(v) + ')'}) {_cm('torch.' + k)}" for k, v in to_size) + "\n].\n",
           _cm("_STRING_TO_DTYPE = {val: key for key, val in _DTYPE_TO_STRING.items()}"),
           "Definition string_to_dtype_table : list (pystr * pystr) :=\n  map (fun kv => (snd kv, fst kv)) dtype_to_string_table.\n",
           "Definition serializer_enum : list (pystr * pystr) := [\n  "
           + ";\n  ".join(f"({_pystr(k)}, {_pystr(v)}) {_cm(k + ' = ' + repr(v))}" for k, v in enum) + "\n].\n"]
    for k, v in enum:
        out.append(f"Definition serializer_{k}_value : pystr := {_pystr(v)}. {_cm(repr(v))}")
    out += ["",
            _cm("carrier tensor of _tensor_as_memoryview_via_untyped_storage: torch.empty((0), dtype=torch." + carrier + ")"),
            f"Definition bf16_carrier_dtype : pystr := {_pystr(carrier)}.",
            _cm("item size of the format given to memoryview.cast in tensor_as_memoryview"),
            f"Definition numpy_cast_itemsize : Z := {cast_sz}.", "",
            _cm("TensorBufferStager._should_copy_cpu_tensor, typed translation (str == Enum member is false)"),
            _should_copy(ten, enum_d),
            _cm("TensorBufferStager.stage_buffer serializer dispatch: 1 torch_save_as_bytes, 2 tensor_as_memoryview, 0 ValueError"),
            _stage_dispatch(ten, enum_d)]
    return {"DtypeGen": "\n".join(out) + "\n"}
