"""T-part: torchsnapshot/partitioner.py (+ Snapshot._calculate_replicated_entries) -> coq/gen/PartitionGen.v.

What is emitted (data consumed by coq/model/Partition.v, which DEFINES its choice / update / merge functions from it):
  gen_choice_pass1   `chosen_rank = min|max(ranks_to_choose, key=lambda rank: rank_to_size[rank])`
                     in _assign_rank_write_loads                      -> ChooseFirstMin | ChooseFirstMax
                     (Python's min/max with key return the FIRST extremal element)
  gen_update_pass1   `rank_to_size[chosen_rank] += size`              -> AddSize   (statement absent -> AddNothing)
  gen_choice_pass2   `chosen_rank = np.argmin|argmax(rank_to_size)`   -> ChooseFirstMin | ChooseFirstMax
                     (numpy returns the first occurrence)
  gen_update_pass2   `rank_to_size[chosen_rank] += partitionable.size`-> AddSize   (absent -> AddNothing)
  gen_merge_order    consolidation: `sorted(<all chunks>, key=lambda chunk: chunk.offsets)` -> MergeSortedByOffsets,
                     `list(<all chunks>)` / `[<all chunks>]`          -> MergeUnsorted
  gen_dedup_default  default value of `dedup` in consolidate_replicated_entries (what _gather_manifest uses)
  gen_replicated_count_test   the filter of _calculate_replicated_entries, e.g. `path_count[p] == world_size`

What is only checked structurally (any other shape raises TranslateError = the obligation is reported broken):
  the skeleton of _partition_write_loads (first loop over rank 0's keys, whole-path units vs `partitionables`, candidates =
  all ranks, second loop over the set), _is_subpartitionable, the rank-local selection in
  _partition_replicated_write_reqs (own rank's list, sorted by (path, idx), chunk picked by write_req_idx, rank 0
  partitions and broadcasts), the grouping / collection / re-insertion loops of consolidate_replicated_entries with
  the `dedup and rank != 0` skip, and the matching / counting loops of _calculate_replicated_entries.
Fail closed: anything not recognised raises."""
from __future__ import annotations

import ast

from .pyast import Expr, TranslateError, definition, find_class, find_func, only, parse, src

OUTPUTS = ["PartitionGen"]
FILE = "torchsnapshot/partitioner.py"
SNAP = "torchsnapshot/snapshot.py"


def body_of(fn: ast.FunctionDef):
    b = fn.body
    if b and isinstance(b[0], ast.Expr) and isinstance(b[0].value, ast.Constant) and isinstance(b[0].value.value, str):
        return b[1:]
    return b


def norm(node) -> str:
    return " ".join(src(node).split())


def canon(text: str) -> str:
    """the expected text, printed the way this Python's ast.unparse prints it"""
    return " ".join(ast.unparse(ast.parse(text)).split())


def expect(node, text: str, where: str):
    if norm(node) != canon(text):
        raise TranslateError(where, f"expected `{text}`, found `{norm(node)}`")


def choice_of_min_key(value: ast.AST, where: str) -> str:
    """min(ranks_to_choose, key=lambda rank: rank_to_size[rank])"""
    if not (isinstance(value, ast.Call) and isinstance(value.func, ast.Name) and value.func.id in ("min", "max")):
        raise TranslateError(where, f"choice is not min(...)/max(...): {norm(value)}")
    if not (len(value.args) == 1 and norm(value.args[0]) == "ranks_to_choose" and len(value.keywords) == 1
            and value.keywords[0].arg == "key" and norm(value.keywords[0].value) == "lambda rank: rank_to_size[rank]"):
        raise TranslateError(where, f"unrecognised candidates / key: {norm(value)}")
    return "ChooseFirstMin" if value.func.id == "min" else "ChooseFirstMax"


def choice_of_np(value: ast.AST, where: str) -> str:
    """np.argmin(rank_to_size)"""
    if not (isinstance(value, ast.Call) and isinstance(value.func, ast.Attribute) and norm(value.func.value) == "np"
            and value.func.attr in ("argmin", "argmax") and len(value.args) == 1 and not value.keywords
            and norm(value.args[0]) == "rank_to_size"):
        raise TranslateError(where, f"choice is not np.argmin/argmax(rank_to_size): {norm(value)}")
    return "ChooseFirstMin" if value.func.attr == "argmin" else "ChooseFirstMax"


def update_of(stmts, amount: str, where: str) -> str:
    """[] -> AddNothing ; [`rank_to_size[chosen_rank] += <amount>`] -> AddSize ; anything else is an error"""
    if not stmts:
        return "AddNothing"
    if len(stmts) == 1 and isinstance(stmts[0], ast.AugAssign) and isinstance(stmts[0].op, ast.Add) \
            and norm(stmts[0].target) == "rank_to_size[chosen_rank]" and norm(stmts[0].value) == amount:
        return "AddSize"
    raise TranslateError(where, f"unrecognised load update: {[norm(s) for s in stmts]}")


def chosen_assign(st, where: str):
    if not (isinstance(st, ast.Assign) and len(st.targets) == 1 and norm(st.targets[0]) == "chosen_rank"):
        raise TranslateError(where, f"expected `chosen_rank = ...`, found `{norm(st)}`")
    return st.value


def kw(call: ast.Call, name: str, where: str) -> ast.AST:
    for k in call.keywords:
        if k.arg == name:
            return k.value
    raise TranslateError(where, f"keyword {name} missing in {norm(call)}")


def generate() -> dict[str, str]:
    mod = parse(FILE)
    out = ["(* GENERATED by translator/gen_partition.py from torchsnapshot/partitioner.py and snapshot.py - do not edit *)",
           "From Coq Require Import ZArith Bool.", "Open Scope Z_scope.", "",
           "Inductive gen_choice := ChooseFirstMin | ChooseFirstMax.",
           "Inductive gen_update := AddSize | AddNothing.",
           "Inductive gen_merge := MergeSortedByOffsets | MergeUnsorted.", ""]

    # ---- _assign_rank_write_loads ------------------------------------------------------------------------------
    fn = find_func(mod, "_assign_rank_write_loads")
    w = "_assign_rank_write_loads"
    if [a.arg for a in fn.args.args] != ["rank_to_write_loads", "rank_to_size", "ranks_to_choose", "logical_path", "size",
                                         "partition_result"]:
        raise TranslateError(w, "signature changed")
    b = body_of(fn)
    if len(b) < 2:
        raise TranslateError(w, "body too short")
    c1 = choice_of_min_key(chosen_assign(b[0], w), w)
    expect(b[1], "partition_result[chosen_rank].extend(rank_to_write_loads[chosen_rank][logical_path])", w)
    u1 = update_of(b[2:], "size", w)
    out.append(f"(* {norm(b[0])} *)\nDefinition gen_choice_pass1 : gen_choice := {c1}.")
    out.append(f"(* {norm(b[2]) if len(b) > 2 else 'no load update'} *)\nDefinition gen_update_pass1 : gen_update := {u1}.\n")

    # ---- _is_subpartitionable ------------------------------------------------------------------------------------
    fn = find_func(mod, "_is_subpartitionable")
    w = "_is_subpartitionable"
    b = body_of(fn)
    if len(b) != 2:
        raise TranslateError(w, "body changed")
    expect(b[0], "entries = [entries[logical_path] for entries in rank_to_entries]", w)
    expect(b[1], "return isinstance(entries[0], ChunkedTensorEntry) and all((entry == entries[0] for entry in entries))", w)

    # ---- _partition_write_loads ----------------------------------------------------------------------------------
    fn = find_func(mod, "_partition_write_loads")
    w = "_partition_write_loads"
    b = body_of(fn)
    if len(b) != 5:
        raise TranslateError(w, f"expected 5 top-level statements, found {len(b)}")
    expect(b[0], "partition_result: List[List[_WriteLoad]] = [[] for _ in range(world_size)]", w)
    expect(b[1], "partitionables = set()", w)
    loop1, loop2 = b[2], b[3]
    expect(b[4], "return partition_result", w)
    if not (isinstance(loop1, ast.For) and norm(loop1.target) == "logical_path" and norm(loop1.iter) == "rank_to_entries[0].keys()"
            and not loop1.orelse and len(loop1.body) == 1 and isinstance(loop1.body[0], ast.If)):
        raise TranslateError(w, "first loop is not `for logical_path in rank_to_entries[0].keys(): if ...`")
    iff = loop1.body[0]
    expect(iff.test, "not _is_subpartitionable(logical_path=logical_path, rank_to_entries=rank_to_entries)", w)
    if len(iff.orelse) != 1:
        raise TranslateError(w, "subpartitionable branch changed")
    expect(iff.orelse[0], "partitionables.update(rank_to_write_loads[0][logical_path])", w)
    if len(iff.body) != 2:
        raise TranslateError(w, "non-subpartitionable branch changed")
    expect(iff.body[0], "size = sum((wl.size for wl in rank_to_write_loads[0][logical_path]))", w)
    pr = iff.body[1]
    if not (isinstance(pr, ast.If) and norm(pr.test) == "is_partially_replicated_entry(rank_to_entries[0][logical_path])"
            and len(pr.orelse) == 1 and isinstance(pr.orelse[0], ast.Expr) and isinstance(pr.orelse[0].value, ast.Call)):
        raise TranslateError(w, "partially-replicated / fully-replicated split changed")
    call = pr.orelse[0].value
    if norm(call.func) != "_assign_rank_write_loads" or call.args:
        raise TranslateError(w, f"fully replicated case does not call _assign_rank_write_loads by keyword: {norm(call)}")
    for name, text in (("rank_to_write_loads", "rank_to_write_loads"), ("rank_to_size", "rank_to_size"),
                       ("ranks_to_choose", "list(range(world_size))"), ("logical_path", "logical_path"), ("size", "size"),
                       ("partition_result", "partition_result")):
        expect(kw(call, name, w), text, w + ":fully-replicated call")
    if not (isinstance(loop2, ast.For) and norm(loop2.target) == "partitionable" and norm(loop2.iter) == "partitionables"
            and not loop2.orelse and len(loop2.body) >= 2):
        raise TranslateError(w, "second loop is not `for partitionable in partitionables:`")
    c2 = choice_of_np(chosen_assign(loop2.body[0], w), w)
    expect(loop2.body[1], "partition_result[chosen_rank].append(partitionable)", w)
    u2 = update_of(loop2.body[2:], "partitionable.size", w)
    out.append(f"(* {norm(loop2.body[0])} *)\nDefinition gen_choice_pass2 : gen_choice := {c2}.")
    out.append(f"(* {norm(loop2.body[2]) if len(loop2.body) > 2 else 'no load update'} *)\nDefinition gen_update_pass2 : gen_update := {u2}.\n")

    # ---- _partition_replicated_write_reqs: who partitions, who keeps what -------------------------------------------
    fn = find_func(mod, "_partition_replicated_write_reqs")
    w = "_partition_replicated_write_reqs"
    b = body_of(fn)
    texts = [norm(s) for s in b]
    sel = "write_loads = sorted(((write_load.logical_path, write_load.write_req_idx) for write_load in partition_result[pg.get_rank()]))"
    if canon(sel) not in texts:
        raise TranslateError(w, "rank-local selection is no longer `sorted((path, idx) for write_load in partition_result[pg.get_rank()])`")
    for need in ("pg.all_gather_object(obj_list=object_list, obj=(entries, write_loads, non_replicated_size))",
                 "(rank_to_entries, rank_to_write_loads, rank_to_size) = list(zip(*object_list))",
                 "pg.broadcast_object_list(obj_list=obj_list, src=0)", "partition_result = obj_list[0]",
                 "new_entries = {}", "new_write_reqs = defaultdict(list)", "return (new_entries, new_write_reqs)"):
        if canon(need) not in texts:
            raise TranslateError(w, f"statement missing: {need}")
    r0 = only([s for s in b if isinstance(s, ast.If) and norm(s.test) == "pg.get_rank() == 0"], w, "`if pg.get_rank() == 0`")
    expect(r0.body[0], "partition_result = _partition_write_loads(rank_to_entries=rank_to_entries, "
                       "rank_to_write_loads=rank_to_write_loads, rank_to_size=list(rank_to_size), world_size=pg.get_world_size())", w)
    expect(r0.body[1], "obj_list = [partition_result]", w)
    wl_loop = only([s for s in b if isinstance(s, ast.For) and norm(s.iter) == "write_reqs.items()"], w, "write-load loop")
    inner = only([s for s in wl_loop.body if isinstance(s, ast.For)], w, "enumerate loop")
    expect(inner.iter, "enumerate(wrs)", w)
    itexts = [norm(s) for s in inner.body]
    if itexts != [canon(t) for t in ("size = _estimate_write_req_storage_size(write_req=wr)",
                                     "write_load = _WriteLoad(logical_path=logical_path, write_req_idx=idx, size=size)",
                                     "write_loads[logical_path].append(write_load)")]:
        raise TranslateError(w, f"construction of the write loads changed: {itexts}")
    sl = only([s for s in b if isinstance(s, ast.For) and norm(s.iter) == "write_loads"], w, "selection loop")
    expect(sl.target, "(logical_path, write_req_idx)", w)
    want = ("entry = entries[logical_path]\n"
            "if isinstance(entry, ChunkedTensorEntry):\n"
            "    chunk = entry.chunks[write_req_idx]\n"
            "    if logical_path not in new_entries:\n"
            "        new_entries[logical_path] = copy.deepcopy(entry)\n"
            "        new_entries[logical_path].chunks = [chunk]\n"
            "    else:\n"
            "        new_entries[logical_path].chunks.append(chunk)\n"
            "else:\n"
            "    new_entries[logical_path] = entry\n"
            "new_write_reqs[logical_path].append(write_reqs[logical_path][write_req_idx])")
    got = "\n".join(src(s) for s in sl.body)
    if got != ast.unparse(ast.parse(want)):
        raise TranslateError(w, "body of the selection loop changed:\n" + got)

    # ---- partition_write_reqs: replicated / non-replicated split ------------------------------------------------------
    fn = find_func(mod, "partition_write_reqs")
    w = "partition_write_reqs"
    texts = [norm(s) for s in body_of(fn)]
    for need in ("replicated_entries = {k: v for (k, v) in entries.items() if is_replicated_entry(v)}",
                 "replicated_write_reqs = {k: v for (k, v) in write_reqs.items() if k in replicated_entries}",
                 "non_replicated_entries = {k: v for (k, v) in entries.items() if not is_replicated_entry(v)}",
                 "non_replicated_write_reqs = {k: v for (k, v) in write_reqs.items() if k in non_replicated_entries}",
                 "non_replicated_size = sum((_estimate_write_req_storage_size(wr) for wrs in non_replicated_write_reqs.values() for wr in wrs))",
                 "(replicated_entries, replicated_write_reqs) = _partition_replicated_write_reqs(entries=replicated_entries, "
                 "write_reqs=replicated_write_reqs, non_replicated_size=non_replicated_size, pg=pg)",
                 "new_entries = {**replicated_entries, **non_replicated_entries}",
                 "new_write_reqs = {**replicated_write_reqs, **non_replicated_write_reqs}",
                 "return (new_entries, new_write_reqs)"):
        if canon(need) not in texts:
            raise TranslateError(w, f"statement missing: {need}")

    # ---- consolidation ---------------------------------------------------------------------------------------------
    fn = find_func(mod, "_consolidate_replicated_chunked_tensor_entries")
    w = "_consolidate_replicated_chunked_tensor_entries"
    b = body_of(fn)
    if len(b) != 4:
        raise TranslateError(w, "body changed")
    expect(b[0], "groups: Dict[str, List[ChunkedTensorEntry]] = defaultdict(list)", w)
    expect(b[1], "for entries in rank_to_entries:\n    for (logical_path, entry) in entries.items():\n"
                 "        if is_replicated_entry(entry) and isinstance(entry, ChunkedTensorEntry):\n"
                 "            groups[logical_path].append(entry)", w)
    expect(b[3], "return rank_to_entries", w)
    g = b[2]
    if not (isinstance(g, ast.For) and norm(g.target) == canon("(logical_path, group)") and norm(g.iter) == "groups.items()"
            and len(g.body) == 2):
        raise TranslateError(w, "merge loop changed")
    expect(g.body[1], "for entries in rank_to_entries:\n    entries[logical_path] = merged", w)
    m = g.body[0]
    if not (isinstance(m, ast.Assign) and norm(m.targets[0]) == "merged" and isinstance(m.value, ast.Call)
            and norm(m.value.func) == "ChunkedTensorEntry" and not m.value.args):
        raise TranslateError(w, "merged entry construction changed")
    expect(kw(m.value, "dtype", w), "group[0].dtype", w)
    expect(kw(m.value, "shape", w), "group[0].shape", w)
    expect(kw(m.value, "replicated", w), "True", w)
    ch = kw(m.value, "chunks", w)
    allchunks = "chunk for entry in group for chunk in entry.chunks"
    t = norm(ch)
    if t == canon(f"sorted(({allchunks}), key=lambda chunk: chunk.offsets)"):
        merge = "MergeSortedByOffsets"
    elif t in (canon(f"list(({allchunks}))"), canon(f"[{allchunks}]")):
        merge = "MergeUnsorted"
    else:
        raise TranslateError(w, f"unrecognised merged chunk list: {t}")
    out.append(f"(* chunks={t} *)\nDefinition gen_merge_order : gen_merge := {merge}.\n")

    fn = find_func(mod, "consolidate_replicated_entries")
    w = "consolidate_replicated_entries"
    if [a.arg for a in fn.args.args] != ["rank_to_entries", "dedup"] or len(fn.args.defaults) != 1 \
            or not (isinstance(fn.args.defaults[0], ast.Constant) and isinstance(fn.args.defaults[0].value, bool)):
        raise TranslateError(w, "signature changed")
    dedup = fn.args.defaults[0].value
    b = body_of(fn)
    if len(b) != 5:
        raise TranslateError(w, "body changed")
    expect(b[0], "rank_to_entries = _consolidate_replicated_chunked_tensor_entries(rank_to_entries=rank_to_entries)", w)
    expect(b[1], "replicated_entries = {}", w)
    expect(b[2], "for entries in rank_to_entries:\n"
                 "    for logical_path in list(entries.keys()):\n"
                 "        entry = entries[logical_path]\n"
                 "        if not is_fully_replicated_entry(entry):\n"
                 "            continue\n"
                 "        if logical_path in replicated_entries:\n"
                 "            if replicated_entries[logical_path] != entry:\n"
                 "                raise ValueError(f'Paths for replicated entry for {logical_path} do not match: replicated entries={replicated_entries[logical_path]} vs. entry={entry}')\n"
                 "        else:\n"
                 "            replicated_entries[logical_path] = entry\n"
                 "        del entries[logical_path]", w)
    expect(b[3], "for (rank, entries) in enumerate(rank_to_entries):\n"
                 "    if dedup and rank != 0:\n"
                 "        continue\n"
                 "    for (logical_path, entry) in replicated_entries.items():\n"
                 "        entries[logical_path] = entry", w)
    expect(b[4], "return rank_to_entries", w)
    out.append(f"(* def consolidate_replicated_entries(rank_to_entries, dedup: bool = {dedup}) *)\n"
               f"Definition gen_dedup_default : bool := {'true' if dedup else 'false'}.\n")

    # _gather_manifest uses the default
    smod = parse(SNAP)
    snap = find_class(smod, "Snapshot")
    gm = find_func(snap, "_gather_manifest")
    w = "Snapshot._gather_manifest"
    texts = [norm(s) for s in body_of(gm)]
    if canon("manifests = consolidate_replicated_entries(rank_to_entries=manifests)") not in texts \
            or canon("pg.all_gather_object(manifests, manifest)") not in texts:
        raise TranslateError(w, "no longer consolidates the all-gathered manifests with the default dedup")
    lp = only([s for s in body_of(gm) if isinstance(s, ast.For)], w, "for loop")
    expect(lp, "for (rank, manifest) in enumerate(manifests):\n    for (logical_path, entry) in manifest.items():\n"
               "        global_manifest[os.path.join(str(rank), logical_path)] = entry", w)

    # ---- Snapshot._calculate_replicated_entries --------------------------------------------------------------------
    fn = find_func(snap, "_calculate_replicated_entries")
    w = "Snapshot._calculate_replicated_entries"
    b = body_of(fn)
    texts = [norm(s) for s in b]
    for need in ("rank = pg.get_rank()", "world_size = pg.get_world_size()", "replicated_paths = []",
                 "pg.all_gather_object(obj_list, replicated_paths)", "pg.broadcast_object_list(replicated_paths_list, src=0)",
                 "replicated_paths = replicated_paths_list[0]", "return set(replicated_paths)"):
        if canon(need) not in texts:
            raise TranslateError(w, f"statement missing: {need}")
    ml = only([s for s in b if isinstance(s, ast.For)], w, "matching loop")
    expect(ml, "for (path, val) in flattened.items():\n"
               "    if any((fnmatch.fnmatch(path, p) for p in replicated)) and (not is_sharded(val)):\n"
               "        replicated_paths.append(path)", w)
    r0 = only([s for s in b if isinstance(s, ast.If)], w, "`if rank == 0`")
    expect(r0.test, "rank == 0", w)
    if len(r0.body) != 4 or len(r0.orelse) != 1:
        raise TranslateError(w, "rank-0 branch changed")
    expect(r0.body[0], "path_count = defaultdict(int)", w)
    expect(r0.body[1], "for paths in obj_list:\n    for path in paths:\n        path_count[path] += 1", w)
    expect(r0.body[3], "replicated_paths_list = [replicated_paths]", w)
    expect(r0.orelse[0], "replicated_paths_list = [[]]", w)
    flt = r0.body[2]
    if not (isinstance(flt, ast.Assign) and norm(flt.targets[0]) == "replicated_paths" and isinstance(flt.value, ast.Call)
            and norm(flt.value.func) == "list" and len(flt.value.args) == 1):
        raise TranslateError(w, "filter statement changed")
    fc = flt.value.args[0]
    if not (isinstance(fc, ast.Call) and norm(fc.func) == "filter" and len(fc.args) == 2 and isinstance(fc.args[0], ast.Lambda)
            and [a.arg for a in fc.args[0].args.args] == ["p"] and norm(fc.args[1]) == "replicated_paths"):
        raise TranslateError(w, f"filter expression changed: {norm(fc)}")

    def leaf(e):
        if isinstance(e, ast.Subscript) and norm(e) == "path_count[p]":
            return "count"
        if isinstance(e, ast.Name) and e.id == "world_size":
            return "world_size"
        return None
    ex = Expr(leaf, w)
    test = ex.b(fc.args[0].body)
    if set(ex.vars) - {"count", "world_size"}:
        raise TranslateError(w, f"filter reads {ex.vars}")
    out.append(definition("gen_replicated_count_test", ["count", "world_size"], "bool", test,
                          "a matched path of rank 0 is replicated when: " + norm(fc.args[0].body)))
    return {"PartitionGen": "\n".join(out) + "\n"}
