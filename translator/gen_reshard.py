"""T-reshard (C08): Python ast -> Gallina for the resharding logic of io_preparers/sharded_tensor.py and of
ShardedTensorEntry.get_tensor_shape (manifest.py).   Output: coq/gen/ReshardGen.v, phrased in the vocabulary of
coq/model/Reshard.v.  Fail closed: any statement or expression outside the forms below raises TranslateError.

Translated, statement by statement (names of locals are taken from the source, suffixed with _ when reserved in Coq):

 _shards_get_overlap_region_wrt_saved_tensor(P1, P2)
      for dim, (a, b, c, d) in enumerate(zip(L1, L2, L3, L4)): <assignments / if-else of integer expressions>
          narrows.append((e1, e2, e3, e4))
   -> g_region_body dim a b c d : Z*Z*Z*Z      (the loop body: lets, if/else, the appended tuple in ITS order)
      g_overlap_region P1 P2 : region4           (map of the body over indexed (zip4 L1 L2 L3 L4), the lists in the
                                                  order of the zip; Li = Pj.shard_offsets / Pj.shard_sizes)
 _OverlappingRegion.get_views(self, src_tensor)
      <view> = src_tensor | self.dst_tensor ; for t1, t2, t3, t4 in self.overlap_region: <view> = torch.narrow(<view>, ti, tj, tk)
      return <view>, <view>
   -> g_get_views overlap_region src_tensor self_dst_tensor : view * view      (fold over the region)
 ShardedTensorBufferConsumer.consume_buffer: the loop body  A, B = region.get_views(src_tensor=deserialized);
      tensor_copy(X, Y)  (both spellings: direct and through run_in_executor)
   -> g_consume_one region src_shape dst_shape deserialized dst
 prepare_read
      the dense destination's ShardMetadata(shard_offsets=.., shard_sizes=..)          -> g_dense_box
      for T1, T2 in itertools.product(I1, I2): box assignments, `if not _check_shard_metadata_pair_overlap(X, Y): continue`,
          key assignments, D[K].append(_OverlappingRegion(dst_tensor=.., overlap_region=<region call>))
                                                                                        -> g_key_insert, g_regions_keyed
      for S in entry.shards: key assignments, `if K not in D: continue`,
          read_reqs.append(ReadReq(path=.., buffer_consumer=ShardedTensorBufferConsumer(overlapping_regions=D[K'], entry=..), byte_range=..))
                                                                                        -> g_key_member, g_key_lookup, g_read_reqs
      the order  _get_global_shape ; _validate_shape ; plan                             -> g_prepare_read
 subdivide_shard        the statements building one piece: sub_offsets[dim] += start, sub_sizes[dim] = length,
                        torch.narrow(shard, dim, start, length), the appended triple                   -> g_sub_piece
 _get_global_shape      init `[c] * len(entry.shards[0].sizes)`, `if A > B: global_shape[dim] = C`   -> g_gs_init, g_gs_step
 _validate_shape        assignments and `if ..: logger.warning(..)` / raise                           -> g_validate_shape (true = returns)
 ShardedTensorEntry.get_tensor_shape   the two comprehensions, the all(..) test, the update           -> g_ts_init, g_ts_candidate, g_ts_accept, g_ts_step

Keys: a dictionary key is an expression over S.tensor.location (an integer id in the model) and S.tensor.byte_range_tuple
(a list: [] for None, [lo; hi]); a tuple is encoded as the concatenation of the encodings of its components, the
location as a one-element list.

Not translated (hand-modelled in model/Reshard.v, tied by the differential harness): torch.narrow / copy_ on views,
_check_shard_metadata_pair_overlap (torch), deserialisation, the dispatch on type(obj_out), prepare_write around
subdivide_shard (the arithmetic of subdivide_shard is translated by gen_chunk.py).
"""
from __future__ import annotations

import ast

from translator.pyast import TranslateError, find_class, parse, src

OUTPUTS = ["ReshardGen"]

RESERVED = {"as", "at", "cofix", "else", "end", "exists", "exists2", "fix", "for", "forall", "fun", "if", "IF", "in", "let",
            "match", "mod", "Prop", "return", "Set", "then", "Type", "using", "where", "with", "by", "nil", "cons", "fst", "snd",
            "map", "Z", "nat", "list", "box", "view", "region", "region4", "overlaps", "mkBox", "boff", "bsz", "zip4",
            "indexed", "combine", "forallb", "negb", "true", "false", "vnarrow", "full_view", "copy_views", "flat_map",
            "fold_left", "s_loc", "s_br", "s_box", "key_mem", "regions_for", "keyfn", "E", "D", "upd", "nth",
            "st", "x", "vs", "ix", "p", "dst", "src_shape", "dst_shape", "location", "byte_range_tuple", "entry_shards",
            "local_shards", "local_boxes", "out_shape", "tensor", "greq", "sshard", "length", "self_dst_tensor"}
CMP = {ast.Eq: "=?", ast.Lt: "<?", ast.LtE: "<=?", ast.Gt: ">?", ast.GtE: ">=?"}


def cname(n: str) -> str:
    return n + "_" if n in RESERVED or n.startswith("g_") else n


def strip_doc(body):
    body = list(body)
    if body and isinstance(body[0], ast.Expr) and isinstance(body[0].value, ast.Constant) and isinstance(body[0].value.value, str):
        return body[1:]
    return body


def method(cls: ast.ClassDef, name: str, kind: str | None = None):
    found = [n for n in cls.body if isinstance(n, (ast.FunctionDef, ast.AsyncFunctionDef)) and n.name == name]
    if len(found) != 1:
        raise TranslateError(f"{cls.name}.{name}", f"expected exactly one definition, found {len(found)}")
    fn = found[0]
    decos = sorted(src(d) for d in fn.decorator_list)
    want = [] if kind is None else [kind]
    if decos != want:
        raise TranslateError(f"{cls.name}.{name}", f"decorators {decos}, expected {want}")
    if fn.args.vararg or fn.args.kwarg or fn.args.kwonlyargs or fn.args.posonlyargs:
        raise TranslateError(f"{cls.name}.{name}", "unsupported parameter kinds")
    return fn


def params(fn, skip: int) -> list[str]:
    return [a.arg for a in fn.args.args][skip:]


def call_args(call: ast.Call, names: list[str], where: str, required: list[str] | None = None) -> dict[str, ast.AST]:
    """resolve positional/keyword arguments of a call against the parameter list `names`"""
    out: dict[str, ast.AST] = {}
    if len(call.args) > len(names):
        raise TranslateError(where, f"too many arguments in {src(call)[:80]}")
    for n, a in zip(names, call.args):
        if isinstance(a, ast.Starred):
            raise TranslateError(where, "starred argument")
        out[n] = a
    for k in call.keywords:
        if k.arg is None or k.arg not in names or k.arg in out:
            raise TranslateError(where, f"unexpected keyword {k.arg!r} in {src(call)[:80]}")
        out[k.arg] = k.value
    for n in (names if required is None else required):
        if n not in out:
            raise TranslateError(where, f"argument {n} missing in {src(call)[:80]}")
    return out


class Z:
    """integer / boolean expressions over named integers and a table of atoms (source text -> Coq term)"""

    def __init__(self, where: str, names=(), atoms=None):
        self.where = where
        self.names = set(names)
        self.atoms = dict(atoms or {})

    def z(self, e: ast.AST) -> str:
        s = src(e)
        if s in self.atoms:
            return self.atoms[s]
        if isinstance(e, ast.Name):
            if e.id in self.names:
                return cname(e.id)
            raise TranslateError(self.where, f"unknown name {e.id!r}")
        if isinstance(e, ast.Constant) and isinstance(e.value, int) and not isinstance(e.value, bool):
            return f"({e.value})" if e.value < 0 else str(e.value)
        if isinstance(e, ast.UnaryOp) and isinstance(e.op, ast.USub):
            return f"(- {self.z(e.operand)})"
        if isinstance(e, ast.BinOp) and isinstance(e.op, (ast.Add, ast.Sub, ast.Mult)):
            op = {ast.Add: "+", ast.Sub: "-", ast.Mult: "*"}[type(e.op)]
            return f"({self.z(e.left)} {op} {self.z(e.right)})"
        if isinstance(e, ast.Call) and isinstance(e.func, ast.Name) and e.func.id in ("min", "max") and len(e.args) == 2 and not e.keywords:
            return f"(Z.{e.func.id} {self.z(e.args[0])} {self.z(e.args[1])})"
        raise TranslateError(self.where, f"unsupported integer expression: {s}")

    def b(self, e: ast.AST) -> str:
        if isinstance(e, ast.Compare) and len(e.ops) == 1:
            a, c = self.z(e.left), self.z(e.comparators[0])
            if type(e.ops[0]) in CMP:
                return f"({a} {CMP[type(e.ops[0])]} {c})"
            if isinstance(e.ops[0], ast.NotEq):
                return f"(negb ({a} =? {c}))"
        if isinstance(e, ast.UnaryOp) and isinstance(e.op, ast.Not):
            return f"(negb {self.b(e.operand)})"
        if isinstance(e, ast.BoolOp):
            return "(" + (" || " if isinstance(e.op, ast.Or) else " && ").join(self.b(v) for v in e.values) + ")"
        raise TranslateError(self.where, f"unsupported condition: {src(e)}")


# --------------------------------------------------------------------------- _shards_get_overlap_region_wrt_saved_tensor
def gen_region(cls: ast.ClassDef) -> tuple[str, list[str]]:
    name = "_shards_get_overlap_region_wrt_saved_tensor"
    where = f"ShardedTensorIOPreparer.{name}"
    fn = method(cls, name, "staticmethod")
    ps = params(fn, 0)
    if len(ps) != 2:
        raise TranslateError(where, f"expected two parameters, found {ps}")
    body = strip_doc(fn.body)
    if len(body) != 3 or not isinstance(body[1], ast.For):
        raise TranslateError(where, "expected `acc = []; for ...; return acc`")
    init, loop, ret = body
    if not (isinstance(init, ast.Assign) and len(init.targets) == 1 and isinstance(init.targets[0], ast.Name) and src(init.value) == "[]"):
        raise TranslateError(where, f"unexpected first statement {src(init)}")
    acc = init.targets[0].id
    if not (isinstance(ret, ast.Return) and src(ret.value) == acc):
        raise TranslateError(where, f"does not return {acc}")
    if loop.orelse:
        raise TranslateError(where, "for-else")
    t = loop.target
    if not (isinstance(t, ast.Tuple) and len(t.elts) == 2 and isinstance(t.elts[0], ast.Name) and isinstance(t.elts[1], ast.Tuple)
            and len(t.elts[1].elts) == 4 and all(isinstance(x, ast.Name) for x in t.elts[1].elts)):
        raise TranslateError(where, f"loop target {src(t)} is not `i, (a, b, c, d)`")
    dim = t.elts[0].id
    vars4 = [x.id for x in t.elts[1].elts]
    if len({dim, *vars4}) != 5:
        raise TranslateError(where, "repeated loop variable")
    it = loop.iter
    if not (isinstance(it, ast.Call) and src(it.func) == "enumerate" and len(it.args) == 1 and not it.keywords
            and isinstance(it.args[0], ast.Call) and src(it.args[0].func) == "zip" and len(it.args[0].args) == 4 and not it.args[0].keywords):
        raise TranslateError(where, f"loop iterable {src(it)[:80]} is not enumerate(zip(l1, l2, l3, l4))")
    lists = []
    for a in it.args[0].args:
        if not (isinstance(a, ast.Attribute) and isinstance(a.value, ast.Name) and a.value.id in ps and a.attr in ("shard_offsets", "shard_sizes")):
            raise TranslateError(where, f"zipped list {src(a)} is not <param>.shard_offsets/.shard_sizes")
        lists.append(f"({'boff' if a.attr == 'shard_offsets' else 'bsz'} {cname(a.value.id)})")

    def stmts(body, names):
        if not body:
            raise TranslateError(where, f"a path through the loop body does not end in {acc}.append(..)")
        st, rest = body[0], body[1:]
        zt = Z(where, names)
        if isinstance(st, ast.Assign) and len(st.targets) == 1 and isinstance(st.targets[0], ast.Name):
            v = st.targets[0].id
            return f"let {cname(v)} := {zt.z(st.value)} in\n  " + stmts(rest, names | {v})
        if isinstance(st, ast.If):
            return (f"if {zt.b(st.test)} then\n  " + stmts(list(st.body) + rest, set(names)) +
                    "\n  else\n  " + stmts(list(st.orelse) + rest, set(names)))
        if (isinstance(st, ast.Expr) and isinstance(st.value, ast.Call) and src(st.value.func) == f"{acc}.append"
                and len(st.value.args) == 1 and not st.value.keywords):
            if rest:
                raise TranslateError(where, "statements after the append")
            tup = st.value.args[0]
            if not (isinstance(tup, ast.Tuple) and len(tup.elts) == 4):
                raise TranslateError(where, f"appended value {src(tup)} is not a 4-tuple")
            return "(" + ", ".join(zt.z(x) for x in tup.elts) + ")"
        raise TranslateError(where, f"unsupported statement: {src(st)[:100]}")

    body_t = stmts(list(loop.body), {dim, *vars4})
    text = (f"(* {name}: the loop body; zip target ({', '.join(vars4)}) *)\n"
            f"Definition g_region_body ({' '.join(cname(v) for v in [dim] + vars4)} : Z) : Z * Z * Z * Z :=\n  {body_t}.\n\n"
            f"(* enumerate(zip({', '.join(src(a) for a in it.args[0].args)})) *)\n"
            f"Definition g_overlap_region ({' '.join(cname(p) for p in ps)} : box) : region4 :=\n"
            f"  map (fun ix => g_region_body (fst ix) (fst (fst (fst (snd ix)))) (snd (fst (fst (snd ix)))) (snd (fst (snd ix))) (snd (snd ix)))\n"
            f"      (indexed (zip4 {' '.join(lists)})).\n")
    return text, ps


# --------------------------------------------------------------------------- _OverlappingRegion.get_views
def gen_views(cls: ast.ClassDef) -> tuple[str, list[str], str]:
    """returns (text, bases of the returned pair, name of the tensor parameter)"""
    where = "_OverlappingRegion.get_views"
    fields = [n.target.id for n in cls.body if isinstance(n, ast.AnnAssign) and isinstance(n.target, ast.Name)]
    if fields != ["dst_tensor", "overlap_region"]:
        raise TranslateError("_OverlappingRegion", f"fields changed: {fields}")
    fn = method(cls, "get_views")
    ps = params(fn, 1)
    if len(ps) != 1:
        raise TranslateError(where, f"expected one parameter, found {ps}")
    p = ps[0]
    body = strip_doc(fn.body)
    base: dict[str, str] = {}       # view variable -> 'src' | 'dst'
    order: list[str] = []
    i = 0
    while i < len(body) and isinstance(body[i], ast.Assign):
        st = body[i]
        if not (len(st.targets) == 1 and isinstance(st.targets[0], ast.Name)):
            raise TranslateError(where, f"unsupported statement {src(st)}")
        v, s = st.targets[0].id, src(st.value)
        if s == p:
            base[v] = "src"
        elif s == "self.dst_tensor":
            base[v] = "dst"
        else:
            raise TranslateError(where, f"view {v} initialised from {s}")
        if v in order:
            raise TranslateError(where, f"{v} initialised twice")
        order.append(v)
        i += 1
    if len(order) != 2 or len(body) != i + 2 or not isinstance(body[i], ast.For) or not isinstance(body[i + 1], ast.Return):
        raise TranslateError(where, "expected two view initialisations, one for loop, one return")
    loop, ret = body[i], body[i + 1]
    if src(loop.iter) != "self.overlap_region" or loop.orelse:
        raise TranslateError(where, f"loop over {src(loop.iter)}")
    t = loop.target
    if not (isinstance(t, ast.Tuple) and len(t.elts) == 4 and all(isinstance(x, ast.Name) for x in t.elts)) or len({x.id for x in t.elts}) != 4:
        raise TranslateError(where, f"loop target {src(t)} is not four names")
    comps = [x.id for x in t.elts]
    init = {v: (cname(p) if base[v] == "src" else "self_dst_tensor") for v in order}
    lines = []
    for st in loop.body:
        if not (isinstance(st, ast.Assign) and len(st.targets) == 1 and isinstance(st.targets[0], ast.Name) and st.targets[0].id in order
                and isinstance(st.value, ast.Call) and src(st.value.func) == "torch.narrow"):
            raise TranslateError(where, f"unsupported statement in the loop: {src(st)[:100]}")
        a = call_args(st.value, ["input", "dim", "start", "length"], where)
        if not (isinstance(a["input"], ast.Name) and a["input"].id in order):
            raise TranslateError(where, f"narrow of {src(a['input'])}")
        for k in ("dim", "start", "length"):
            if not (isinstance(a[k], ast.Name) and a[k].id in comps):
                raise TranslateError(where, f"narrow argument {k} = {src(a[k])} is not a component of the region tuple")
        v = st.targets[0].id
        base[v] = base[a["input"].id]
        lines.append(f"      let {cname(v)} := vnarrow {cname(a['input'].id)} {cname(a['dim'].id)} {cname(a['start'].id)} {cname(a['length'].id)} in")
    if not (isinstance(ret.value, ast.Tuple) and len(ret.value.elts) == 2 and all(isinstance(x, ast.Name) and x.id in order for x in ret.value.elts)):
        raise TranslateError(where, f"return value {src(ret.value)} is not a pair of views")
    rets = [x.id for x in ret.value.elts]
    c = [cname(x) for x in comps]
    o = [cname(x) for x in order]
    text = (f"(* get_views: for {', '.join(comps)} in self.overlap_region *)\n"
            f"Definition g_get_views (overlap_region : region4) ({cname(p)} self_dst_tensor : view) : view * view :=\n"
            f"  let {o[0]} := {init[order[0]]} in\n  let {o[1]} := {init[order[1]]} in\n"
            f"  let st := fold_left (fun st x =>\n"
            f"      let {o[0]} := fst st in let {o[1]} := snd st in\n"
            f"      let {c[0]} := fst (fst (fst x)) in let {c[1]} := snd (fst (fst x)) in let {c[2]} := snd (fst x) in let {c[3]} := snd x in\n"
            + "\n".join(lines) + "\n"
            f"      ({o[0]}, {o[1]})) overlap_region ({o[0]}, {o[1]}) in\n"
            f"  let {o[0]} := fst st in let {o[1]} := snd st in\n"
            f"  ({cname(rets[0])}, {cname(rets[1])}).\n")
    return text, [base[r] for r in rets], p


# --------------------------------------------------------------------------- ShardedTensorBufferConsumer
def gen_consume(cls: ast.ClassDef, ret_bases: list[str], view_param: str) -> str:
    where = "ShardedTensorBufferConsumer.consume_buffer"
    init = method(cls, "__init__")
    if sorted(src(s) for s in strip_doc(init.body)) != ["self.entry = entry", "self.overlapping_regions = overlapping_regions"] \
            or params(init, 1) != ["overlapping_regions", "entry"]:
        raise TranslateError("ShardedTensorBufferConsumer.__init__", "no longer stores overlapping_regions and entry as given")
    fn = method(cls, "consume_buffer")
    body = strip_doc(fn.body)
    if len(body) != 2 or not isinstance(body[1], ast.For):
        raise TranslateError(where, "expected `deserialized = ...; for region in self.overlapping_regions: ...`")
    d, loop = body
    if not (isinstance(d, ast.Assign) and len(d.targets) == 1 and isinstance(d.targets[0], ast.Name) and isinstance(d.value, ast.Call)
            and src(d.value.func) == "TensorBufferConsumer.deserialize_tensor"):
        raise TranslateError(where, f"unexpected first statement {src(d)[:100]}")
    da = call_args(d.value, ["buf", "entry"], where)
    if src(da["buf"]) != "buf" or src(da["entry"]) != "self.entry":
        raise TranslateError(where, f"deserialises {src(da['buf'])} with {src(da['entry'])}")
    des = d.targets[0].id
    if src(loop.iter) != "self.overlapping_regions" or not isinstance(loop.target, ast.Name) or loop.orelse:
        raise TranslateError(where, f"loop header {src(loop.target)} in {src(loop.iter)}")
    r = loop.target.id
    if len(loop.body) != 2:
        raise TranslateError(where, "expected `a, b = region.get_views(..)` and the copy")
    g, cp = loop.body
    if not (isinstance(g, ast.Assign) and len(g.targets) == 1 and isinstance(g.targets[0], ast.Tuple) and len(g.targets[0].elts) == 2
            and all(isinstance(x, ast.Name) for x in g.targets[0].elts) and isinstance(g.value, ast.Call) and src(g.value.func) == f"{r}.get_views"):
        raise TranslateError(where, f"unexpected statement {src(g)[:100]}")
    ga = call_args(g.value, [view_param], where)
    if src(ga[view_param]) != des:
        raise TranslateError(where, f"get_views is given {src(ga[view_param])}, not the deserialised tensor")
    a, b = (x.id for x in g.targets[0].elts)
    if a == b:
        raise TranslateError(where, "repeated target")
    bases = {a: ret_bases[0], b: ret_bases[1]}

    def copy_of(call: ast.Call) -> tuple[str, str]:
        if src(call.func) == "tensor_copy":
            args = call_args(call, ["dst", "src"], where)
        elif isinstance(call.func, ast.Attribute) and call.func.attr == "run_in_executor" and len(call.args) == 4 and not call.keywords \
                and src(call.args[0]) == "executor" and src(call.args[1]) == "tensor_copy":
            args = {"dst": call.args[2], "src": call.args[3]}
        else:
            raise TranslateError(where, f"unsupported copy {src(call)[:100]}")
        if not all(isinstance(v, ast.Name) and v.id in bases for v in args.values()):
            raise TranslateError(where, f"copy between {src(args['dst'])} and {src(args['src'])}")
        return args["dst"].id, args["src"].id

    def copies(st) -> list[tuple[str, str]]:
        if isinstance(st, ast.If):
            if src(st.test) not in ("executor is not None", "executor is None") or len(st.body) != 1 or len(st.orelse) != 1:
                raise TranslateError(where, f"unsupported branching {src(st.test)}")
            return copies(st.body[0]) + copies(st.orelse[0])
        if isinstance(st, ast.Expr):
            v = st.value.value if isinstance(st.value, ast.Await) else st.value
            if isinstance(v, ast.Call):
                return [copy_of(v)]
        raise TranslateError(where, f"unsupported statement {src(st)[:100]}")
    cs = set(copies(cp))
    if len(cs) != 1:
        raise TranslateError(where, f"the two spellings of the copy disagree: {sorted(cs)}")
    dst, s = cs.pop()
    if bases[dst] != "dst" or bases[s] != "src":
        raise TranslateError(where, f"tensor_copy(dst={dst}, src={s}): {dst} is a view of the {bases[dst]} tensor, {s} of the {bases[s]} tensor")
    return (f"(* consume_buffer: {a}, {b} = {r}.get_views({des}); tensor_copy({dst}, {s}) *)\n"
            f"Definition g_consume_one {{E}} ({cname(r)} : region4) (src_shape dst_shape : list Z) ({cname(des)} dst : tensor E) : tensor E :=\n"
            f"  let vs := g_get_views {cname(r)} (full_view src_shape) (full_view dst_shape) in\n"
            f"  let {cname(a)} := fst vs in let {cname(b)} := snd vs in\n"
            f"  copy_views {cname(s)} {cname(dst)} {cname(des)} dst.\n")


# --------------------------------------------------------------------------- lists of integers
def zlist(e: ast.AST, atoms: dict[str, str], where: str) -> str:
    """[c] * len(X) | list(X) | X   with X an atom denoting a list Z"""
    s = src(e)
    if s in atoms:
        return atoms[s]
    if isinstance(e, ast.Call) and src(e.func) == "list" and len(e.args) == 1 and not e.keywords and src(e.args[0]) in atoms:
        return atoms[src(e.args[0])]
    if (isinstance(e, ast.BinOp) and isinstance(e.op, ast.Mult) and isinstance(e.left, ast.List) and len(e.left.elts) == 1
            and isinstance(e.left.elts[0], ast.Constant) and isinstance(e.left.elts[0].value, int) and not isinstance(e.left.elts[0].value, bool)
            and isinstance(e.right, ast.Call) and src(e.right.func) == "len" and len(e.right.args) == 1 and src(e.right.args[0]) in atoms):
        c = e.left.elts[0].value
        return f"(map (fun _ => {c if c >= 0 else f'({c})'}) {atoms[src(e.right.args[0])]})"
    raise TranslateError(where, f"unsupported list expression: {s}")


# --------------------------------------------------------------------------- prepare_read
def key_expr(e: ast.AST, shard: str, env: dict[str, ast.AST], where: str) -> str:
    s = src(e)
    if s == f"{shard}.tensor.location":
        return "[location]"
    if s == f"{shard}.tensor.byte_range_tuple":
        return "byte_range_tuple"
    if isinstance(e, ast.Name) and e.id in env:
        return key_expr(env[e.id], shard, env, where)
    if isinstance(e, ast.Tuple) and e.elts:
        return "(" + " ++ ".join(key_expr(x, shard, env, where) for x in e.elts) + ")"
    raise TranslateError(where, f"unsupported dictionary key: {s}")


def gen_prepare_read(cls: ast.ClassDef, region_params: list[str]) -> str:
    where = "ShardedTensorIOPreparer.prepare_read"
    fn = method(cls, "prepare_read", "classmethod")
    if params(fn, 1) != ["entry", "obj_out"]:
        raise TranslateError(where, f"parameters {params(fn, 1)}")
    body = strip_doc(fn.body)
    if len(body) != 9:
        raise TranslateError(where, f"expected 9 top-level statements, found {len(body)}: {[src(s)[:40] for s in body]}")
    s_none, s_gs, s_val, s_disp, s_dict, loop1, s_rr, loop2, s_ret = body
    # ---- obj_out is None: a fresh tensor of get_tensor_shape()
    if not (isinstance(s_none, ast.If) and src(s_none.test) == "obj_out is None" and not s_none.orelse and len(s_none.body) == 1
            and src(s_none.body[0]).replace("ShardedTensorIOPreparer.", "cls.") == "obj_out = cls.empty_tensor_from_sharded_tensor_entry(entry)"):
        raise TranslateError(where, f"unexpected obj_out=None handling: {src(s_none)[:120]}")
    em = [src(s) for s in strip_doc(method(cls, "empty_tensor_from_sharded_tensor_entry", "staticmethod").body)]
    if em != ["shape = entry.get_tensor_shape()", "dtype = entry.shards[0].tensor.dtype",
              "tensor = torch.empty(shape, dtype=string_to_dtype(dtype))", "return tensor"]:
        raise TranslateError("empty_tensor_from_sharded_tensor_entry", f"body changed: {em}")
    # ---- global shape, validation
    if not (isinstance(s_gs, ast.Assign) and isinstance(s_gs.value, ast.Call) and src(s_gs.value.func) == "cls._get_global_shape"
            and src(call_args(s_gs.value, ["entry"], where)["entry"]) == "entry" and isinstance(s_gs.targets[0], ast.Name)):
        raise TranslateError(where, f"unexpected statement {src(s_gs)}")
    gsv = s_gs.targets[0].id
    if not (isinstance(s_val, ast.Expr) and isinstance(s_val.value, ast.Call) and src(s_val.value.func) == "cls._validate_shape"):
        raise TranslateError(where, f"unexpected statement {src(s_val)}")
    va = call_args(s_val.value, ["global_shape", "obj_out"], where)
    if src(va["global_shape"]) != gsv or src(va["obj_out"]) != "obj_out":
        raise TranslateError(where, f"_validate_shape called with {src(s_val.value)}")
    # ---- dispatch on the type of obj_out
    if not (isinstance(s_disp, ast.If) and src(s_disp.test) == "type(obj_out) == ShardedTensor"
            and [src(s) for s in s_disp.body] == ["local_shards = obj_out.local_shards()"]
            and len(s_disp.orelse) == 1 and isinstance(s_disp.orelse[0], ast.If) and src(s_disp.orelse[0].test) == "type(obj_out) == torch.Tensor"
            and len(s_disp.orelse[0].orelse) == 1 and isinstance(s_disp.orelse[0].orelse[0], ast.Raise)):
        raise TranslateError(where, "unexpected dispatch on type(obj_out)")
    dense = s_disp.orelse[0].body
    if not (len(dense) == 1 and isinstance(dense[0], ast.Assign) and src(dense[0].targets[0]) == "local_shards" and isinstance(dense[0].value, ast.List)
            and len(dense[0].value.elts) == 1 and isinstance(dense[0].value.elts[0], ast.Call) and src(dense[0].value.elts[0].func) == "ShardedTensorShard"):
        raise TranslateError(where, "unexpected dense branch")
    sa = call_args(dense[0].value.elts[0], ["tensor", "metadata"], where)
    if src(sa["tensor"]) != "obj_out" or not (isinstance(sa["metadata"], ast.Call) and src(sa["metadata"].func) == "ShardMetadata"):
        raise TranslateError(where, "unexpected dense shard")
    ma = call_args(sa["metadata"], ["shard_offsets", "shard_sizes", "placement"], where)
    atoms = {"obj_out.shape": "obj_out_shape"}
    out = [f"(* the dense destination: ShardMetadata(shard_offsets={src(ma['shard_offsets'])}, shard_sizes={src(ma['shard_sizes'])}) *)\n"
           f"Definition g_dense_box (obj_out_shape : list Z) : box :=\n"
           f"  mkBox {zlist(ma['shard_offsets'], atoms, where)} {zlist(ma['shard_sizes'], atoms, where)}.\n"]
    # ---- the dictionary
    if not (isinstance(s_dict, ast.Assign) and isinstance(s_dict.targets[0], ast.Name) and src(s_dict.value) == "defaultdict(list)"):
        raise TranslateError(where, f"unexpected statement {src(s_dict)}")
    dname = s_dict.targets[0].id
    # ---- loop 1
    if not (isinstance(loop1, ast.For) and not loop1.orelse and isinstance(loop1.target, ast.Tuple) and len(loop1.target.elts) == 2
            and all(isinstance(x, ast.Name) for x in loop1.target.elts) and isinstance(loop1.iter, ast.Call)
            and src(loop1.iter.func) == "itertools.product" and len(loop1.iter.args) == 2 and not loop1.iter.keywords):
        raise TranslateError(where, f"first loop is not `for a, b in itertools.product(x, y)`: {src(loop1.target)} in {src(loop1.iter)[:80]}")
    tv = [x.id for x in loop1.target.elts]
    its = [src(x) for x in loop1.iter.args]
    if sorted(its) != ["entry.shards", "local_shards"] or tv[0] == tv[1]:
        raise TranslateError(where, f"product of {its}")
    role = {tv[i]: ("local" if its[i] == "local_shards" else "saved") for i in range(2)}
    lv = [v for v in tv if role[v] == "local"][0]
    sv = [v for v in tv if role[v] == "saved"][0]
    coq_list = {"local": "local_shards", "saved": "entry_shards"}

    boxes: dict[str, str] = {}           # python variable -> coq term of type box
    keys: dict[str, ast.AST] = {}        # python variable -> key expression

    def box(e: ast.AST) -> str:
        s = src(e)
        if s == f"{lv}.metadata":
            return f"(snd {cname(lv)})"
        if isinstance(e, ast.Name) and e.id in boxes:
            return cname(e.id)
        raise TranslateError(where, f"unsupported shard metadata: {s}")

    satoms = {f"{sv}.offsets": f"(boff (s_box {cname(sv)}))", f"{sv}.sizes": f"(bsz (s_box {cname(sv)}))"}
    kins = []

    def stmts1(body) -> str:
        if not body:
            return "[]"
        st, rest = body[0], body[1:]
        if isinstance(st, ast.Assign) and len(st.targets) == 1 and isinstance(st.targets[0], ast.Name):
            v = st.targets[0].id
            if isinstance(st.value, ast.Call) and src(st.value.func) == "ShardMetadata":
                a = call_args(st.value, ["shard_offsets", "shard_sizes", "placement"], where)
                boxes[v] = "box"
                keys.pop(v, None)
                return (f"let {cname(v)} := mkBox {zlist(a['shard_offsets'], satoms, where)} {zlist(a['shard_sizes'], satoms, where)} in\n      "
                        + stmts1(rest))
            key_expr(st.value, sv, keys, where)        # must be a key expression
            keys[v] = st.value
            boxes.pop(v, None)
            return stmts1(rest)
        if isinstance(st, ast.If) and not st.orelse and len(st.body) == 1 and isinstance(st.body[0], ast.Continue):
            t = st.test
            neg = False
            if isinstance(t, ast.UnaryOp) and isinstance(t.op, ast.Not):
                neg, t = True, t.operand
            if not (isinstance(t, ast.Call) and src(t.func) == "_check_shard_metadata_pair_overlap" and len(t.args) == 2 and not t.keywords):
                raise TranslateError(where, f"unsupported skip condition {src(st.test)}")
            c = f"overlaps {box(t.args[0])} {box(t.args[1])}"
            c = f"negb ({c})" if neg else c
            return f"if {c} then [] else\n      " + stmts1(rest)
        if (isinstance(st, ast.Expr) and isinstance(st.value, ast.Call) and isinstance(st.value.func, ast.Attribute) and st.value.func.attr == "append"
                and isinstance(st.value.func.value, ast.Subscript) and src(st.value.func.value.value) == dname and len(st.value.args) == 1
                and not st.value.keywords):
            if rest:
                raise TranslateError(where, "statements after the dictionary append")
            kins.append(key_expr(st.value.func.value.slice, sv, keys, where))
            r = st.value.args[0]
            if not (isinstance(r, ast.Call) and src(r.func) == "_OverlappingRegion"):
                raise TranslateError(where, f"appended value {src(r)[:80]}")
            ra = call_args(r, ["dst_tensor", "overlap_region"], where)
            if src(ra["dst_tensor"]) != f"{lv}.tensor":
                raise TranslateError(where, f"dst_tensor={src(ra['dst_tensor'])} is not the local shard's tensor")
            oc = ra["overlap_region"]
            if not (isinstance(oc, ast.Call) and src(oc.func) in ("cls._shards_get_overlap_region_wrt_saved_tensor",
                                                                  "ShardedTensorIOPreparer._shards_get_overlap_region_wrt_saved_tensor")):
                raise TranslateError(where, f"overlap_region={src(oc)[:80]}")
            oa = call_args(oc, region_params, where)
            return (f"[(g_key_insert (s_loc {cname(sv)}) (s_br {cname(sv)}), "
                    f"(fst {cname(lv)}, g_overlap_region {' '.join(box(oa[p]) for p in region_params)}))]")
        raise TranslateError(where, f"unsupported statement in the first loop: {src(st)[:100]}")
    body1 = stmts1(list(loop1.body))
    if len(kins) != 1:
        raise TranslateError(where, f"expected exactly one dictionary append, found {len(kins)}")
    outer, inner = tv
    out.append(f"(* the key under which a region is inserted *)\nDefinition g_key_insert : keyfn := fun location byte_range_tuple => {kins[0]}.\n")
    out.append(f"(* for {outer}, {inner} in itertools.product({', '.join(its)}) *)\n"
               f"Definition g_regions_keyed {{E}} (entry_shards : list (sshard E)) (local_shards : list (Z * box))\n"
               f"  : list (list Z * (Z * region4)) :=\n"
               f"  flat_map (fun {cname(outer)} =>\n    flat_map (fun {cname(inner)} =>\n      {body1})\n"
               f"    {coq_list[role[inner]]}) {coq_list[role[outer]]}.\n")
    # ---- loop 2
    if not (isinstance(s_rr, ast.Assign) and isinstance(s_rr.targets[0], ast.Name) and src(s_rr.value) == "[]"):
        raise TranslateError(where, f"unexpected statement {src(s_rr)}")
    rr = s_rr.targets[0].id
    if not (isinstance(loop2, ast.For) and not loop2.orelse and isinstance(loop2.target, ast.Name) and src(loop2.iter) == "entry.shards"):
        raise TranslateError(where, "second loop is not `for shard in entry.shards`")
    s2 = loop2.target.id
    keys2: dict[str, ast.AST] = {}
    kmem, kget = [], []

    def stmts2(body) -> str:
        if not body:
            return "[]"
        st, rest = body[0], body[1:]
        if isinstance(st, ast.Assign) and len(st.targets) == 1 and isinstance(st.targets[0], ast.Name):
            key_expr(st.value, s2, keys2, where)
            keys2[st.targets[0].id] = st.value
            return stmts2(rest)
        if (isinstance(st, ast.If) and not st.orelse and len(st.body) == 1 and isinstance(st.body[0], ast.Continue)
                and isinstance(st.test, ast.Compare) and len(st.test.ops) == 1 and isinstance(st.test.ops[0], ast.NotIn)
                and src(st.test.comparators[0]) == dname):
            kmem.append(key_expr(st.test.left, s2, keys2, where))
            return (f"if negb (key_mem (g_key_member (s_loc (snd {cname(s2)})) (s_br (snd {cname(s2)}))) {cname(dname)}) then [] else\n    "
                    + stmts2(rest))
        if (isinstance(st, ast.Expr) and isinstance(st.value, ast.Call) and src(st.value.func) == f"{rr}.append" and len(st.value.args) == 1
                and not st.value.keywords and isinstance(st.value.args[0], ast.Call) and src(st.value.args[0].func) == "ReadReq"):
            if rest:
                raise TranslateError(where, "statements after the request append")
            if not kmem:
                raise TranslateError(where, "request appended without a membership test of its key")
            qa = call_args(st.value.args[0], ["path", "buffer_consumer", "byte_range"], where)
            bc = qa["buffer_consumer"]
            if not (isinstance(bc, ast.Call) and src(bc.func) == "ShardedTensorBufferConsumer"):
                raise TranslateError(where, f"buffer_consumer={src(bc)[:80]}")
            ca = call_args(bc, ["overlapping_regions", "entry"], where)
            lk = ca["overlapping_regions"]
            if not (isinstance(lk, ast.Subscript) and src(lk.value) == dname):
                raise TranslateError(where, f"overlapping_regions={src(lk)[:80]} is not a lookup in {dname}")
            kget.append(key_expr(lk.slice, s2, keys2, where))
            if src(qa["path"]) != f"{s2}.tensor.location":
                raise TranslateError(where, f"path={src(qa['path'])}")
            if src(qa["byte_range"]) != f"{s2}.tensor.byte_range_tuple":
                raise TranslateError(where, f"byte_range={src(qa['byte_range'])}")
            if src(ca["entry"]) != f"{s2}.tensor":
                raise TranslateError(where, f"entry={src(ca['entry'])}")
            v = cname(s2)
            return (f"[(s_loc (snd {v}), s_br (snd {v}), (fst {v}, snd {v}, "
                    f"regions_for (g_key_lookup (s_loc (snd {v})) (s_br (snd {v}))) {cname(dname)}))]")
        raise TranslateError(where, f"unsupported statement in the second loop: {src(st)[:100]}")
    body2 = stmts2(list(loop2.body))
    if len(kmem) != 1 or len(kget) != 1:
        raise TranslateError(where, f"expected one membership test and one lookup, found {len(kmem)} / {len(kget)}")
    out.append(f"(* the key tested with `not in` *)\nDefinition g_key_member : keyfn := fun location byte_range_tuple => {kmem[0]}.\n")
    out.append(f"(* the key looked up for the consumer *)\nDefinition g_key_lookup : keyfn := fun location byte_range_tuple => {kget[0]}.\n")
    out.append(f"(* for {s2} in entry.shards: ReadReq(path, byte_range, consumer(regions, entry)) *)\n"
               f"Definition g_read_reqs {{E}} (entry_shards : list (sshard E)) ({cname(dname)} : list (list Z * (Z * region4))) : list (greq E) :=\n"
               f"  flat_map (fun {cname(s2)} =>\n    {body2})\n  (indexed entry_shards).\n")
    if not (isinstance(s_ret, ast.Return) and isinstance(s_ret.value, ast.Tuple) and len(s_ret.value.elts) == 2
            and src(s_ret.value.elts[0]) == rr and src(s_ret.value.elts[1]) == "Future(obj=obj_out)"):
        raise TranslateError(where, f"unexpected return {src(s_ret)}")
    out.append("(* prepare_read: _get_global_shape; _validate_shape; the two loops.  None = an exception *)\n"
               "Definition g_prepare_read {E} (entry_shards : list (sshard E)) (out_shape : list Z) (local_boxes : list box)\n"
               "  : option (list (greq E)) :=\n"
               "  match g_global_shape (map s_box entry_shards) with\n  | None => None\n  | Some global_shape =>\n"
               "      if g_validate_shape out_shape global_shape\n"
               "      then Some (g_read_reqs entry_shards (g_regions_keyed entry_shards (indexed local_boxes)))\n"
               "      else None\n  end.\n")
    return "\n".join(out)


# --------------------------------------------------------------------------- _get_global_shape / _validate_shape
def gen_global_shape(cls: ast.ClassDef) -> str:
    where = "ShardedTensorIOPreparer._get_global_shape"
    fn = method(cls, "_get_global_shape", "staticmethod")
    if params(fn, 0) != ["entry"]:
        raise TranslateError(where, f"parameters {params(fn, 0)}")
    body = strip_doc(fn.body)
    if len(body) != 3 or not isinstance(body[0], ast.Assign) or not isinstance(body[1], ast.For) or not isinstance(body[2], ast.Return):
        raise TranslateError(where, "expected `acc = init; for shard in entry.shards: ...; return acc`")
    init, loop, ret = body
    if not (len(init.targets) == 1 and isinstance(init.targets[0], ast.Name)):
        raise TranslateError(where, f"unexpected statement {src(init)}")
    g = init.targets[0].id
    if src(ret.value) != g:
        raise TranslateError(where, f"does not return {g}")
    ini = zlist(init.value, {"entry.shards[0].sizes": "first_sizes", "entry.shards[0].offsets": "first_offsets"}, where)
    if not (isinstance(loop.target, ast.Name) and src(loop.iter) == "entry.shards" and not loop.orelse and len(loop.body) == 1
            and isinstance(loop.body[0], ast.For)):
        raise TranslateError(where, "outer loop is not `for shard in entry.shards:` with one inner loop")
    s = loop.target.id
    inner = loop.body[0]
    if not (isinstance(inner.target, ast.Name) and not inner.orelse and src(inner.iter) in (f"range(len({s}.offsets))", f"range(len({s}.sizes))")):
        raise TranslateError(where, f"inner loop {src(inner.target)} in {src(inner.iter)}")
    d = inner.target.id
    if not (len(inner.body) == 1 and isinstance(inner.body[0], ast.If) and not inner.body[0].orelse and len(inner.body[0].body) == 1):
        raise TranslateError(where, "inner loop body is not one `if c: acc[dim] = e`")
    iff = inner.body[0]
    asg = iff.body[0]
    if not (isinstance(asg, ast.Assign) and len(asg.targets) == 1 and src(asg.targets[0]) == f"{g}[{d}]"):
        raise TranslateError(where, f"update {src(asg)[:80]}")
    zt = Z(where, (), {f"{s}.offsets[{d}]": "offsets_dim", f"{s}.sizes[{d}]": "sizes_dim", f"{g}[{d}]": "acc_dim"})
    return (f"(* {g} = {src(init.value)} *)\n"
            f"Definition g_gs_init (first_sizes first_offsets : list Z) : list Z := {ini}.\n\n"
            f"(* if {src(iff.test)}: {src(asg)} *)\n"
            f"Definition g_gs_step (offsets_dim sizes_dim acc_dim : Z) : Z :=\n"
            f"  if {zt.b(iff.test)} then {zt.z(asg.value)} else acc_dim.\n\n"
            "(* for shard in entry.shards: for dim in range(len(shard.offsets)); None = IndexError on an empty entry *)\n"
            "Fixpoint g_gs_row (acc offsets sizes : list Z) : list Z :=\n"
            "  match acc, offsets, sizes with\n"
            "  | a :: acc', o :: offsets', s :: sizes' => g_gs_step o s a :: g_gs_row acc' offsets' sizes'\n"
            "  | _, _, _ => acc\n  end.\n"
            "Definition g_global_shape (shards : list box) : option (list Z) :=\n"
            "  match shards with\n  | [] => None\n"
            "  | first :: _ => Some (fold_left (fun acc b => g_gs_row acc (boff b) (bsz b)) shards (g_gs_init (bsz first) (boff first)))\n  end.\n")


def gen_validate(cls: ast.ClassDef) -> str:
    where = "ShardedTensorIOPreparer._validate_shape"
    fn = method(cls, "_validate_shape", "staticmethod")
    if params(fn, 0) != ["global_shape", "obj_out"]:
        raise TranslateError(where, f"parameters {params(fn, 0)}")
    body = strip_doc(fn.body)
    if not body or not isinstance(body[0], ast.If) or src(body[0].test) != "isinstance(obj_out, ShardedTensor)" \
            or [src(s) for s in body[0].body] != ["out_shape = list(obj_out.metadata().size)"] \
            or [src(s) for s in body[0].orelse] != ["out_shape = list(obj_out.shape)"]:
        raise TranslateError(where, "out_shape is no longer the (global) shape of obj_out")

    def cond(e) -> str:
        if isinstance(e, ast.Compare) and len(e.ops) == 1 and isinstance(e.ops[0], (ast.Eq, ast.NotEq)) \
                and {src(e.left), src(e.comparators[0])} == {"out_shape", "global_shape"}:
            c = "list_eqb Z.eqb out_shape global_shape"
            return f"(negb ({c}))" if isinstance(e.ops[0], ast.NotEq) else f"({c})"
        if isinstance(e, ast.UnaryOp) and isinstance(e.op, ast.Not):
            return f"(negb {cond(e.operand)})"
        raise TranslateError(where, f"unsupported condition {src(e)}")

    def stmts(body) -> str:
        if not body:
            return "true"
        st, rest = body[0], body[1:]
        if isinstance(st, ast.Expr) and isinstance(st.value, ast.Call) and src(st.value.func).startswith("logger."):
            return stmts(rest)
        if isinstance(st, ast.Raise):
            return "false"
        if isinstance(st, ast.Return) and st.value is None:
            return "true"
        if isinstance(st, ast.Pass):
            return stmts(rest)
        if isinstance(st, ast.If):
            return f"(if {cond(st.test)} then {stmts(list(st.body) + rest)} else {stmts(list(st.orelse) + rest)})"
        raise TranslateError(where, f"unsupported statement {src(st)[:100]}")
    return ("(* _validate_shape: true = returns normally (a warning is not an effect), false = raises *)\n"
            f"Definition g_validate_shape (out_shape global_shape : list Z) : bool :=\n  {stmts(body[1:])}.\n")


# --------------------------------------------------------------------------- ShardedTensorEntry.get_tensor_shape
def gen_tensor_shape(cls: ast.ClassDef) -> str:
    where = "ShardedTensorEntry.get_tensor_shape"
    fn = method(cls, "get_tensor_shape")
    body = strip_doc(fn.body)
    if len(body) != 5:
        raise TranslateError(where, f"expected 5 statements, found {len(body)}")
    s_assert, s_first, s_init, loop, ret = body
    if not (isinstance(s_assert, ast.Assert) and src(s_assert.test) == "len(self.shards) > 0"):
        raise TranslateError(where, f"unexpected statement {src(s_assert)}")
    if not (isinstance(s_first, ast.Assign) and isinstance(s_first.targets[0], ast.Name) and src(s_first.value) == "self.shards[0]"):
        raise TranslateError(where, f"unexpected statement {src(s_first)}")
    first = s_first.targets[0].id
    if not (isinstance(s_init, ast.Assign) and len(s_init.targets) == 1 and isinstance(s_init.targets[0], ast.Name)):
        raise TranslateError(where, f"unexpected statement {src(s_init)}")
    shape = s_init.targets[0].id
    if not (isinstance(ret, ast.Return) and src(ret.value) == shape):
        raise TranslateError(where, f"does not return {shape}")

    def zipped(gen: ast.comprehension, lists: dict[str, str]):
        if gen.ifs or gen.is_async or not (isinstance(gen.target, ast.Tuple) and len(gen.target.elts) == 2
                                           and all(isinstance(x, ast.Name) for x in gen.target.elts)):
            raise TranslateError(where, f"unsupported comprehension target {src(gen.target)}")
        it = gen.iter
        if not (isinstance(it, ast.Call) and src(it.func) == "zip" and len(it.args) == 2 and not it.keywords
                and all(src(a) in lists for a in it.args)):
            raise TranslateError(where, f"unsupported comprehension iterable {src(it)}")
        a, b = (x.id for x in gen.target.elts)
        if a == b:
            raise TranslateError(where, "repeated comprehension variable")
        return a, b, f"(combine {lists[src(it.args[0])]} {lists[src(it.args[1])]})"

    def comp(e: ast.AST, lists: dict[str, str]) -> str:
        if not (isinstance(e, ast.ListComp) and len(e.generators) == 1):
            raise TranslateError(where, f"unsupported list expression {src(e)}")
        a, b, l = zipped(e.generators[0], lists)
        return f"map (fun p => let {cname(a)} := fst p in let {cname(b)} := snd p in {Z(where, {a, b}).z(e.elt)}) {l}"

    init_t = comp(s_init.value, {f"{first}.sizes": "first_sizes", f"{first}.offsets": "first_offsets"})
    if not (isinstance(loop, ast.For) and isinstance(loop.target, ast.Name) and src(loop.iter) == "self.shards[1:]" and not loop.orelse):
        raise TranslateError(where, "loop is not `for shard in self.shards[1:]`")
    s = loop.target.id
    lists = {f"{s}.sizes": "sizes", f"{s}.offsets": "offsets"}
    cand = None
    cand_t = acc_t = None
    for st in loop.body:
        if isinstance(st, ast.Assign) and len(st.targets) == 1 and isinstance(st.targets[0], ast.Name):
            v, sv = st.targets[0].id, src(st.value)
            if sv in lists:
                lists[v] = lists[sv]
            elif cand is None:
                cand_t = comp(st.value, lists)
                cand = v
            else:
                raise TranslateError(where, f"unsupported assignment {src(st)}")
        elif isinstance(st, ast.If) and cand is not None and acc_t is None and not st.orelse:
            t = st.test
            if not (isinstance(t, ast.Call) and src(t.func) == "all" and len(t.args) == 1 and not t.keywords
                    and isinstance(t.args[0], ast.GeneratorExp) and len(t.args[0].generators) == 1):
                raise TranslateError(where, f"unsupported test {src(t)}")
            a, b, l = zipped(t.args[0].generators[0], {cand: "candidate_shape", shape: "shape"})
            acc_t = f"forallb (fun p => let {cname(a)} := fst p in let {cname(b)} := snd p in {Z(where, {a, b}).b(t.args[0].elt)}) {l}"
            if [src(x) for x in st.body] != [f"{shape} = {cand}"]:
                raise TranslateError(where, f"update {[src(x) for x in st.body]}")
        else:
            raise TranslateError(where, f"unsupported statement {src(st)[:100]}")
    if cand_t is None or acc_t is None:
        raise TranslateError(where, "candidate shape / acceptance test not found")
    return (f"(* {shape} = {src(s_init.value)} *)\n"
            f"Definition g_ts_init (first_sizes first_offsets : list Z) : list Z :=\n  {init_t}.\n\n"
            f"(* {cand} = ... *)\nDefinition g_ts_candidate (sizes offsets : list Z) : list Z :=\n  {cand_t}.\n\n"
            f"(* the all(..) test *)\nDefinition g_ts_accept (candidate_shape shape : list Z) : bool :=\n  {acc_t}.\n\n"
            f"Definition g_ts_step (candidate_shape shape : list Z) : list Z :=\n"
            f"  if g_ts_accept candidate_shape shape then candidate_shape else shape.\n\n"
            "(* get_tensor_shape; None = the assertion on an empty entry *)\n"
            "Definition g_tensor_shape (shards : list box) : option (list Z) :=\n"
            "  match shards with\n  | [] => None\n"
            "  | first :: rest => Some (fold_left (fun shape b => g_ts_step (g_ts_candidate (bsz b) (boff b)) shape) rest\n"
            "                                     (g_ts_init (bsz first) (boff first)))\n  end.\n")


# --------------------------------------------------------------------------- subdivide_shard: the piece (list updates, narrow)
def gen_sub_piece(cls: ast.ClassDef) -> str:
    """the statements of the subdivision loop that build one piece out of start/length (whose arithmetic, like that of
    slice_sz / chunk_length / n_chunks, is translated by gen_chunk.py)"""
    where = "ShardedTensorIOPreparer.subdivide_shard"
    fn = method(cls, "subdivide_shard", "staticmethod")
    if params(fn, 0) != ["shard", "offsets", "sizes", "dim", "max_shard_sz_bytes"]:
        raise TranslateError(where, f"parameters {params(fn, 0)}")
    body = strip_doc(fn.body)
    loops = [s for s in body if isinstance(s, ast.For)]
    if len(loops) != 1 or not isinstance(body[-1], ast.Return) or body[-2] is not loops[0]:
        raise TranslateError(where, "expected one loop followed by the return")
    loop = loops[0]
    if not (isinstance(loop.target, ast.Name) and src(loop.iter) == "range(n_chunks)" and not loop.orelse):
        raise TranslateError(where, f"loop header {src(loop.target)} in {src(loop.iter)}")
    acc = src(body[-1].value)
    if f"{acc} = []" not in [src(s) for s in body]:
        raise TranslateError(where, f"{acc} is not initialised to []")
    ints = {"start", "length"}
    seen_ints = set()
    lists: set[str] = set()
    views: set[str] = set()
    lines = []
    result = None
    for st in loop.body:
        if result is not None:
            raise TranslateError(where, "statements after the append")
        if isinstance(st, ast.Assign) and len(st.targets) == 1 and isinstance(st.targets[0], ast.Name) and st.targets[0].id in ints:
            seen_ints.add(st.targets[0].id)              # arithmetic: gen_chunk.py
            continue
        zt = Z(where, ints, {f"{x}[dim]": f"(nth dim {cname(x)} 0)" for x in lists | {"offsets", "sizes"}})
        if isinstance(st, ast.Assign) and len(st.targets) == 1 and isinstance(st.targets[0], ast.Name):
            v = st.targets[0].id
            if isinstance(st.value, ast.Call) and src(st.value.func) in ("copy.deepcopy", "copy.copy", "list") and len(st.value.args) == 1 \
                    and not st.value.keywords and isinstance(st.value.args[0], ast.Name) and st.value.args[0].id in ({"offsets", "sizes"} | lists):
                lines.append(f"  let {cname(v)} := {cname(st.value.args[0].id)} in")
                lists.add(v)
                continue
            if isinstance(st.value, ast.Call) and src(st.value.func) == "torch.narrow":
                a = call_args(st.value, ["input", "dim", "start", "length"], where)
                if src(a["input"]) != "shard" or src(a["dim"]) != "dim":
                    raise TranslateError(where, f"narrow of {src(a['input'])} along {src(a['dim'])}")
                lines.append(f"  let {cname(v)} := ({zt.z(a['start'])}, {zt.z(a['length'])}) in")
                views.add(v)
                continue
        if isinstance(st, (ast.Assign, ast.AugAssign)):
            tg = st.targets[0] if isinstance(st, ast.Assign) and len(st.targets) == 1 else st.target if isinstance(st, ast.AugAssign) else None
            if isinstance(tg, ast.Subscript) and isinstance(tg.value, ast.Name) and tg.value.id in lists and src(tg.slice) == "dim":
                x = cname(tg.value.id)
                if isinstance(st, ast.Assign):
                    lines.append(f"  let {x} := upd {x} dim {zt.z(st.value)} in")
                elif isinstance(st.op, (ast.Add, ast.Sub)):
                    lines.append(f"  let {x} := upd {x} dim (nth dim {x} 0 {'+' if isinstance(st.op, ast.Add) else '-'} {zt.z(st.value)}) in")
                else:
                    raise TranslateError(where, f"unsupported update {src(st)}")
                continue
        if (isinstance(st, ast.Expr) and isinstance(st.value, ast.Call) and src(st.value.func) == f"{acc}.append" and len(st.value.args) == 1
                and isinstance(st.value.args[0], ast.Tuple) and len(st.value.args[0].elts) == 3 and all(isinstance(x, ast.Name) for x in st.value.args[0].elts)):
            a, b, c = (x.id for x in st.value.args[0].elts)
            if a not in views or b not in lists or c not in lists:
                raise TranslateError(where, f"appended tuple {src(st.value.args[0])} is not (view, offsets list, sizes list)")
            result = f"  ({cname(a)}, ({cname(b)}, {cname(c)}))"
            continue
        raise TranslateError(where, f"unsupported statement in the loop: {src(st)[:100]}")
    if result is None or seen_ints != ints:
        raise TranslateError(where, "start / length / the append not found in the loop")
    return ("(* subdivide_shard: one piece = (narrow start, narrow length), (sub_offsets, sub_sizes) *)\n"
            "Definition g_sub_piece (offsets sizes : list Z) (dim : nat) (start length_ : Z) : (Z * Z) * (list Z * list Z) :=\n"
            + "\n".join(lines) + "\n" + result + ".\n")


def generate() -> dict[str, str]:
    st = parse("torchsnapshot/io_preparers/sharded_tensor.py")
    mf = parse("torchsnapshot/manifest.py")
    cls = find_class(st, "ShardedTensorIOPreparer")
    region, region_params = gen_region(cls)
    views, ret_bases, view_param = gen_views(find_class(st, "_OverlappingRegion"))
    consume = gen_consume(find_class(st, "ShardedTensorBufferConsumer"), ret_bases, view_param)
    tup = [src(s) for s in strip_doc(method(find_class(mf, "TensorEntry"), "byte_range_tuple", "property").body)]
    if tup != ["byte_range = self.byte_range", "if byte_range is None:\n    return None\nelse:\n    return (byte_range[0], byte_range[1])"]:
        raise TranslateError("TensorEntry.byte_range_tuple", f"body changed: {tup}")
    text = ("(* GENERATED by translator/gen_reshard.py from torchsnapshot/io_preparers/sharded_tensor.py and manifest.py - do not edit. *)\n"
            "From TS Require Import model.Base model.Reshard.\n\n"
            + region + "\n" + views + "\n" + consume + "\n" + gen_global_shape(cls) + "\n" + gen_validate(cls) + "\n"
            + gen_prepare_read(cls, region_params) + "\n" + gen_tensor_shape(find_class(mf, "ShardedTensorEntry")) + "\n"
            + gen_sub_piece(cls))
    return {"ReshardGen": text}
