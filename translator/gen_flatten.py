"""T-enc: torchsnapshot/flatten.py -> coq/gen/FlattenGen.v   (Python ast -> Gallina, fail closed).

Translated:
  _encode               straight-line code over one str variable: `s = s.replace(LIT, LIT)`,
                        `if s in (LIT, ...): <such assignments>`, `return s`  ->  encode_gen (nested lets,
                        statement order preserved; str.replace = model.Flatten.replace_all)
  _should_flatten_dict  `if <cond>: return False` ... `return True` with conditions built from
                        all(isinstance(k, (str, int)) for k in d.keys()), len({str(k) for k in d.keys()}), len(d),
                        not, <                                                    ->  should_flatten_gen
Checked structurally (no Gallina emitted, any other shape is an error):
  _decode               is exactly `return unquote(s)` with unquote imported from urllib.parse
  _check_int            is dead code (no call anywhere in flatten.py) - it was only used by the int-candidate
                        lookup removed in d68bde6; if it is called again the hand model no longer describes the code
proofs/FlattenInst.v proves encode_gen = Flatten.encode and should_flatten_gen = Flatten.should_flatten.
"""
from __future__ import annotations

import ast
import os

from lib.core import REPO

OUTPUTS = ["FlattenGen"]


class TranslateError(Exception):
    def __init__(self, where: str, msg: str):
        super().__init__(f"{where}: {msg}")
        self.where = where


def _lit(node, where) -> str:
    if isinstance(node, ast.Constant) and isinstance(node.value, str):
        return "[" + "; ".join(str(ord(c)) for c in node.value) + "]"
    raise TranslateError(where, f"expected a str literal, got {ast.dump(node)[:80]}")


def _strip_doc(body):
    if body and isinstance(body[0], ast.Expr) and isinstance(body[0].value, ast.Constant) \
            and isinstance(body[0].value.value, str):
        return body[1:]
    return body


# ----------------------------------------------------------------------------- _encode
def _replace_stmt(st, var, where) -> str:
    """`var = var.replace(LIT, LIT)` -> Gallina expression over the current value of var"""
    if not (isinstance(st, ast.Assign) and len(st.targets) == 1 and isinstance(st.targets[0], ast.Name)
            and st.targets[0].id == var):
        raise TranslateError(where, f"unrecognised statement {ast.dump(st)[:100]}")
    c = st.value
    if not (isinstance(c, ast.Call) and isinstance(c.func, ast.Attribute) and c.func.attr == "replace"
            and isinstance(c.func.value, ast.Name) and c.func.value.id == var and len(c.args) == 2 and not c.keywords):
        raise TranslateError(where, f"unrecognised right-hand side {ast.dump(c)[:100]}")
    old, new = _lit(c.args[0], where), _lit(c.args[1], where)
    if old == "[]":
        raise TranslateError(where, "replace of the empty string")
    return f"replace_all {old} {new} {var}"


def _block(stmts, var, where, indent) -> str:
    """a block of replace-assignments / membership-guarded blocks; value = final value of var"""
    out = ""
    for st in stmts:
        if isinstance(st, ast.Expr) and isinstance(st.value, ast.Constant):
            continue
        if isinstance(st, ast.If):
            t = st.test
            if not (isinstance(t, ast.Compare) and len(t.ops) == 1 and isinstance(t.ops[0], ast.In)
                    and isinstance(t.left, ast.Name) and t.left.id == var
                    and isinstance(t.comparators[0], (ast.Tuple, ast.List)) and not st.orelse):
                raise TranslateError(where, f"unrecognised if {ast.dump(t)[:100]}")
            alts = "[" + "; ".join(_lit(e, where) for e in t.comparators[0].elts) + "]"
            inner = _block(st.body, var, where, indent + "    ")
            out += (f"{indent}let {var} := if existsb (str_eqb {var}) {alts}\n"
                    f"{indent}         then (\n{inner}{indent}    {var})\n{indent}         else {var} in\n")
        else:
            out += f"{indent}let {var} := {_replace_stmt(st, var, where)} in\n"
    return out


def _encode(fn: ast.FunctionDef) -> str:
    where = "_encode"
    if len(fn.args.args) != 1:
        raise TranslateError(where, "expected one parameter")
    var = fn.args.args[0].arg
    body = _strip_doc(fn.body)
    if not body or not (isinstance(body[-1], ast.Return) and isinstance(body[-1].value, ast.Name)
                        and body[-1].value.id == var):
        raise TranslateError(where, "expected a final `return s`")
    lets = _block(body[:-1], var, where, "  ")
    return f"Definition encode_gen ({var} : pystr) : pystr :=\n{lets}  {var}.\n"


# ----------------------------------------------------------------------------- _should_flatten_dict
def _keys_iter(gen, d, where) -> str:
    """`for k in d.keys()` / `for k in d` ; returns the loop variable"""
    if not (len(gen) == 1 and isinstance(gen[0].target, ast.Name) and not gen[0].ifs and not gen[0].is_async):
        raise TranslateError(where, "unrecognised comprehension")
    it = gen[0].iter
    ok = (isinstance(it, ast.Name) and it.id == d) or (
        isinstance(it, ast.Call) and isinstance(it.func, ast.Attribute) and it.func.attr == "keys"
        and isinstance(it.func.value, ast.Name) and it.func.value.id == d and not it.args)
    if not ok:
        raise TranslateError(where, f"comprehension does not range over the keys of {d}")
    return gen[0].target.id


def _sfd_expr(e, d, where) -> str:
    if isinstance(e, ast.UnaryOp) and isinstance(e.op, ast.Not):
        return f"negb ({_sfd_expr(e.operand, d, where)})"
    if isinstance(e, ast.Compare) and len(e.ops) == 1 and isinstance(e.ops[0], ast.Lt):
        return f"({_sfd_expr(e.left, d, where)} <? {_sfd_expr(e.comparators[0], d, where)})"
    if isinstance(e, ast.Call) and isinstance(e.func, ast.Name) and not e.keywords and len(e.args) == 1:
        a = e.args[0]
        if e.func.id == "len" and isinstance(a, ast.Name) and a.id == d:
            return "Z.of_nat (length ks)"
        if e.func.id == "len" and isinstance(a, ast.SetComp):
            k = _keys_iter(a.generators, d, where)
            elt = a.elt
            if (isinstance(elt, ast.Call) and isinstance(elt.func, ast.Name) and elt.func.id == "str"
                    and len(elt.args) == 1 and isinstance(elt.args[0], ast.Name) and elt.args[0].id == k):
                return "Z.of_nat (length (dedup (map key_str ks)))"
        if e.func.id == "all" and isinstance(a, ast.GeneratorExp):
            k = _keys_iter(a.generators, d, where)
            elt = a.elt
            if (isinstance(elt, ast.Call) and isinstance(elt.func, ast.Name) and elt.func.id == "isinstance"
                    and len(elt.args) == 2 and isinstance(elt.args[0], ast.Name) and elt.args[0].id == k
                    and isinstance(elt.args[1], ast.Tuple)
                    and sorted(getattr(x, "id", "?") for x in elt.args[1].elts) == ["int", "str"]):
                return "forallb is_str_or_int ks"
    raise TranslateError(where, f"unrecognised expression {ast.dump(e)[:120]}")


def _bool_const(node, where) -> str:
    if isinstance(node, ast.Constant) and isinstance(node.value, bool):
        return "true" if node.value else "false"
    raise TranslateError(where, "expected return True/False")


def _should_flatten(fn: ast.FunctionDef) -> str:
    where = "_should_flatten_dict"
    if len(fn.args.args) != 1:
        raise TranslateError(where, "expected one parameter")
    d = fn.args.args[0].arg
    body = _strip_doc(fn.body)
    if not body or not isinstance(body[-1], ast.Return):
        raise TranslateError(where, "expected a final return")
    text = ""
    for st in body[:-1]:
        if not (isinstance(st, ast.If) and not st.orelse and len(st.body) == 1 and isinstance(st.body[0], ast.Return)):
            raise TranslateError(where, f"unrecognised statement {ast.dump(st)[:100]}")
        text += f"  if {_sfd_expr(st.test, d, where)} then {_bool_const(st.body[0].value, where)}\n  else "
    text += _bool_const(body[-1].value, where)
    return f"Definition should_flatten_gen (ks : list key) : bool :=\n{text}.\n"


# ----------------------------------------------------------------------------- structural checks
def _check_decode(fn: ast.FunctionDef, tree: ast.Module):
    where = "_decode"
    body = _strip_doc(fn.body)
    ok = (len(fn.args.args) == 1 and len(body) == 1 and isinstance(body[0], ast.Return)
          and isinstance(body[0].value, ast.Call) and isinstance(body[0].value.func, ast.Name)
          and body[0].value.func.id == "unquote" and len(body[0].value.args) == 1 and not body[0].value.keywords
          and isinstance(body[0].value.args[0], ast.Name) and body[0].value.args[0].id == fn.args.args[0].arg)
    if not ok:
        raise TranslateError(where, "expected `return unquote(s)`")
    imported = any(isinstance(n, ast.ImportFrom) and n.module == "urllib.parse"
                   and any(a.name == "unquote" and a.asname is None for a in n.names) for n in tree.body)
    if not imported:
        raise TranslateError(where, "unquote is not urllib.parse.unquote")


def _check_dead(tree: ast.Module, name: str):
    for n in ast.walk(tree):
        if isinstance(n, ast.Name) and n.id == name and isinstance(n.ctx, ast.Load):
            raise TranslateError(name, f"{name} is referenced again; the hand model assumes it is dead code")


def generate() -> dict:
    path = os.path.join(REPO, "torchsnapshot", "flatten.py")
    tree = ast.parse(open(path).read())
    fns = {n.name: n for n in tree.body if isinstance(n, ast.FunctionDef)}
    for need in ("_encode", "_decode", "_should_flatten_dict", "flatten", "inflate", "_flatten", "_populate_container"):
        if need not in fns:
            raise TranslateError(need, "function not found in flatten.py")
    _check_decode(fns["_decode"], tree)
    _check_dead(tree, "_check_int")
    text = ("(* generated by translator/gen_flatten.py from torchsnapshot/flatten.py on every run - do not edit *)\n"
            "From TS Require Import model.Base model.Flatten.\n\n"
            + _encode(fns["_encode"]) + "\n" + _should_flatten(fns["_should_flatten_dict"]))
    return {"FlattenGen": text}
