"""T-enc: torchsnapshot/flatten.py -> coq/gen/FlattenGen.v   (Python ast -> Gallina, fail closed).

Translated:
  _encode               straight-line code over one str variable: `s = s.replace(LIT, LIT)`,
                        `if s in (LIT, ...): <such assignments>`, `return s`  ->  encode_gen (nested lets,
                        statement order preserved; str.replace = model.Flatten.replace_all)
  _should_flatten_dict  `if <cond>: return False` ... `return True` with conditions built from
                        all(isinstance(k, (str, int)) for k in d.keys()), len({str(k) for k in d.keys()}), len(d),
                        not, <                                                    ->  should_flatten_gen
Checked structurally (no Gallina emitted, any other shape is an error):
  _decode               is exactly `return unquote(s)` with unquote imported from urllib.parse
  _check_int            is dead code (no call anywhere in flatten.py) - it was only used by the int-candidate
                        lookup removed in d68bde6; if it is called again the hand model no longer describes the code
proofs/FlattenInst.v proves encode_gen = Flatten.encode and should_flatten_gen = Flatten.should_flatten.

Second output, gen/FlattenRecGen.v (generate_rec(); registered through the shim translator/gen_flatten_rec.py so that a
property that only needs _encode keeps building when the recursive functions change):
  _flatten, flatten, _entry_to_container, _populate_container, inflate     translated STATEMENT BY STATEMENT into the
  option monad over the Python vocabulary of coq/model/FlattenPy.v (see the section "the recursive functions" below
  for the accepted subset).  proofs/FlattenRecInst.v and proofs/InflateInst.v prove the generated terms equal to /
  refined by the hand model of coq/model/Flatten.v.
"""
from __future__ import annotations

import ast
import os

from lib.core import REPO

OUTPUTS = ["FlattenGen"]


class TranslateError(Exception):
    def __init__(self, where: str, msg: str):
        super().__init__(f"{where}: {msg}")
        self.where = where


def _lit(node, where) -> str:
    if isinstance(node, ast.Constant) and isinstance(node.value, str):
        return "[" + "; ".join(str(ord(c)) for c in node.value) + "]"
    raise TranslateError(where, f"expected a str literal, got {ast.dump(node)[:80]}")


def _strip_doc(body):
    if body and isinstance(body[0], ast.Expr) and isinstance(body[0].value, ast.Constant) \
            and isinstance(body[0].value.value, str):
        return body[1:]
    return body


# ----------------------------------------------------------------------------- _encode
def _replace_stmt(st, var, where) -> str:
    """`var = var.replace(LIT, LIT)` -> Gallina expression over the current value of var"""
    if not (isinstance(st, ast.Assign) and len(st.targets) == 1 and isinstance(st.targets[0], ast.Name)
            and st.targets[0].id == var):
        raise TranslateError(where, f"unrecognised statement {ast.dump(st)[:100]}")
    c = st.value
    if not (isinstance(c, ast.Call) and isinstance(c.func, ast.Attribute) and c.func.attr == "replace"
            and isinstance(c.func.value, ast.Name) and c.func.value.id == var and len(c.args) == 2 and not c.keywords):
        raise TranslateError(where, f"unrecognised right-hand side {ast.dump(c)[:100]}")
    old, new = _lit(c.args[0], where), _lit(c.args[1], where)
    if old == "[]":
        raise TranslateError(where, "replace of the empty string")
    return f"replace_all {old} {new} {var}"


def _block(stmts, var, where, indent) -> str:
    """a block of replace-assignments / membership-guarded blocks; value = final value of var"""
    out = ""
    for st in stmts:
        if isinstance(st, ast.Expr) and isinstance(st.value, ast.Constant):
            continue
        if isinstance(st, ast.If):
            t = st.test
            if not (isinstance(t, ast.Compare) and len(t.ops) == 1 and isinstance(t.ops[0], ast.In)
                    and isinstance(t.left, ast.Name) and t.left.id == var
                    and isinstance(t.comparators[0], (ast.Tuple, ast.List)) and not st.orelse):
                raise TranslateError(where, f"unrecognised if {ast.dump(t)[:100]}")
            alts = "[" + "; ".join(_lit(e, where) for e in t.comparators[0].elts) + "]"
            inner = _block(st.body, var, where, indent + "    ")
            out += (f"{indent}let {var} := if existsb (str_eqb {var}) {alts}\n"
                    f"{indent}         then (\n{inner}{indent}    {var})\n{indent}         else {var} in\n")
        else:
            out += f"{indent}let {var} := {_replace_stmt(st, var, where)} in\n"
    return out


def _encode(fn: ast.FunctionDef) -> str:
    where = "_encode"
    if len(fn.args.args) != 1:
        raise TranslateError(where, "expected one parameter")
    var = fn.args.args[0].arg
    body = _strip_doc(fn.body)
    if not body or not (isinstance(body[-1], ast.Return) and isinstance(body[-1].value, ast.Name)
                        and body[-1].value.id == var):
        raise TranslateError(where, "expected a final `return s`")
    lets = _block(body[:-1], var, where, "  ")
    return f"Definition encode_gen ({var} : pystr) : pystr :=\n{lets}  {var}.\n"


# ----------------------------------------------------------------------------- _should_flatten_dict
def _keys_iter(gen, d, where) -> str:
    """`for k in d.keys()` / `for k in d` ; returns the loop variable"""
    if not (len(gen) == 1 and isinstance(gen[0].target, ast.Name) and not gen[0].ifs and not gen[0].is_async):
        raise TranslateError(where, "unrecognised comprehension")
    it = gen[0].iter
    ok = (isinstance(it, ast.Name) and it.id == d) or (
        isinstance(it, ast.Call) and isinstance(it.func, ast.Attribute) and it.func.attr == "keys"
        and isinstance(it.func.value, ast.Name) and it.func.value.id == d and not it.args)
    if not ok:
        raise TranslateError(where, f"comprehension does not range over the keys of {d}")
    return gen[0].target.id


def _sfd_expr(e, d, where) -> str:
    if isinstance(e, ast.UnaryOp) and isinstance(e.op, ast.Not):
        return f"negb ({_sfd_expr(e.operand, d, where)})"
    if isinstance(e, ast.Compare) and len(e.ops) == 1 and isinstance(e.ops[0], ast.Lt):
        return f"({_sfd_expr(e.left, d, where)} <? {_sfd_expr(e.comparators[0], d, where)})"
    if isinstance(e, ast.Call) and isinstance(e.func, ast.Name) and not e.keywords and len(e.args) == 1:
        a = e.args[0]
        if e.func.id == "len" and isinstance(a, ast.Name) and a.id == d:
            return "Z.of_nat (length ks)"
        if e.func.id == "len" and isinstance(a, ast.SetComp):
            k = _keys_iter(a.generators, d, where)
            elt = a.elt
            if (isinstance(elt, ast.Call) and isinstance(elt.func, ast.Name) and elt.func.id == "str"
                    and len(elt.args) == 1 and isinstance(elt.args[0], ast.Name) and elt.args[0].id == k):
                return "Z.of_nat (length (dedup (map key_str ks)))"
        if e.func.id == "all" and isinstance(a, ast.GeneratorExp):
            k = _keys_iter(a.generators, d, where)
            elt = a.elt
            if (isinstance(elt, ast.Call) and isinstance(elt.func, ast.Name) and elt.func.id == "isinstance"
                    and len(elt.args) == 2 and isinstance(elt.args[0], ast.Name) and elt.args[0].id == k
                    and isinstance(elt.args[1], ast.Tuple)
                    and sorted(getattr(x, "id", "?") for x in elt.args[1].elts) == ["int", "str"]):
                return "forallb is_str_or_int ks"
    raise TranslateError(where, f"unrecognised expression {ast.dump(e)[:120]}")


def _bool_const(node, where) -> str:
    if isinstance(node, ast.Constant) and isinstance(node.value, bool):
        return "true" if node.value else "false"
    raise TranslateError(where, "expected return True/False")


def _should_flatten(fn: ast.FunctionDef) -> str:
    where = "_should_flatten_dict"
    if len(fn.args.args) != 1:
        raise TranslateError(where, "expected one parameter")
    d = fn.args.args[0].arg
    body = _strip_doc(fn.body)
    if not body or not isinstance(body[-1], ast.Return):
        raise TranslateError(where, "expected a final return")
    text = ""
    for st in body[:-1]:
        if not (isinstance(st, ast.If) and not st.orelse and len(st.body) == 1 and isinstance(st.body[0], ast.Return)):
            raise TranslateError(where, f"unrecognised statement {ast.dump(st)[:100]}")
        text += f"  if {_sfd_expr(st.test, d, where)} then {_bool_const(st.body[0].value, where)}\n  else "
    text += _bool_const(body[-1].value, where)
    return f"Definition should_flatten_gen (ks : list key) : bool :=\n{text}.\n"


# ----------------------------------------------------------------------------- structural checks
def _check_decode(fn: ast.FunctionDef, tree: ast.Module):
    where = "_decode"
    body = _strip_doc(fn.body)
    ok = (len(fn.args.args) == 1 and len(body) == 1 and isinstance(body[0], ast.Return)
          and isinstance(body[0].value, ast.Call) and isinstance(body[0].value.func, ast.Name)
          and body[0].value.func.id == "unquote" and len(body[0].value.args) == 1 and not body[0].value.keywords
          and isinstance(body[0].value.args[0], ast.Name) and body[0].value.args[0].id == fn.args.args[0].arg)
    if not ok:
        raise TranslateError(where, "expected `return unquote(s)`")
    imported = any(isinstance(n, ast.ImportFrom) and n.module == "urllib.parse"
                   and any(a.name == "unquote" and a.asname is None for a in n.names) for n in tree.body)
    if not imported:
        raise TranslateError(where, "unquote is not urllib.parse.unquote")


def _check_dead(tree: ast.Module, name: str):
    for n in ast.walk(tree):
        if isinstance(n, ast.Name) and n.id == name and isinstance(n.ctx, ast.Load):
            raise TranslateError(name, f"{name} is referenced again; the hand model assumes it is dead code")


def generate() -> dict:
    path = os.path.join(REPO, "torchsnapshot", "flatten.py")
    tree = ast.parse(open(path).read())
    fns = {n.name: n for n in tree.body if isinstance(n, ast.FunctionDef)}
    for need in ("_encode", "_decode", "_should_flatten_dict", "flatten", "inflate", "_flatten", "_populate_container"):
        if need not in fns:
            raise TranslateError(need, "function not found in flatten.py")
    _check_decode(fns["_decode"], tree)
    _check_dead(tree, "_check_int")
    text = ("(* generated by translator/gen_flatten.py from torchsnapshot/flatten.py on every run - do not edit *)\n"
            "From TS Require Import model.Base model.Flatten.\n\n"
            + _encode(fns["_encode"]) + "\n" + _should_flatten(fns["_should_flatten_dict"]))
    return {"FlattenGen": text}


# ============================================================================= the recursive functions
# Accepted subset (anything else raises TranslateError = the run's translation obligation is broken):
#   statements   x = e | a, b = e | x: T = e | d[k] = e | dd[k1][k2] = e | del c[k] | x = l.pop() | d.update(m) |
#                c.extend(e) | if/elif/else | for <name or pair> in e: (the names the body rebinds or mutates and that
#                exist before the loop are its state) | continue | return e | raise ... | f(container=h[k], ...) for a
#                translated function that mutates its parameter (the heap cell h[k] is rewritten)
#   expressions  names, str/int literals, {} , [] , (a, b), f"..{str-valued}..", and/or/not, == on str, < <= > >= == on int,
#                in / not in a dict,
#                type(x) == T (or `is T`), type(x) in (T, ..), isinstance(x, T | (T, ..)), str(), int(), len(), list(), enumerate(),
#                sorted(e, key=lambda ..), x.keys(), x.items(), s.split("/"), s.split("/")[0], "/".join(l), p[0], p[1],
#                d[k], entry.keys, dict.fromkeys / OrderedDict.fromkeys, defaultdict(dict), itertools.chain(a, b),
#                ListEntry() / DictEntry(keys=..) / OrderedDictEntry(keys=..), list/generator/dict comprehensions with one
#                generator, calls of _encode, _decode, _should_flatten_dict and of the translated functions
# A sub-expression that can raise (d[k], int(s), entry.keys, c.keys(), a call of a translated function) is bound with
# `x <- e ;;` BEFORE the statement it occurs in; it is refused inside and/or, lambdas and comprehensions (where
# hoisting would change the evaluation order), except as the whole body of a sorted() key.
STR, INT, BOOL, OBJ, KEY, ENTRY, REF, CONT = "str", "int", "bool", "obj", "key", "entry", "ref", "cont"
DDICT = ("ddict",)                      # defaultdict(dict): str -> (str -> reference)


def LIST(t):
    return ("list", t)


def PAIR(a, b):
    return ("pair", a, b)


def SDICT(v):                           # dict with str keys; v None: value type not known yet
    return ("sdict", v)


HEAP = SDICT(CONT)
_COQTY = {STR: "pystr", INT: "Z", BOOL: "bool", OBJ: "obj", KEY: "key", ENTRY: "entry", REF: "ref", CONT: "cont ref"}
PYTYPES = {"list": "TyList", "dict": "TyDict", "OrderedDict": "TyOrderedDict"}
ECLS = {"ListEntry": "ClsListEntry", "DictEntry": "ClsDictEntry", "OrderedDictEntry": "ClsOrderedDictEntry"}


def coqty(t) -> str:
    if t in _COQTY:
        return _COQTY[t]
    if t == DDICT:
        return "sdict (sdict ref)"
    if t[0] == "list":
        return f"list ({coqty(t[1])})"
    if t[0] == "pair":
        return f"({coqty(t[1])} * {coqty(t[2])})"
    if t[0] == "sdict" and t[1] is not None:
        return f"sdict ({coqty(t[1])})"
    raise TranslateError("types", f"no Coq type for {t}")


def same(a, b) -> bool:
    """type equality where an sdict whose value type is still unknown matches every sdict"""
    if a == b:
        return True
    if isinstance(a, tuple) and isinstance(b, tuple) and a and b and a[0] == b[0] and len(a) == len(b):
        if a[0] == "sdict":
            return a[1] is None or b[1] is None or same(a[1], b[1])
        return all(same(x, y) for x, y in zip(a[1:], b[1:]))
    return False


def _comment(node) -> str:
    t = ast.unparse(node).splitlines()[0][:96].replace('"', "'").replace("(*", "( *").replace("*)", "* )")
    return f"(* {node.lineno}: {t} *)"


_ZCMP = {ast.Lt: "<?", ast.LtE: "<=?", ast.Gt: ">?", ast.GtE: ">=?", ast.Eq: "=?"}


class Sig:
    def __init__(self, py, gname, ptypes, ret, fuel=False, heap_ret=False):
        self.py, self.gname, self.ptypes, self.ret, self.fuel, self.heap_ret = py, gname, ptypes, ret, fuel, heap_ret
        self.params: list[str] = []        # filled from the def
        self.mutates: list[str] = []       # parameters the body mutates in place (filled when translated)


def _base_name(node):
    while isinstance(node, ast.Subscript):
        node = node.value
    return node.id if isinstance(node, ast.Name) else None


MUTATORS = {"update", "extend", "pop"}


def assigned(stmts, sigs) -> list[str]:
    """names a block rebinds or mutates, in order of first occurrence"""
    out: list[str] = []

    def add(n):
        if n is not None and n not in out:
            out.append(n)

    def tgt(t):
        if isinstance(t, ast.Name):
            add(t.id)
        elif isinstance(t, (ast.Tuple, ast.List)):
            for x in t.elts:
                tgt(x)
        else:
            add(_base_name(t))

    for s in stmts:
        for n in ast.walk(s):
            if isinstance(n, ast.Assign):
                for t in n.targets:
                    tgt(t)
            elif isinstance(n, (ast.AnnAssign, ast.AugAssign)):
                tgt(n.target)
            elif isinstance(n, ast.For):
                tgt(n.target)
            elif isinstance(n, ast.Delete):
                for t in n.targets:
                    tgt(t)
            elif isinstance(n, ast.Call):
                if isinstance(n.func, ast.Attribute) and n.func.attr in MUTATORS and isinstance(n.func.value, ast.Name):
                    add(n.func.value.id)
                if isinstance(n.func, ast.Name) and n.func.id in sigs:
                    for kw in n.keywords:
                        if kw.arg in sigs[n.func.id].mutates:
                            add(_base_name(kw.value))
                    for i, a in enumerate(n.args):
                        ps = sigs[n.func.id].params
                        if i < len(ps) and ps[i] in sigs[n.func.id].mutates:
                            add(_base_name(a))
    return out


class FnTr:
    """translation of one function of flatten.py"""

    def __init__(self, fn: ast.FunctionDef, sig: Sig, sigs: dict):
        self.fn, self.sig, self.sigs = fn, sig, sigs
        self.where = fn.name
        a = fn.args
        if a.vararg or a.kwarg or a.kwonlyargs or a.posonlyargs or a.defaults or len(a.args) != len(sig.ptypes):
            raise TranslateError(self.where, "signature changed")
        self.params = [x.arg for x in a.args]
        self.env = dict(zip(self.params, sig.ptypes))
        self.ntmp = 0
        self.loop_conts: list = []
        self.self_calls = 0

    # ------------------------------------------------------------------ helpers
    def err(self, node, msg):
        raise TranslateError(self.where, f"line {getattr(node, 'lineno', '?')}: {msg}: {ast.unparse(node)[:110]}")

    def tmp(self) -> str:
        self.ntmp += 1
        return f"t{self.ntmp}"

    @staticmethod
    def v(name: str) -> str:
        return "v_" + name

    def pure(self, e, want=None):
        B, t, ty = self.ex(e, want)
        if B:
            self.err(e, "an expression that can raise is not accepted in this position")
        return t, ty

    def builtin(self, e, name) -> bool:
        """e is the global name `name` (not shadowed by a local)"""
        return isinstance(e, ast.Name) and e.id == name and name not in self.env

    # ------------------------------------------------------------------ expressions: (binds, term, type)
    def ex(self, e, want=None):
        if isinstance(e, ast.Name):
            if e.id in self.env:
                return [], self.v(e.id), self.env[e.id]
            self.err(e, "unknown name")
        if isinstance(e, ast.Constant):
            if isinstance(e.value, str):
                return [], _lit(e, self.where), STR
            if isinstance(e.value, bool):
                return [], "true" if e.value else "false", BOOL
            if isinstance(e.value, int):
                return [], (f"({e.value})" if e.value < 0 else str(e.value)), INT
        if isinstance(e, ast.Dict) and not e.keys:
            return [], "[]", SDICT(None)
        if isinstance(e, ast.List) and not e.elts and want == CONT:
            return [], "(CList [])", CONT                      # a fresh (mutable) list object
        if isinstance(e, ast.Tuple) and len(e.elts) == 2:
            B1, a, ta = self.ex(e.elts[0])
            B2, b, tb = self.ex(e.elts[1])
            return B1 + B2, f"({a}, {b})", PAIR(ta, tb)
        if isinstance(e, ast.JoinedStr):
            parts = []
            for p in e.values:
                if isinstance(p, ast.Constant) and isinstance(p.value, str):
                    parts.append(_lit(p, self.where))
                elif isinstance(p, ast.FormattedValue) and p.conversion == -1 and p.format_spec is None:
                    t, ty = self.pure(p.value)
                    if ty != STR:
                        self.err(p.value, "only str values are formatted")
                    parts.append(t)
                else:
                    self.err(e, "unsupported f-string part")
            return [], "(" + " ++ ".join(parts) + ")", STR
        if isinstance(e, ast.BoolOp):
            ts = []
            for x in e.values:
                t, ty = self.pure(x)
                if ty != BOOL:
                    self.err(x, "not a bool")
                ts.append(t)
            return [], "(" + (" && " if isinstance(e.op, ast.And) else " || ").join(ts) + ")", BOOL
        if isinstance(e, ast.UnaryOp) and isinstance(e.op, ast.Not):
            B, t, ty = self.ex(e.operand)
            if ty != BOOL:
                self.err(e, "not of a non-bool")
            return B, f"(negb {t})", BOOL
        if isinstance(e, ast.Compare) and len(e.ops) == 1:
            return self.compare(e)
        if isinstance(e, ast.Subscript):
            return self.subscript(e, want)
        if isinstance(e, ast.Attribute) and e.attr == "keys":
            B, t, ty = self.ex(e.value)
            if ty == ENTRY:
                x = self.tmp()
                return B + [(x, f"entry_keys {t}")], x, LIST(KEY)
        if isinstance(e, ast.Call):
            return self.call(e, want)
        if isinstance(e, (ast.GeneratorExp, ast.ListComp)):
            lam, items, ty = self.comp(e.generators, lambda: self.pure(e.elt))
            return [], f"(map (fun it => {lam[0]}{lam[1]}) {items})", LIST(ty)
        if isinstance(e, ast.DictComp):
            def body():
                k, tk = self.pure(e.key)
                val, tv = self.pure(e.value)
                if tk != STR:
                    self.err(e.key, "dict comprehension with non-str keys")
                return f"({k}, {val})", tv
            lam, items, tv = self.comp(e.generators, body, listify=True)
            return [], f"(sdict_of_list (flat_map (fun it => {lam[0]}{lam[1]}) {items}))", SDICT(tv)
        self.err(e, "unsupported expression")

    def bind_target(self, target, ty, src):
        """lets that destructure the loop item `src` of type ty; updates env"""
        if isinstance(target, ast.Name):
            self.env[target.id] = ty
            return f"let {self.v(target.id)} := {src} in "
        if (isinstance(target, ast.Tuple) and len(target.elts) == 2 and all(isinstance(x, ast.Name) for x in target.elts)
                and isinstance(ty, tuple) and ty[0] == "pair"):
            a, b = target.elts
            self.env[a.id], self.env[b.id] = ty[1], ty[2]
            return f"let {self.v(a.id)} := fst {src} in let {self.v(b.id)} := snd {src} in "
        self.err(target, "unsupported loop target")

    def comp(self, gens, body, listify=False):
        if not (len(gens) == 1 and not gens[0].is_async):
            raise TranslateError(self.where, "comprehension with several generators")
        g = gens[0]
        items, ity = self.pure(g.iter)
        if not (isinstance(ity, tuple) and ity[0] == "list"):
            self.err(g.iter, "comprehension over a non-list")
        saved = dict(self.env)
        lets = self.bind_target(g.target, ity[1], "it")
        conds = []
        for c in g.ifs:
            t, ty = self.pure(c)
            if ty != BOOL:
                self.err(c, "not a bool")
            conds.append(t)
        t, ty = body()
        self.env = saved
        if listify:
            t = f"[{t}]"
            if conds:
                t = f"if {' && '.join(conds)} then {t} else []"
        elif conds:
            self.err(g.ifs[0], "filtered generator")
        return (lets, t), items, ty

    def compare(self, e):
        op, l, r = e.ops[0], e.left, e.comparators[0]
        # type(x) == T   /   type(x) in (T, ...)
        if isinstance(l, ast.Call) and self.builtin(l.func, "type") and len(l.args) == 1 and not l.keywords:
            x, tx = self.pure(l.args[0])
            tyf = {OBJ: "py_type", CONT: "cont_type"}.get(tx)
            if tyf is None:
                self.err(l, "type() of this is not modelled")
            if isinstance(op, (ast.Eq, ast.Is)) and isinstance(r, ast.Name) and r.id in PYTYPES and r.id not in self.env:
                return [], f"(pytype_eqb ({tyf} {x}) {PYTYPES[r.id]})", BOOL
            if isinstance(op, ast.In) and isinstance(r, (ast.Tuple, ast.List)) and r.elts and all(
                    isinstance(c, ast.Name) and c.id in PYTYPES and c.id not in self.env for c in r.elts):
                return [], f"(existsb (pytype_eqb ({tyf} {x})) [{'; '.join(PYTYPES[c.id] for c in r.elts)}])", BOOL
            self.err(e, "unsupported type test")
        B1, a, ta = self.ex(l)
        B2, b, tb = self.ex(r)
        if B2 and B1:
            self.err(e, "both sides can raise")
        if isinstance(op, ast.Eq) and ta == STR and tb == STR:
            return B1 + B2, f"(str_eqb {a} {b})", BOOL
        if type(op) in _ZCMP and ta == INT and tb == INT:
            return B1 + B2, f"({a} {_ZCMP[type(op)]} {b})", BOOL
        if isinstance(op, (ast.In, ast.NotIn)) and ta == STR and (tb == DDICT or (isinstance(tb, tuple) and tb[0] == "sdict")):
            t = f"(sdict_mem {a} {b})"
            return B1 + B2, (t if isinstance(op, ast.In) else f"(negb {t})"), BOOL
        self.err(e, "unsupported comparison")

    def subscript(self, e, want):
        # s.split("/")[0]
        if (isinstance(e.slice, ast.Constant) and e.slice.value == 0 and isinstance(e.value, ast.Call)
                and isinstance(e.value.func, ast.Attribute) and e.value.func.attr == "split"):
            B, t, ty = self.ex(e.value)
            if ty == LIST(STR) and t.startswith("(split "):
                return B, "(split_head " + t[len("(split "):], STR
        B, t, ty = self.ex(e.value)
        if isinstance(ty, tuple) and ty[0] == "pair" and isinstance(e.slice, ast.Constant) and e.slice.value in (0, 1):
            return B, f"({'fst' if e.slice.value == 0 else 'snd'} {t})", ty[1 + e.slice.value]
        if isinstance(ty, tuple) and ty[0] == "sdict" and ty[1] is not None:
            k, tk = self.pure(e.slice)
            if tk != STR:
                self.err(e, "non-str key")
            x = self.tmp()
            if ty == HEAP and want == REF:
                return B + [(x, f"heap_ref {t} {k}")], x, REF        # the container object itself
            return B + [(x, f"sdict_get {k} {t}")], x, ty[1]
        self.err(e, "unsupported subscript")

    def callargs(self, e, sig: Sig):
        """positional + keyword arguments of a call of a translated function, in parameter order"""
        if len(e.args) > len(sig.params):
            self.err(e, "too many arguments")
        got = dict(zip(sig.params, e.args))
        for kw in e.keywords:
            if kw.arg is None or kw.arg not in sig.params or kw.arg in got:
                self.err(e, "bad keyword argument")
            got[kw.arg] = kw.value
        if set(got) != set(sig.params):
            self.err(e, "missing argument")
        return [got[p] for p in sig.params]

    def call(self, e, want):
        f = e.func
        nargs = len(e.args)
        plain = not e.keywords
        if isinstance(f, ast.Name) and f.id not in self.env:
            n = f.id
            if n == "str" and nargs == 1 and plain:
                B, t, ty = self.ex(e.args[0])
                if ty == INT:
                    return B, f"(str_of_Z {t})", STR
                if ty == KEY:
                    return B, f"(key_str {t})", STR
                if ty == STR:
                    return B, t, STR
                self.err(e, "str() of this is not modelled")
            if n == "int" and nargs == 1 and plain:
                B, t, ty = self.ex(e.args[0])
                if ty != STR:
                    self.err(e, "int() of a non-str")
                x = self.tmp()
                return B + [(x, f"parse_int {t}")], x, INT
            if n == "len" and nargs == 1 and plain:
                B, t, ty = self.ex(e.args[0])
                if isinstance(ty, tuple) and ty[0] == "list":
                    return B, f"(Z.of_nat (length {t}))", INT
                self.err(e, "len() of this is not modelled")
            if n == "list" and nargs == 1 and plain:
                B, t, ty = self.ex(e.args[0])
                if isinstance(ty, tuple) and ty[0] == "list":
                    return B, t, ty
                self.err(e, "list() of this is not modelled")
            if n == "enumerate" and nargs == 1 and plain:
                B, t, ty = self.ex(e.args[0])
                if ty == OBJ:
                    return B, f"(enumerate (obj_list_items {t}))", LIST(PAIR(INT, OBJ))
                if isinstance(ty, tuple) and ty[0] == "list":
                    return B, f"(enumerate {t})", LIST(PAIR(INT, ty[1]))
                self.err(e, "enumerate() of this is not modelled")
            if n == "sorted" and nargs == 1 and [k.arg for k in e.keywords] == ["key"]:
                return self.sorted_(e)
            if n == "isinstance" and nargs == 2 and plain:
                B, t, ty = self.ex(e.args[0])
                c = e.args[1]
                cs = list(c.elts) if isinstance(c, ast.Tuple) else [c]
                if ty == CONT and cs and all(isinstance(x, ast.Name) and x.id in PYTYPES and x.id not in self.env for x in cs):
                    return B, f"(cont_isinstance {t} [{'; '.join(PYTYPES[x.id] for x in cs)}])", BOOL
                if ty == ENTRY and len(cs) == 1 and isinstance(c, ast.Name) and c.id in ECLS and c.id not in self.env:
                    return B, f"(entry_isinstance {t} {ECLS[c.id]})", BOOL
                self.err(e, "unsupported isinstance")
            if n == "defaultdict" and nargs == 1 and plain and self.builtin(e.args[0], "dict"):
                return [], "[]", DDICT
            if n in ("_encode", "_decode") and nargs == 1 and plain:
                B, t, ty = self.ex(e.args[0])
                if ty != STR:
                    self.err(e, "argument is not a str")
                return B, f"({'encode_gen' if n == '_encode' else 'decode'} {t})", STR
            if n == "_should_flatten_dict" and nargs == 1 and plain:
                B, t, ty = self.ex(e.args[0])
                if ty != OBJ:
                    self.err(e, "argument is not an object")
                return B, f"(should_flatten_gen (obj_keys {t}))", BOOL
            if n in ECLS:
                if n == "ListEntry" and nargs == 0 and plain:
                    return [], f"(mk_entry {ECLS[n]} [])", ENTRY
                if n != "ListEntry" and nargs == 0 and [k.arg for k in e.keywords] == ["keys"]:
                    B, t, ty = self.ex(e.keywords[0].value)
                    if ty != LIST(KEY):
                        self.err(e, "keys= is not a list of keys")
                    return B, f"(mk_entry {ECLS[n]} {t})", ENTRY
                self.err(e, "unsupported entry constructor call")
            if n in self.sigs:
                sig = self.sigs[n]
                if sig.mutates:
                    self.err(e, "a mutating function used as an expression")
                B, ts = [], []
                for a, pt in zip(self.callargs(e, sig), sig.ptypes):
                    Ba, t, ty = self.ex(a)
                    if not same(ty, pt):
                        self.err(a, f"argument type {ty}, expected {pt}")
                    B += Ba
                    ts.append(t)
                if sig.fuel and not self.sig.fuel:
                    self.err(e, "call of a recursive function from a function without fuel")
                if n == self.fn.name:
                    self.self_calls += 1
                x = self.tmp()
                return B + [(x, f"{sig.gname} {'fuel ' if sig.fuel else ''}{' '.join(ts)}")], x, sig.ret
        if isinstance(f, ast.Attribute):
            # dict.fromkeys(keys) / OrderedDict.fromkeys(keys)
            if f.attr == "fromkeys" and isinstance(f.value, ast.Name) and f.value.id in ("dict", "OrderedDict") \
                    and f.value.id not in self.env and nargs == 1 and plain:
                B, t, ty = self.ex(e.args[0])
                if ty != LIST(KEY):
                    self.err(e, "fromkeys of a non key list")
                return B, f"(cont_fromkeys {'true' if f.value.id == 'OrderedDict' else 'false'} (RVal py_none) {t})", CONT
            if f.attr == "chain" and self.builtin(f.value, "itertools") and nargs == 2 and plain:
                parts = []
                for a in e.args:
                    t, ty = self.pure(a)
                    if ty == LIST(PAIR(STR, OBJ)) and t.startswith("(sdict_items "):
                        t, ty = "(leaf_items " + t[len("(sdict_items "):], LIST(PAIR(STR, REF))
                    if ty != LIST(PAIR(STR, REF)):
                        self.err(a, "chain() of this is not modelled")
                    parts.append(t)
                return [], f"({parts[0]} ++ {parts[1]})", LIST(PAIR(STR, REF))
            if f.attr == "join" and isinstance(f.value, ast.Constant) and f.value.value == "/" and nargs == 1 and plain:
                B, t, ty = self.ex(e.args[0])
                if ty != LIST(STR):
                    self.err(e, "join of a non str list")
                return B, f"(join {t})", STR
            if f.attr == "split" and nargs == 1 and plain and isinstance(e.args[0], ast.Constant) and e.args[0].value == "/":
                B, t, ty = self.ex(f.value)
                if ty != STR:
                    self.err(e, "split of a non-str")
                return B, f"(split {t})", LIST(STR)
            if f.attr in ("keys", "items") and nargs == 0 and plain:
                B, t, ty = self.ex(f.value)
                if ty == OBJ:
                    return (B, f"(obj_keys {t})", LIST(KEY)) if f.attr == "keys" else (B, f"(obj_items {t})", LIST(PAIR(KEY, OBJ)))
                if ty == CONT and f.attr == "keys":
                    x = self.tmp()
                    return B + [(x, f"cont_keys {t}")], x, LIST(KEY)
                if f.attr == "items" and ty == HEAP:
                    return B, f"(heap_items {t})", LIST(PAIR(STR, REF))   # (path, the container object)
                if f.attr == "items" and ty == DDICT:
                    return B, f"(sdict_items {t})", LIST(PAIR(STR, SDICT(REF)))
                if f.attr == "items" and isinstance(ty, tuple) and ty[0] == "sdict" and ty[1] is not None:
                    return B, f"(sdict_items {t})", LIST(PAIR(STR, ty[1]))
        self.err(e, "unsupported call")

    def sorted_(self, e):
        B, items, ty = self.ex(e.args[0])
        lam = e.keywords[0].value
        if not (isinstance(ty, tuple) and ty[0] == "list" and isinstance(lam, ast.Lambda) and len(lam.args.args) == 1
                and not lam.args.defaults and not lam.args.vararg and not lam.args.kwarg):
            self.err(e, "unsupported sorted()")
        x = lam.args.args[0].arg
        saved = dict(self.env)
        self.env[x] = ty[1]
        Bk, k, tk = self.ex(lam.body)
        self.env = saved
        if tk == INT and not Bk:
            x2 = self.tmp()
            return B + [(x2, f"py_sorted_int (fun {self.v(x)} => Some {k}) {items}")], x2, ty
        if tk == INT and len(Bk) == 1 and Bk[0][0] == k:        # the whole key is one call that can raise: int(..)
            x2 = self.tmp()
            return B + [(x2, f"py_sorted_int (fun {self.v(x)} => {Bk[0][1]}) {items}")], x2, ty
        if tk == STR and not Bk:
            return B, f"(py_sorted_str (fun {self.v(x)} => {k}) {items})", ty
        self.err(e, "unsupported sort key")

    # ------------------------------------------------------------------ statements (continuation style)
    @staticmethod
    def binds(B, ind) -> str:
        return "".join(f"{ind}{n} <- {t} ;;\n" for n, t in B)

    def let_or_bind(self, name, B, t, ty, ind) -> str:
        """name = <expression>; when the expression is one call that can raise, bind the name directly"""
        self.env[name] = ty
        if B and B[-1][0] == t:
            return self.binds(B[:-1], ind) + f"{ind}{self.v(name)} <- {B[-1][1]} ;;\n"
        return self.binds(B, ind) + f"{ind}let {self.v(name)} := {t} in\n"

    def block(self, stmts, ind, cont) -> str:
        if not stmts:
            return cont(ind)
        s, rest = stmts[0], list(stmts[1:])
        if isinstance(s, ast.Expr) and isinstance(s.value, ast.Constant) and isinstance(s.value.value, str):
            return self.block(rest, ind, cont)                                  # docstring
        c = f"{ind}{_comment(s)}\n"

        def nxt():
            return self.block(rest, ind, cont)

        if isinstance(s, ast.Raise):
            return c + f"{ind}None"
        if isinstance(s, ast.Continue):
            if not self.loop_conts:
                self.err(s, "continue outside a loop")
            return c + self.loop_conts[-1](ind)
        if isinstance(s, ast.Return):
            if s.value is None:
                self.err(s, "bare return")
            if self.sig.heap_ret:
                B, t, ty = self.ex(s.value, want=REF)
                if ty == OBJ:
                    t = f"(RVal {t})"
                elif ty != REF:
                    self.err(s, "returns neither an object nor a container")
                heaps = [n for n, ty2 in self.env.items() if ty2 == HEAP]
                if len(heaps) > 1:
                    self.err(s, "more than one dict of containers")
                return c + self.binds(B, ind) + f"{ind}Some ({self.v(heaps[0]) if heaps else '[]'}, {t})"
            B, t, ty = self.ex(s.value, want=self.sig.ret)
            if not same(ty, self.sig.ret):
                self.err(s, f"returns {ty}, expected {self.sig.ret}")
            if B and B[-1][0] == t:                                              # tail call
                return c + self.binds(B[:-1], ind) + f"{ind}{B[-1][1]}"
            return c + self.binds(B, ind) + f"{ind}Some {t}"
        if isinstance(s, ast.If):
            B, t, ty = self.ex(s.test)
            if ty != BOOL:
                self.err(s.test, "condition is not a bool")
            saved = dict(self.env)
            a = self.block(list(s.body) + rest, ind + "  ", cont)
            self.env = dict(saved)
            b = self.block(list(s.orelse) + rest, ind + "  ", cont)
            self.env = saved
            return f"{ind}(* {s.lineno}: if {ast.unparse(s.test)[:80].replace(chr(34), chr(39))} *)\n" + self.binds(B, ind) + \
                f"{ind}if {t} then\n{a}\n{ind}else\n{b}"
        if isinstance(s, ast.For):
            return c + self.for_(s, ind, nxt)
        if isinstance(s, ast.Delete) and len(s.targets) == 1 and isinstance(s.targets[0], ast.Subscript) \
                and isinstance(s.targets[0].value, ast.Name):
            d = s.targets[0].value.id
            if self.env.get(d) != CONT:
                self.err(s, "del on this is not modelled")
            k, tk = self.pure(s.targets[0].slice)
            if tk != KEY:
                self.err(s, "del with a non-key")
            return c + f"{ind}{self.v(d)} <- cont_delitem {self.v(d)} {k} ;;\n" + nxt()
        if isinstance(s, (ast.Assign, ast.AnnAssign)):
            if isinstance(s, ast.Assign):
                if len(s.targets) != 1:
                    self.err(s, "chained assignment")
                target, value = s.targets[0], s.value
            else:
                target, value = s.target, s.value
                if value is None:
                    self.err(s, "annotation without a value")
            if isinstance(target, ast.Name):
                # x = l.pop()
                if (isinstance(value, ast.Call) and isinstance(value.func, ast.Attribute) and value.func.attr == "pop"
                        and isinstance(value.func.value, ast.Name) and not value.args and not value.keywords):
                    l = value.func.value.id
                    lt = self.env.get(l)
                    if not (isinstance(lt, tuple) and lt[0] == "list"):
                        self.err(s, "pop() on this is not modelled")
                    x = self.tmp()
                    self.env[target.id] = lt[1]
                    return c + (f"{ind}{x} <- py_pop {self.v(l)} ;;\n{ind}let {self.v(l)} := fst {x} in\n"
                                f"{ind}let {self.v(target.id)} := snd {x} in\n") + nxt()
                B, t, ty = self.ex(value)
                return c + self.let_or_bind(target.id, B, t, ty, ind) + nxt()
            if isinstance(target, ast.Tuple) and len(target.elts) == 2 and all(isinstance(x, ast.Name) for x in target.elts):
                B, t, ty = self.ex(value)
                if not (isinstance(ty, tuple) and ty[0] == "pair"):
                    self.err(s, "unpacking a non-pair")
                a, b = target.elts
                self.env[a.id], self.env[b.id] = ty[1], ty[2]
                return c + self.binds(B, ind) + f"{ind}let {self.v(a.id)} := fst {t} in\n{ind}let {self.v(b.id)} := snd {t} in\n" + nxt()
            if isinstance(target, ast.Subscript):
                return c + self.setitem(s, target, value, ind) + nxt()
            self.err(s, "unsupported assignment target")
        if isinstance(s, ast.Expr) and isinstance(s.value, ast.Call):
            e = s.value
            f = e.func
            if isinstance(f, ast.Attribute) and isinstance(f.value, ast.Name) and f.value.id in self.env \
                    and len(e.args) == 1 and not e.keywords:
                d, dt = f.value.id, self.env[f.value.id]
                if f.attr == "update" and isinstance(dt, tuple) and dt[0] == "sdict":
                    B, t, ty = self.ex(e.args[0])
                    if not same(ty, dt):
                        self.err(s, f"update of {dt} with {ty}")
                    if dt[1] is None:
                        self.env[d] = ty
                    return c + self.binds(B, ind) + f"{ind}let {self.v(d)} := sdict_update {self.v(d)} {t} in\n" + nxt()
                if f.attr == "extend" and dt == CONT:
                    B, t, ty = self.ex(e.args[0])
                    if ty != LIST(REF):
                        self.err(s, "extend with a non-list of objects")
                    return c + self.binds(B, ind) + f"{ind}{self.v(d)} <- cont_extend {self.v(d)} {t} ;;\n" + nxt()
            if isinstance(f, ast.Name) and f.id in self.sigs and self.sigs[f.id].mutates and f.id not in self.env:
                return c + self.mutating_call(s, e, self.sigs[f.id], ind) + nxt()
        self.err(s, "unsupported statement")

    def setitem(self, s, target, value, ind) -> str:
        base = target.value
        if isinstance(base, ast.Name) and base.id in self.env:
            d, dt = base.id, self.env[base.id]
            if isinstance(dt, tuple) and dt[0] == "sdict":
                k, tk = self.pure(target.slice)
                if tk != STR:
                    self.err(s, "non-str key")
                B, t, ty = self.ex(value, want=dt[1])
                if dt[1] is not None and not same(ty, dt[1]):
                    self.err(s, f"stores {ty} in a dict of {dt[1]}")
                self.env[d] = SDICT(ty)
                return self.binds(B, ind) + f"{ind}let {self.v(d)} := sdict_set {k} {t} {self.v(d)} in\n"
            if dt == CONT:
                k, tk = self.pure(target.slice)
                if tk != KEY:
                    self.err(s, "container item with a non-key")
                B, t, ty = self.ex(value)
                if ty != REF:
                    self.err(s, "stores a non-object in a container")
                return self.binds(B, ind) + f"{ind}{self.v(d)} <- cont_setitem {self.v(d)} {k} {t} ;;\n"
        if isinstance(base, ast.Subscript) and isinstance(base.value, ast.Name) and self.env.get(base.value.id) == DDICT:
            d = base.value.id
            k1, t1 = self.pure(base.slice)
            k2, t2 = self.pure(target.slice)
            val, tv = self.pure(value)
            if (t1, t2, tv) != (STR, STR, REF):
                self.err(s, "unsupported defaultdict store")
            return f"{ind}let {self.v(d)} := ddict_set2 {k1} {k2} {val} {self.v(d)} in\n"
        self.err(s, "unsupported item assignment")

    def mutating_call(self, s, e, sig: Sig, ind) -> str:
        """f(.., p=h[k], ..) where f mutates its parameter p in place: the heap cell h[k] is rewritten"""
        if len(sig.mutates) != 1:
            self.err(s, "function mutating several parameters")
        B, ts, cell = [], [], None
        for a, p, pt in zip(self.callargs(e, sig), sig.params, sig.ptypes):
            if p in sig.mutates:
                if not (isinstance(a, ast.Subscript) and isinstance(a.value, ast.Name) and self.env.get(a.value.id) == HEAP):
                    self.err(a, "the mutated argument is not a cell of the dict of containers")
                k, tk = self.pure(a.slice)
                if tk != STR:
                    self.err(a, "non-str key")
                x = self.tmp()
                B.append((x, f"sdict_get {k} {self.v(a.value.id)}"))
                ts.append(x)
                cell = (a.value.id, k)
            else:
                Ba, t, ty = self.ex(a)
                if not same(ty, pt):
                    self.err(a, f"argument type {ty}, expected {pt}")
                B += Ba
                ts.append(t)
        x = self.tmp()
        B.append((x, f"{sig.gname} {' '.join(ts)}"))
        h, k = cell
        return self.binds(B, ind) + f"{ind}let {self.v(h)} := sdict_set {k} {x} {self.v(h)} in\n"

    def for_(self, s: ast.For, ind, nxt) -> str:
        if s.orelse:
            self.err(s, "for/else")
        B, items, ity = self.ex(s.iter)
        if not (isinstance(ity, tuple) and ity[0] == "list"):
            self.err(s.iter, "loop over a non-list")
        before = dict(self.env)
        touched = assigned(s.body, self.sigs)
        state = [n for n in before if n in touched]
        if not state:
            self.err(s, "loop without an effect on the variables defined before it")
        d = len(self.loop_conts)
        st, it = (f"st{d}" if d else "st"), (f"it{d}" if d else "it")
        vs = [self.v(n) for n in state]
        pack = vs[0] if len(vs) == 1 else "(" + ", ".join(vs) + ")"

        def proj(i, n, src):
            if n == 1:
                return src
            inner = src
            for _ in range(n - 1 - i if i > 0 else n - 1):
                inner = f"(fst {inner})"
            return f"snd {inner}" if i > 0 else inner[1:-1]

        ind2 = ind + "    "
        head = "".join(f"{ind2}let {x} := {proj(i, len(vs), st)} in\n" for i, x in enumerate(vs))
        tl = self.bind_target(s.target, ity[1], it)
        head += "".join(f"{ind2}{l.strip()}\n" for l in tl.replace(" in ", " in\n").splitlines() if l.strip())
        final = {}

        def body_cont(i2):
            for n in state:
                if before[n] != self.env.get(n) and n not in final:
                    final[n] = self.env.get(n)
            return f"{i2}Some {pack}"

        self.loop_conts.append(body_cont)
        body = self.block(list(s.body), ind2, body_cont)
        self.loop_conts.pop()
        self.env = before
        for n, t in final.items():
            if not same(t, before[n]):
                self.err(s, f"the loop changes the type of {n}")
            self.env[n] = t
        out = self.binds(B, ind)
        if len(vs) == 1:
            out += f"{ind}{vs[0]} <- py_for {items} {vs[0]} (fun {st} {it} =>\n{head}{body}) ;;\n"
        else:
            out += f"{ind}{st} <- py_for {items} {pack} (fun {st} {it} =>\n{head}{body}) ;;\n"
            out += "".join(f"{ind}let {x} := {proj(i, len(vs), st)} in\n" for i, x in enumerate(vs))
        return out + nxt()

    # ------------------------------------------------------------------ the definition
    def emit(self) -> str:
        sig = self.sig
        body_stmts = _strip_doc(self.fn.body)
        touched = assigned(body_stmts, self.sigs)
        # parameters mutated in place (not merely rebound): the caller sees the change
        muts = []
        for n in ast.walk(self.fn):
            if isinstance(n, ast.Call) and isinstance(n.func, ast.Attribute) and n.func.attr in MUTATORS \
                    and isinstance(n.func.value, ast.Name) and n.func.value.id in self.params:
                muts.append(n.func.value.id)
            if isinstance(n, (ast.Assign, ast.Delete)):
                for t in n.targets:
                    if isinstance(t, ast.Subscript) and _base_name(t) in self.params:
                        muts.append(_base_name(t))
        sig.mutates = [p for p in self.params if p in muts]
        for p in sig.mutates:
            if self.env[p] != CONT:
                raise TranslateError(self.where, f"parameter {p} is mutated in place; only containers are modelled as mutable")
        returns = [n for n in ast.walk(self.fn) if isinstance(n, ast.Return) and n.value is not None]
        if sig.mutates and returns:
            raise TranslateError(self.where, "a function that mutates its parameter and returns a value")

        def end(ind):
            if sig.mutates:
                return f"{ind}Some {self.v(sig.mutates[0])}"
            raise TranslateError(self.where, "control reaches the end of the function without return / raise")

        body = self.block(body_stmts, "    " if sig.fuel and sig.py == "_flatten" else "  ", end)
        ps = " ".join(f"({self.v(n)} : {coqty(t)})" for n, t in zip(self.params, sig.ptypes))
        ret = "heap * ref" if sig.heap_ret else coqty(sig.ret)
        head = f"(* flatten.py:{self.fn.lineno}  def {self.fn.name}({', '.join(self.params)}) *)\n"
        if sig.py == "_flatten":
            if self.self_calls == 0:
                raise TranslateError(self.where, "_flatten no longer calls itself")
            return (head + f"Fixpoint {sig.gname} (fuel : nat) {ps} {{struct fuel}} : option ({ret}) :=\n"
                    f"  match fuel with\n  | O => None\n  | S fuel =>\n{body}\n  end.\n")
        if self.self_calls:
            raise TranslateError(self.where, "unexpected recursion")
        return head + f"Definition {sig.gname} {'(fuel : nat) ' if sig.fuel else ''}{ps} : option ({ret}) :=\n{body}.\n"


def _check_module(tree: ast.Module):
    """the global names the translation relies on mean what it thinks"""
    expected_imports = {
        ("", "itertools"), ("collections", "defaultdict"), ("collections", "OrderedDict"), ("urllib.parse", "unquote"),
        ("manifest", "DictEntry"), ("manifest", "ListEntry"), ("manifest", "OrderedDictEntry")}
    found = set()
    for n in tree.body:
        if isinstance(n, ast.Import):
            for a in n.names:
                if a.asname is not None:
                    raise TranslateError("imports", f"import {a.name} as {a.asname}")
                found.add(("", a.name))
        elif isinstance(n, ast.ImportFrom):
            for a in n.names:
                if a.asname is not None:
                    raise TranslateError("imports", f"from {n.module} import {a.name} as {a.asname}")
                found.add((n.module or "", a.name))
        elif isinstance(n, ast.FunctionDef):
            if n.decorator_list:
                raise TranslateError(n.name, "decorated function")
        elif isinstance(n, ast.Expr) and isinstance(n.value, ast.Constant):
            pass
        else:
            raise TranslateError("module", f"unexpected top-level statement at line {n.lineno}: {ast.unparse(n)[:80]}")
    missing = expected_imports - found
    if missing:
        raise TranslateError("imports", f"missing {sorted(missing)}")
    shadow = {"list", "dict", "str", "int", "len", "type", "isinstance", "sorted", "enumerate"}
    names = {a for _, a in found} | {n.name for n in tree.body if isinstance(n, ast.FunctionDef)}
    if names & shadow:
        raise TranslateError("module", f"builtin shadowed: {sorted(names & shadow)}")


def _check_entry_classes():
    """ListEntry / DictEntry / OrderedDictEntry derive from Entry directly: isinstance among them is class equality"""
    mpath = os.path.join(REPO, "torchsnapshot", "manifest.py")
    mtree = ast.parse(open(mpath).read())
    classes = {n.name: n for n in mtree.body if isinstance(n, ast.ClassDef)}
    for c in ECLS:
        if c not in classes:
            raise TranslateError("manifest.py", f"class {c} not found")
        bases = [ast.unparse(b) for b in classes[c].bases]
        if bases != ["Entry"]:
            raise TranslateError("manifest.py", f"class {c} has bases {bases}; isinstance is modelled as class equality")
    for c, n in classes.items():
        if c not in ECLS and any(ast.unparse(b) in ECLS for b in n.bases):
            raise TranslateError("manifest.py", f"class {c} derives from a container entry class")


REC_ORDER = ["_flatten", "flatten", "_entry_to_container", "_populate_container", "inflate"]


def generate_rec() -> dict:
    path = os.path.join(REPO, "torchsnapshot", "flatten.py")
    tree = ast.parse(open(path).read())
    fns = {n.name: n for n in tree.body if isinstance(n, ast.FunctionDef)}
    _check_module(tree)
    _check_entry_classes()
    _check_decode(fns["_decode"], tree)
    flat_ret = PAIR(SDICT(ENTRY), SDICT(OBJ))
    sigs = {
        "_flatten": Sig("_flatten", "flatten_gen", [OBJ, STR], flat_ret, fuel=True),
        "flatten": Sig("flatten", "flatten_top_gen", [OBJ, STR], flat_ret, fuel=True),
        "_entry_to_container": Sig("_entry_to_container", "entry_to_container_gen", [ENTRY], CONT),
        "_populate_container": Sig("_populate_container", "populate_container_gen", [STR, CONT, SDICT(REF)], CONT),
        "inflate": Sig("inflate", "inflate_gen", [SDICT(ENTRY), SDICT(OBJ), STR], REF, heap_ret=True),
    }
    for name in REC_ORDER:
        if name not in fns:
            raise TranslateError(name, "function not found in flatten.py")
        sigs[name].params = [a.arg for a in fns[name].args.args]
    out = []
    for name in REC_ORDER:
        out.append(FnTr(fns[name], sigs[name], sigs).emit())
    if sigs["_populate_container"].mutates != [sigs["_populate_container"].params[1]]:
        raise TranslateError("_populate_container", "expected exactly the container parameter to be mutated in place")
    text = ("(* generated by translator/gen_flatten.py (generate_rec) from torchsnapshot/flatten.py on every run - do not edit.\n"
            "   Statement-by-statement translation; the number in each comment is the source line.  Vocabulary:\n"
            "   model/FlattenPy.v (Python dicts, types, containers, references), model/Flatten.v (str/int/unquote). *)\n"
            "From TS Require Import model.Base model.Flatten model.FlattenPy gen.FlattenGen.\n\n" + "\n".join(out))
    return {"FlattenRecGen": text}
