"""Small fail-closed helpers shared by the Python-ast -> Gallina translators."""
from __future__ import annotations

import ast
import os

from lib.core import REPO


class TranslateError(Exception):
    def __init__(self, where: str, msg: str):
        super().__init__(f"{where}: {msg}")
        self.where = where


def parse(relpath: str) -> ast.Module:
    path = os.path.join(REPO, relpath)
    return ast.parse(open(path).read(), filename=path)


def find_func(node: ast.AST, name: str, where: str = "") -> ast.FunctionDef:
    """First (async) function called `name` directly inside `node`'s body (searching classes one level)."""
    for n in ast.walk(node):
        if isinstance(n, (ast.FunctionDef, ast.AsyncFunctionDef)) and n.name == name:
            return n
    raise TranslateError(where or name, f"function {name} not found")


def find_class(mod: ast.Module, name: str) -> ast.ClassDef:
    for n in mod.body:
        if isinstance(n, ast.ClassDef) and n.name == name:
            return n
    raise TranslateError(name, "class not found")


def only(nodes, where: str, what: str):
    nodes = list(nodes)
    if len(nodes) != 1:
        raise TranslateError(where, f"expected exactly one {what}, found {len(nodes)}")
    return nodes[0]


def src(node: ast.AST) -> str:
    return ast.unparse(node)


class Expr:
    """Translate integer/boolean Python expressions to Gallina (Z / bool), given a naming of the leaves.

    leaf(node) must return a Gallina identifier for the leaves it recognises (Name, Attribute, Call) or None."""

    def __init__(self, leaf, where: str):
        self.leaf = leaf
        self.where = where
        self.vars: list[str] = []

    def _var(self, v: str) -> str:
        if v not in self.vars:
            self.vars.append(v)
        return v

    def z(self, e: ast.AST) -> str:
        v = self.leaf(e)
        if v is not None:
            return self._var(v)
        if isinstance(e, ast.Constant) and isinstance(e.value, int) and not isinstance(e.value, bool):
            return f"({e.value})" if e.value < 0 else str(e.value)
        if isinstance(e, ast.BinOp):
            a, b = self.z(e.left), self.z(e.right)
            if isinstance(e.op, ast.Add):
                return f"({a} + {b})"
            if isinstance(e.op, ast.Sub):
                return f"({a} - {b})"
            if isinstance(e.op, ast.Mult):
                return f"({a} * {b})"
            if isinstance(e.op, ast.FloorDiv):
                return f"({a} / {b})"
        if isinstance(e, ast.Call) and isinstance(e.func, ast.Name) and e.func.id in ("min", "max") and len(e.args) == 2 and not e.keywords:
            f = "Z.min" if e.func.id == "min" else "Z.max"
            return f"({f} {self.z(e.args[0])} {self.z(e.args[1])})"
        if isinstance(e, ast.Call) and isinstance(e.func, ast.Name) and e.func.id == "cast" and len(e.args) == 2:
            return self.z(e.args[1])
        raise TranslateError(self.where, f"unsupported integer expression: {src(e)}")

    def b(self, e: ast.AST) -> str:
        if isinstance(e, ast.BoolOp):
            op = " || " if isinstance(e.op, ast.Or) else " && "
            return "(" + op.join(self.b(v) for v in e.values) + ")"
        if isinstance(e, ast.UnaryOp) and isinstance(e.op, ast.Not):
            return f"(negb {self.b(e.operand)})"
        if isinstance(e, ast.Compare) and len(e.ops) == 1:
            a, c = self.z(e.left), self.z(e.comparators[0])
            op = e.ops[0]
            table = {ast.Eq: "=?", ast.Lt: "<?", ast.LtE: "<=?", ast.Gt: ">?", ast.GtE: ">=?"}
            for k, s in table.items():
                if isinstance(op, k):
                    return f"({a} {s} {c})"
            if isinstance(op, ast.NotEq):
                return f"(negb ({a} =? {c}))"
        if isinstance(e, ast.Constant) and isinstance(e.value, bool):
            return "true" if e.value else "false"
        raise TranslateError(self.where, f"unsupported boolean expression: {src(e)}")


def definition(name: str, params: list[str], ty: str, body: str, comment: str = "") -> str:
    ps = " ".join(f"({p} : Z)" for p in params)
    c = f"(* {comment} *)\n" if comment else ""
    return f"{c}Definition {name} {ps} : {ty} :=\n  {body}.\n"
