"""Small fail-closed helpers shared by the Python-ast -> Gallina translators."""
from __future__ import annotations

import ast
import os

from lib.core import REPO


class TranslateError(Exception):
    def __init__(self, where: str, msg: str):
        super().__init__(f"{where}: {msg}")
        self.where = where


_LOG_LEVELS = {"debug", "info", "warning", "warn", "error", "exception", "critical", "log"}


def _pure_arg(e: ast.AST) -> bool:
    """an argument of a logging call that cannot have a side effect: constants, names, attributes, subscripts, f-strings
    and %-formatting of those, and the calls str()/repr()/len()/type() of those"""
    if isinstance(e, (ast.Constant, ast.Name)):
        return True
    if isinstance(e, ast.Attribute):
        return _pure_arg(e.value)
    if isinstance(e, ast.Subscript):
        return _pure_arg(e.value) and _pure_arg(e.slice)
    if isinstance(e, ast.JoinedStr):
        return all(_pure_arg(v) for v in e.values)
    if isinstance(e, ast.FormattedValue):
        return _pure_arg(e.value) and (e.format_spec is None or _pure_arg(e.format_spec))
    if isinstance(e, (ast.Tuple, ast.List)):
        return all(_pure_arg(v) for v in e.elts)
    if isinstance(e, ast.BinOp) and isinstance(e.op, (ast.Mod, ast.Add)):
        return _pure_arg(e.left) and _pure_arg(e.right)
    if isinstance(e, ast.Call) and isinstance(e.func, ast.Name) and e.func.id in ("str", "repr", "len", "type") and not e.keywords:
        return all(_pure_arg(a) for a in e.args)
    return False


def is_observer(st: ast.stmt) -> bool:
    """statements that cannot change what the translated code computes: docstrings / bare string constants, `pass`
    next to other statements, and logger.<level>(...) calls whose arguments are side-effect free"""
    if isinstance(st, ast.Expr) and isinstance(st.value, ast.Constant) and isinstance(st.value.value, str):
        return True
    if isinstance(st, ast.Expr) and isinstance(st.value, ast.Call):
        f = st.value.func
        if (isinstance(f, ast.Attribute) and f.attr in _LOG_LEVELS and isinstance(f.value, ast.Name) and f.value.id in ("logger", "logging")
                and all(_pure_arg(a) for a in st.value.args) and all(_pure_arg(k.value) for k in st.value.keywords)):
            return True
    return False


class _Strip(ast.NodeTransformer):
    def _body(self, body):
        out = [s for s in body if not is_observer(s)]
        if len(out) > 1:
            out = [s for s in out if not isinstance(s, ast.Pass)] or [ast.Pass()]
        return out or [ast.Pass()]

    def generic_visit(self, node):
        super().generic_visit(node)
        for field in ("body", "orelse", "finalbody"):
            b = getattr(node, field, None)
            if isinstance(b, list) and b and isinstance(b[0], ast.stmt):
                nb = [s for s in b if not is_observer(s)]
                if field == "body":
                    nb = self._body(b)
                setattr(node, field, nb)
        return node


def normalise(tree: ast.AST) -> ast.AST:
    """drop observer statements (see is_observer) everywhere, so that adding a log line or editing a docstring in a
    translated function does not change the translation"""
    return ast.fix_missing_locations(_Strip().visit(tree))


def parse(relpath: str) -> ast.Module:
    path = os.path.join(REPO, relpath)
    return normalise(ast.parse(open(path).read(), filename=path))


def find_func(node: ast.AST, name: str, where: str = "") -> ast.FunctionDef:
    """First (async) function called `name` directly inside `node`'s body (searching classes one level)."""
    for n in ast.walk(node):
        if isinstance(n, (ast.FunctionDef, ast.AsyncFunctionDef)) and n.name == name:
            return n
    raise TranslateError(where or name, f"function {name} not found")


def find_class(mod: ast.Module, name: str) -> ast.ClassDef:
    for n in mod.body:
        if isinstance(n, ast.ClassDef) and n.name == name:
            return n
    raise TranslateError(name, "class not found")


def only(nodes, where: str, what: str):
    nodes = list(nodes)
    if len(nodes) != 1:
        raise TranslateError(where, f"expected exactly one {what}, found {len(nodes)}")
    return nodes[0]


def src(node: ast.AST) -> str:
    return ast.unparse(node)


class Expr:
    """Translate integer/boolean Python expressions to Gallina (Z / bool), given a naming of the leaves.

    leaf(node) must return a Gallina identifier for the leaves it recognises (Name, Attribute, Call) or None."""

    def __init__(self, leaf, where: str):
        self.leaf = leaf
        self.where = where
        self.vars: list[str] = []

    def _var(self, v: str) -> str:
        if v not in self.vars:
            self.vars.append(v)
        return v

    def z(self, e: ast.AST) -> str:
        v = self.leaf(e)
        if v is not None:
            return self._var(v)
        if isinstance(e, ast.Constant) and isinstance(e.value, int) and not isinstance(e.value, bool):
            return f"({e.value})" if e.value < 0 else str(e.value)
        if isinstance(e, ast.BinOp):
            a, b = self.z(e.left), self.z(e.right)
            if isinstance(e.op, ast.Add):
                return f"({a} + {b})"
            if isinstance(e.op, ast.Sub):
                return f"({a} - {b})"
            if isinstance(e.op, ast.Mult):
                return f"({a} * {b})"
            if isinstance(e.op, ast.FloorDiv):
                return f"({a} / {b})"
        if isinstance(e, ast.Call) and isinstance(e.func, ast.Name) and e.func.id in ("min", "max") and len(e.args) == 2 and not e.keywords:
            f = "Z.min" if e.func.id == "min" else "Z.max"
            return f"({f} {self.z(e.args[0])} {self.z(e.args[1])})"
        if isinstance(e, ast.Call) and isinstance(e.func, ast.Name) and e.func.id == "cast" and len(e.args) == 2:
            return self.z(e.args[1])
        raise TranslateError(self.where, f"unsupported integer expression: {src(e)}")

    def b(self, e: ast.AST) -> str:
        if isinstance(e, ast.BoolOp):
            op = " || " if isinstance(e.op, ast.Or) else " && "
            return "(" + op.join(self.b(v) for v in e.values) + ")"
        if isinstance(e, ast.UnaryOp) and isinstance(e.op, ast.Not):
            return f"(negb {self.b(e.operand)})"
        if isinstance(e, ast.Compare) and len(e.ops) == 1:
            a, c = self.z(e.left), self.z(e.comparators[0])
            op = e.ops[0]
            table = {ast.Eq: "=?", ast.Lt: "<?", ast.LtE: "<=?", ast.Gt: ">?", ast.GtE: ">=?"}
            for k, s in table.items():
                if isinstance(op, k):
                    return f"({a} {s} {c})"
            if isinstance(op, ast.NotEq):
                return f"(negb ({a} =? {c}))"
        if isinstance(e, ast.Constant) and isinstance(e.value, bool):
            return "true" if e.value else "false"
        raise TranslateError(self.where, f"unsupported boolean expression: {src(e)}")


def definition(name: str, params: list[str], ty: str, body: str, comment: str = "") -> str:
    ps = " ".join(f"({p} : Z)" for p in params)
    c = f"(* {comment} *)\n" if comment else ""
    return f"{c}Definition {name} {ps} : {ty} :=\n  {body}.\n"
