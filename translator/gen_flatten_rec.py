"""Registers the second output of translator/gen_flatten.py (gen/FlattenRecGen.v: _flatten, flatten, inflate,
_entry_to_container, _populate_container translated statement by statement) as a translator of its own, so that the
properties that only import gen/FlattenGen.v (_encode, _should_flatten_dict) are not affected when the recursive
functions change.  All the code is in gen_flatten.py."""
from __future__ import annotations

import importlib

from translator import gen_flatten

OUTPUTS = ["FlattenRecGen"]


def generate() -> dict:
    importlib.reload(gen_flatten)
    return gen_flatten.generate_rec()
