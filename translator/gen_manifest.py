"""T-manifest (C14): Python ast -> Gallina for torchsnapshot/manifest.py.

Fail closed: every top-level statement, class member and statement of a translated method must be of a recognised
form; anything else raises TranslateError (reported by the driver as the broken obligation
`translate:gen_manifest:<where>`).

What is generated (coq/gen/ManifestGen.v; the data types and their interpreter are in coq/model/PyManifest.v):

  g_primitive_types : list (pystr * pystr)      class PrimitiveType(Enum): member name -> value, source order
  g_supported_types : list pystr                PrimitiveEntry.supported_types = [t.value for t in PrimitiveType]
  g_class_<C> : pyclass, g_classes              every @dataclass: base class, own annotated fields in source order (ClassVar
                                                excluded), the explicit __init__ (parameters with defaults, the
                                                super().__init__(type=..) call that writes the `type` tag, the self.f = p
                                                assignments) or None for the dataclass-generated one, the from_yaml_obj
                                                classmethod statement by statement (None: inherited)
  g_from_yaml_def : from_yaml_def               SnapshotMetadata.from_yaml: loader order (json.loads, yaml.load on ValueError),
                                                the key iterated, the key tested, the if/elif chain (test -> class) in source
                                                order, what happens when no test matches, the key assigned, the class built
  g_dumps_opts : dumps_opts                     the keyword arguments of the json.dumps call in SnapshotMetadata.to_yaml
                                                (defaults of json.dumps filled in); its positional argument must be asdict(self)
  g_get_value_chain : list (pystr * decoder)    PrimitiveEntry.get_value: type name -> expression form
  g_serialize_chain : list (pystr * encoder)    PrimitiveEntry._serialize
  g_from_object_def : from_object_def           PrimitiveEntry.from_object
  g_byte_range_idx : nat * nat                  TensorEntry.byte_range_tuple: (byte_range[i], byte_range[j])

Not translated (explicitly skipped, by name): ShardedTensorEntry.get_tensor_shape (not part of the serialization).
manifest.py holds no key-escaping helper (those are flatten.py's, property C15).
"""
from __future__ import annotations

import ast

from translator.pyast import TranslateError, parse, src

OUTPUTS = ["ManifestGen"]
PATH = "torchsnapshot/manifest.py"

EXPECTED_IMPORTS = {"json": "json", "base64": "base64", "struct": "struct", "yaml": "yaml", "asdict": "dataclasses.asdict",
                    "dataclass": "dataclasses.dataclass", "Enum": "enum.Enum"}
SKIPPED_METHODS = {("ShardedTensorEntry", "get_tensor_shape")}
JSON_DUMPS_DEFAULTS = {"skipkeys": False, "ensure_ascii": True, "check_circular": True, "allow_nan": True, "cls": None,
                       "indent": None, "separators": None, "default": None, "sort_keys": False}


# ----------------------------------------------------------------------------- printing
def cm(s: str) -> str:
    return "(* " + s.replace("*)", "* )").replace("(*", "( *") + " *)"


def pystr(s: str) -> str:
    return "[" + "; ".join(str(ord(c)) for c in s) + "]"


def pstr_c(s: str) -> str:
    """a string literal with its text as a comment"""
    safe = "".join(c if 32 <= ord(c) < 127 else "?" for c in s)
    return f"{pystr(s)} {cm(repr(safe))}"


def coq_list(items: list[str], ind: str = "  ") -> str:
    if not items:
        return "[]"
    return "[\n" + ";\n".join(ind + "  " + i for i in items) + "\n" + ind + "]"


def coq_bool(b: bool) -> str:
    return "true" if b else "false"


def jconst(e: ast.AST, where: str) -> str:
    """a literal -> jvalue"""
    if isinstance(e, ast.Constant):
        v = e.value
        if v is None:
            return "JNull"
        if isinstance(v, bool):
            return f"(JBool {coq_bool(v)})"
        if isinstance(v, int):
            return f"(JInt ({v}))"
        if isinstance(v, str):
            return f"(JStr {pystr(v)})"
    raise TranslateError(where, f"unsupported literal {src(e)}")


# ----------------------------------------------------------------------------- small recognisers
def strip_doc(body: list[ast.stmt]) -> list[ast.stmt]:
    if body and isinstance(body[0], ast.Expr) and isinstance(body[0].value, ast.Constant) and isinstance(body[0].value.value, str):
        return body[1:]
    return body


def const_str(e: ast.AST, where: str) -> str:
    if isinstance(e, ast.Constant) and isinstance(e.value, str):
        return e.value
    raise TranslateError(where, f"expected a string literal, found {src(e)}")


def is_name(e: ast.AST, name: str) -> bool:
    return isinstance(e, ast.Name) and e.id == name


def is_raise(st: ast.stmt) -> bool:
    return isinstance(st, ast.Raise) and st.exc is not None


def subscript_key(e: ast.AST, var: str, where: str) -> str:
    """`var["k"]` -> k"""
    if isinstance(e, ast.Subscript) and is_name(e.value, var):
        return const_str(e.slice, where)
    raise TranslateError(where, f"expected {var}[<str literal>], found {src(e)}")


def plain_args(fn: ast.FunctionDef, where: str) -> list[str]:
    a = fn.args
    if a.posonlyargs or a.vararg or a.kwarg or a.kwonlyargs or a.kw_defaults:
        raise TranslateError(where, "unsupported parameter kinds (*args / **kwargs / keyword-only / positional-only)")
    return [x.arg for x in a.args]


def decorators(fn) -> list[str]:
    return [src(d) for d in fn.decorator_list]


def if_chain(stmts: list[ast.stmt], where: str):
    """`if a: A elif b: B ... [else: E]` followed by at most one statement -> ([(test, body)], tail statements)
    where the tail is the else-body or the statements after the if"""
    if not stmts or not isinstance(stmts[0], ast.If):
        raise TranslateError(where, "expected an if / elif chain")
    arms = []
    node = stmts[0]
    while True:
        arms.append((node.test, node.body))
        if len(node.orelse) == 1 and isinstance(node.orelse[0], ast.If):
            node = node.orelse[0]
            continue
        tail = list(node.orelse)
        break
    after = stmts[1:]
    if tail and after:
        raise TranslateError(where, "statements after an if chain that has an else")
    return arms, (tail or after)


# ----------------------------------------------------------------------------- the module
class Module:
    def __init__(self):
        self.mod = parse(PATH)
        self.classes: dict[str, ast.ClassDef] = {}
        self.order: list[str] = []
        self.enum: list[tuple[str, str]] | None = None
        self.enum_name = None
        self.supported_owner = None          # class holding `supported_types`
        self.out: list[str] = []
        self.class_defs: dict[str, dict] = {}

    # ---- top level
    def scan(self):
        bound: dict[str, str] = {}
        for st in self.mod.body:
            where = f"manifest.py:{st.lineno}"
            if isinstance(st, ast.Expr) and isinstance(st.value, ast.Constant) and isinstance(st.value.value, str):
                continue
            if isinstance(st, ast.Import):
                for a in st.names:
                    bound[a.asname or a.name.split(".")[0]] = a.name
                continue
            if isinstance(st, ast.ImportFrom):
                if st.level:
                    raise TranslateError(where, "relative import")
                for a in st.names:
                    bound[a.asname or a.name] = f"{st.module}.{a.name}"
                continue
            if isinstance(st, ast.Try):
                # try: from yaml import CSafeLoader as Loader / except ImportError: from yaml import SafeLoader as Loader
                ok = (len(st.body) == 1 and isinstance(st.body[0], ast.ImportFrom) and st.body[0].module == "yaml"
                      and [a.asname for a in st.body[0].names] == ["Loader"] and len(st.handlers) == 1
                      and src(st.handlers[0].type) == "ImportError" and len(st.handlers[0].body) == 1
                      and isinstance(st.handlers[0].body[0], ast.ImportFrom) and st.handlers[0].body[0].module == "yaml"
                      and [a.asname for a in st.handlers[0].body[0].names] == ["Loader"] and not st.orelse and not st.finalbody)
                if not ok:
                    raise TranslateError(where, "unsupported top-level try statement")
                bound["Loader"] = "yaml.<Loader>"
                continue
            if isinstance(st, ast.AnnAssign) and is_name(st.target, "logger"):
                continue
            if isinstance(st, ast.Assign) and len(st.targets) == 1 and isinstance(st.targets[0], ast.Name):
                # type aliases only: NestedList = Union[..], T = TypeVar(..), Manifest = Dict[str, T]
                v = st.value
                if (isinstance(v, ast.Subscript) and isinstance(v.value, ast.Name) and v.value.id in ("Union", "Dict", "List", "Optional")) \
                        or (isinstance(v, ast.Call) and is_name(v.func, "TypeVar")):
                    if st.targets[0].id in EXPECTED_IMPORTS or st.targets[0].id in self.classes:
                        raise TranslateError(where, f"{st.targets[0].id} is rebound")
                    continue
                raise TranslateError(where, f"unsupported top-level assignment: {src(st)[:100]}")
            if isinstance(st, ast.ClassDef):
                if st.name in self.classes or st.name in EXPECTED_IMPORTS:
                    raise TranslateError(where, f"class {st.name} defined twice / shadows an import")
                self.classes[st.name] = st
                self.order.append(st.name)
                continue
            raise TranslateError(where, f"unsupported top-level statement: {src(st)[:100]}")
        for name, origin in EXPECTED_IMPORTS.items():
            if bound.get(name) != origin:
                raise TranslateError("manifest.py imports", f"`{name}` is bound to {bound.get(name)!r}, expected {origin!r}")
        # none of the names the translation relies on is rebound anywhere in the module
        for n in ast.walk(self.mod):
            if isinstance(n, ast.Name) and isinstance(n.ctx, (ast.Store, ast.Del)) and (n.id in EXPECTED_IMPORTS or n.id in self.classes):
                raise TranslateError(f"manifest.py:{n.lineno}", f"`{n.id}` is rebound")
            if isinstance(n, (ast.Global, ast.Nonlocal)):
                raise TranslateError(f"manifest.py:{n.lineno}", "global / nonlocal declaration")
            if isinstance(n, (ast.FunctionDef, ast.AsyncFunctionDef)) and (n.name in EXPECTED_IMPORTS or n.name in self.classes):
                raise TranslateError(f"manifest.py:{n.lineno}", f"function named {n.name}")

    # ---- the Enum
    def do_enum(self, c: ast.ClassDef):
        where = c.name
        if [src(b) for b in c.bases] != ["Enum"] or c.keywords or c.decorator_list:
            raise TranslateError(where, "expected `class PrimitiveType(Enum)` without decorators")
        out = []
        for st in strip_doc(c.body):
            if (isinstance(st, ast.Assign) and len(st.targets) == 1 and isinstance(st.targets[0], ast.Name)
                    and isinstance(st.value, ast.Constant) and isinstance(st.value.value, str)):
                out.append((st.targets[0].id, st.value.value))
            else:
                raise TranslateError(where, f"unsupported enum body statement: {src(st)[:80]}")
        if len({n for n, _ in out}) != len(out) or len({v for _, v in out}) != len(out):
            raise TranslateError(where, "duplicate member name or value (aliases)")
        self.enum, self.enum_name = out, c.name

    # ---- a dataclass
    def do_class(self, c: ast.ClassDef):
        where = c.name
        if decorators(c) != ["dataclass"]:
            raise TranslateError(where, f"expected exactly the decorator @dataclass, found {decorators(c)}")
        if c.keywords:
            raise TranslateError(where, "class keywords")
        base = None
        if c.bases:
            if len(c.bases) != 1 or not isinstance(c.bases[0], ast.Name) or c.bases[0].id not in self.class_defs:
                raise TranslateError(where, f"unsupported bases {[src(b) for b in c.bases]} (one previously defined dataclass expected)")
            base = c.bases[0].id
        info = {"name": c.name, "base": base, "fields": [], "ann": {}, "init": None, "fyo": None, "node": c}
        inherited = self.all_fields(base) if base else []
        methods = {}
        for st in strip_doc(c.body):
            w = f"{where}:{st.lineno}"
            if isinstance(st, ast.AnnAssign) and isinstance(st.target, ast.Name):
                ann = src(st.annotation)
                if ann.startswith("ClassVar["):
                    if st.target.id != "supported_types" or self.enum is None:
                        raise TranslateError(w, f"unsupported class variable {st.target.id}")
                    v = st.value
                    ok = (isinstance(v, ast.ListComp) and len(v.generators) == 1 and not v.generators[0].ifs
                          and isinstance(v.generators[0].target, ast.Name) and is_name(v.generators[0].iter, self.enum_name)
                          and src(v.elt) == f"{v.generators[0].target.id}.value")
                    if not ok:
                        raise TranslateError(w, f"expected `[t.value for t in {self.enum_name}]`, found {src(v) if v else None}")
                    if self.supported_owner is not None:
                        raise TranslateError(w, "supported_types defined twice")
                    self.supported_owner = c.name
                    continue
                if st.value is not None:
                    raise TranslateError(w, f"dataclass field {st.target.id} has a default value (not supported)")
                if st.target.id in inherited or st.target.id in info["fields"]:
                    raise TranslateError(w, f"field {st.target.id} is redefined")
                info["fields"].append(st.target.id)
                info["ann"][st.target.id] = ann
                continue
            if isinstance(st, ast.FunctionDef):
                if st.name in methods:
                    raise TranslateError(w, f"method {st.name} defined twice")
                methods[st.name] = st
                continue
            raise TranslateError(w, f"unsupported class body statement: {src(st)[:100]}")
        info["methods"] = methods
        self.class_defs[c.name] = info
        for name, fn in methods.items():
            w = f"{c.name}.{name}"
            if name == "__init__":
                info["init"] = self.do_init(fn, info, w)
            elif name == "from_yaml_obj":
                info["fyo"] = self.do_fyo(fn, info, w)
            elif (c.name, name) in SKIPPED_METHODS:
                continue
            elif (c.name, name) in (("TensorEntry", "byte_range_tuple"), ("PrimitiveEntry", "get_value"), ("PrimitiveEntry", "_serialize"),
                                    ("PrimitiveEntry", "from_object"), ("SnapshotMetadata", "to_yaml"), ("SnapshotMetadata", "from_yaml")):
                continue                  # translated below, once every class is known
            else:
                raise TranslateError(w, "unknown method (not in the translated set and not explicitly skipped)")

    def all_fields(self, name: str) -> list[str]:
        i = self.class_defs[name]
        return (self.all_fields(i["base"]) if i["base"] else []) + i["fields"]

    def do_init(self, fn: ast.FunctionDef, info, where: str):
        if fn.decorator_list:
            raise TranslateError(where, "decorated __init__")
        args = plain_args(fn, where)
        if not args or args[0] != "self":
            raise TranslateError(where, "first parameter is not self")
        params = args[1:]
        defaults = [None] * (len(params) - len(fn.args.defaults)) + list(fn.args.defaults)
        if len(defaults) != len(params):
            raise TranslateError(where, "default for self")
        ps = []
        for p, d in zip(params, defaults):
            ps.append((p, None if d is None else jconst(d, where)))
        body = []
        for st in strip_doc(fn.body):
            if (isinstance(st, ast.Expr) and isinstance(st.value, ast.Call) and isinstance(st.value.func, ast.Attribute)
                    and st.value.func.attr == "__init__" and src(st.value.func.value) == "super()" and not st.value.args):
                if info["base"] is None:
                    raise TranslateError(where, "super().__init__ in a class without a base")
                kws = []
                for kw in st.value.keywords:
                    if kw.arg is None:
                        raise TranslateError(where, "**kwargs in super().__init__")
                    kws.append((kw.arg, self.iexpr(kw.value, params, where)))
                body.append(("super", kws))
            elif (isinstance(st, ast.Assign) and len(st.targets) == 1 and isinstance(st.targets[0], ast.Attribute)
                  and is_name(st.targets[0].value, "self")):
                body.append(("set", st.targets[0].attr, self.iexpr(st.value, params, where)))
            else:
                raise TranslateError(where, f"unsupported statement: {src(st)[:100]}")
        return {"params": ps, "body": body}

    def iexpr(self, e: ast.AST, params: list[str], where: str) -> str:
        if isinstance(e, ast.Name):
            if e.id not in params:
                raise TranslateError(where, f"{e.id} is not a parameter")
            return f"IParam {pstr_c(e.id)}"
        return f"IConst {jconst(e, where)}"

    def do_fyo(self, fn: ast.FunctionDef, info, where: str):
        if decorators(fn) != ["classmethod"]:
            raise TranslateError(where, "expected @classmethod")
        args = plain_args(fn, where)
        if len(args) != 2 or fn.args.defaults:
            raise TranslateError(where, "expected (cls, yaml_obj)")
        c, y = args
        body = strip_doc(fn.body)
        out = []
        i = 0
        while i < len(body):
            st = body[i]
            w = f"{where}:{st.lineno}"
            # if "k" in y: del y["k"]
            if (isinstance(st, ast.If) and not st.orelse and isinstance(st.test, ast.Compare) and len(st.test.ops) == 1
                    and isinstance(st.test.ops[0], ast.In) and is_name(st.test.comparators[0], y) and len(st.body) == 1
                    and isinstance(st.body[0], ast.Delete) and len(st.body[0].targets) == 1):
                k = const_str(st.test.left, w)
                if subscript_key(st.body[0].targets[0], y, w) != k:
                    raise TranslateError(w, "deletes a different key than the one tested")
                out.append(f"FDelIfPresent {pstr_c(k)}")
            elif isinstance(st, ast.Delete) and len(st.targets) == 1:
                out.append(f"FDel {pstr_c(subscript_key(st.targets[0], y, w))}")
            elif isinstance(st, ast.Assign) and len(st.targets) == 1 and isinstance(st.targets[0], ast.Subscript):
                k = subscript_key(st.targets[0], y, w)
                v = st.value
                if isinstance(v, ast.Call):
                    cls_name = self.fyo_call(v, w)
                    if len(v.args) != 1 or subscript_key(v.args[0], y, w) != k:
                        raise TranslateError(w, f"expected {y}[{k!r}] as the argument")
                    out.append(f"FSetCall {pstr_c(k)} {pstr_c(cls_name)}")
                elif (isinstance(v, ast.ListComp) and len(v.generators) == 1 and not v.generators[0].ifs and not v.generators[0].is_async
                      and isinstance(v.generators[0].target, ast.Name) and isinstance(v.elt, ast.Call)):
                    g = v.generators[0]
                    cls_name = self.fyo_call(v.elt, w)
                    if len(v.elt.args) != 1 or not is_name(v.elt.args[0], g.target.id) or subscript_key(g.iter, y, w) != k:
                        raise TranslateError(w, f"expected [C.from_yaml_obj(x) for x in {y}[{k!r}]]")
                    out.append(f"FSetMap {pstr_c(k)} {pstr_c(cls_name)}")
                else:
                    raise TranslateError(w, f"unsupported assignment: {src(st)[:100]}")
            elif isinstance(st, ast.Assign) and len(st.targets) == 1 and isinstance(st.targets[0], ast.Name):
                # t = y["k"]; if t not in cls.supported_types: raise ..
                t = st.targets[0].id
                k = subscript_key(st.value, y, w)
                nxt = body[i + 1] if i + 1 < len(body) else None
                ok = (isinstance(nxt, ast.If) and not nxt.orelse and len(nxt.body) == 1 and is_raise(nxt.body[0])
                      and isinstance(nxt.test, ast.Compare) and len(nxt.test.ops) == 1 and isinstance(nxt.test.ops[0], ast.NotIn)
                      and is_name(nxt.test.left, t) and src(nxt.test.comparators[0]) in (f"{c}.supported_types", f"{info['name']}.supported_types"))
                if not ok or self.supported_owner != info["name"]:
                    raise TranslateError(w, f"expected `{t} = {y}[..]` followed by `if {t} not in {c}.supported_types: raise ..`")
                uses = [n for s2 in body[i + 2:] for n in ast.walk(s2) if is_name(n, t)]
                if uses or t in (c, y):
                    raise TranslateError(w, f"{t} is used after the membership test")
                out.append(f"FRequireIn {pstr_c(k)} g_supported_types")
                i += 1
            elif isinstance(st, ast.Return):
                v = st.value
                ok = (isinstance(v, ast.Call) and is_name(v.func, c) and not v.args and len(v.keywords) == 1
                      and v.keywords[0].arg is None and is_name(v.keywords[0].value, y))
                if not ok or i != len(body) - 1:
                    raise TranslateError(w, f"expected `return {c}(**{y})` as the last statement")
                out.append("FReturnCls")
            else:
                raise TranslateError(w, f"unsupported statement: {src(st)[:100]}")
            i += 1
        if not out or out[-1] != "FReturnCls":
            raise TranslateError(where, "does not end in `return cls(**yaml_obj)`")
        return out

    def fyo_call(self, call: ast.Call, where: str) -> str:
        """`C.from_yaml_obj(..)` -> C"""
        f = call.func
        if not (isinstance(f, ast.Attribute) and f.attr == "from_yaml_obj" and isinstance(f.value, ast.Name) and not call.keywords):
            raise TranslateError(where, f"expected C.from_yaml_obj(..), found {src(call)}")
        if f.value.id not in self.class_defs:
            raise TranslateError(where, f"{f.value.id} is not a previously defined dataclass")
        return f.value.id

    # ---- emission of the class table
    def emit_classes(self):
        names = []
        for name in self.order:
            if name == self.enum_name:
                continue
            i = self.class_defs[name]
            fields = coq_list([f"{pstr_c(f)} {cm(i['ann'][f])}" for f in i["fields"]], "    ")
            if i["init"] is None:
                init = "None"
            else:
                ps = coq_list([f"({pstr_c(p)}, {'None' if d is None else '(Some ' + d + ')'})" for p, d in i["init"]["params"]], "      ")
                bs = []
                for b in i["init"]["body"]:
                    if b[0] == "super":
                        bs.append("ISuper " + coq_list([f"({pstr_c(k)}, {e})" for k, e in b[1]], "        "))
                    else:
                        bs.append(f"ISetAttr {pstr_c(b[1])} ({b[2]})")
                init = f"(Some (mkInit {ps}\n      {coq_list(bs, '      ')}))"
            fyo = "None" if i["fyo"] is None else "(Some " + coq_list(i["fyo"], "    ") + ")"
            base = "None" if i["base"] is None else f"(Some {pstr_c(i['base'])})"
            self.out.append(f"{cm('class ' + name + ('(' + i['base'] + ')' if i['base'] else ''))}\n"
                            f"Definition g_class_{name} : pyclass :=\n  mkClass {pstr_c(name)}\n    {base}\n    {fields}\n    {init}\n    {fyo}.\n")
            names.append(f"g_class_{name}")
        self.out.append("Definition g_classes : list pyclass := [" + "; ".join(names) + "].\n")

    # ---- SnapshotMetadata.to_yaml
    def do_to_yaml(self):
        where = "SnapshotMetadata.to_yaml"
        fn = self.method("SnapshotMetadata", "to_yaml")
        if fn.decorator_list or plain_args(fn, where) != ["self"]:
            raise TranslateError(where, "expected a plain method (self)")
        body = strip_doc(fn.body)
        if len(body) != 1 or not isinstance(body[0], ast.Return) or not isinstance(body[0].value, ast.Call):
            raise TranslateError(where, "expected a single `return json.dumps(..)`")
        call = body[0].value
        if src(call.func) != "json.dumps":
            raise TranslateError(where, f"serializer is {src(call.func)}, expected json.dumps")
        if len(call.args) != 1 or src(call.args[0]) != "asdict(self)":
            raise TranslateError(where, f"positional arguments {[src(a) for a in call.args]}, expected [asdict(self)]")
        opts = dict(JSON_DUMPS_DEFAULTS)
        given = []
        for kw in call.keywords:
            if kw.arg is None:
                raise TranslateError(where, "**kwargs passed to json.dumps")
            if kw.arg not in opts:
                raise TranslateError(where, f"unknown json.dumps keyword {kw.arg}")
            if kw.arg in given:
                raise TranslateError(where, f"keyword {kw.arg} given twice")
            given.append(kw.arg)
            v = kw.value
            if kw.arg in ("skipkeys", "ensure_ascii", "check_circular", "allow_nan", "sort_keys"):
                if not (isinstance(v, ast.Constant) and isinstance(v.value, bool)):
                    raise TranslateError(where, f"{kw.arg}={src(v)}: expected True / False")
                opts[kw.arg] = v.value
            elif kw.arg == "indent":
                if isinstance(v, ast.UnaryOp) and isinstance(v.op, ast.USub) and isinstance(v.operand, ast.Constant) and type(v.operand.value) is int:
                    opts["indent"] = -v.operand.value
                elif isinstance(v, ast.Constant) and (v.value is None or type(v.value) is int):
                    opts["indent"] = v.value
                else:
                    raise TranslateError(where, f"indent={src(v)}: expected None or an int literal")
            elif kw.arg == "separators":
                if isinstance(v, ast.Constant) and v.value is None:
                    opts["separators"] = None
                elif isinstance(v, ast.Tuple) and len(v.elts) == 2:
                    opts["separators"] = (const_str(v.elts[0], where), const_str(v.elts[1], where))
                else:
                    raise TranslateError(where, f"separators={src(v)}: expected None or a pair of string literals")
            else:   # cls / default
                if not (isinstance(v, ast.Constant) and v.value is None):
                    raise TranslateError(where, f"{kw.arg}={src(v)}: custom encoders are not modelled")
        ind = "None" if opts["indent"] is None else f"(Some ({opts['indent']}))"
        sep = "None" if opts["separators"] is None else f"(Some ({pystr(opts['separators'][0])}, {pystr(opts['separators'][1])}))"
        self.out.append(
            f"{cm('SnapshotMetadata.to_yaml: ' + src(body[0]))}\n"
            f"{cm('given explicitly: ' + (', '.join(given) or 'nothing') + '; the other fields are the defaults of json.dumps')}\n"
            "Definition g_dumps_opts : dumps_opts :=\n"
            f"  {{| o_skipkeys := {coq_bool(opts['skipkeys'])}; o_ensure_ascii := {coq_bool(opts['ensure_ascii'])};\n"
            f"     o_check_circular := {coq_bool(opts['check_circular'])}; o_allow_nan := {coq_bool(opts['allow_nan'])};\n"
            f"     o_indent := {ind}; o_separators := {sep}; o_sort_keys := {coq_bool(opts['sort_keys'])}; o_custom := false |}}.\n")

    def method(self, cls: str, name: str) -> ast.FunctionDef:
        if cls not in self.class_defs or name not in self.class_defs[cls]["methods"]:
            raise TranslateError(f"{cls}.{name}", "method not found")
        return self.class_defs[cls]["methods"][name]

    # ---- SnapshotMetadata.from_yaml
    def loader_of(self, st: ast.stmt, d: str | None, arg: str, where: str) -> tuple[str, str]:
        if not (isinstance(st, ast.Assign) and len(st.targets) == 1 and isinstance(st.targets[0], ast.Name) and isinstance(st.value, ast.Call)):
            raise TranslateError(where, f"expected `d = <loader>({arg}..)`, found {src(st)[:80]}")
        if d is not None and st.targets[0].id != d:
            raise TranslateError(where, f"assigns {st.targets[0].id}, expected {d}")
        call = st.value
        if src(call.func) == "json.loads":
            if len(call.args) != 1 or not is_name(call.args[0], arg) or call.keywords:
                raise TranslateError(where, f"unsupported json.loads call {src(call)}")
            return st.targets[0].id, "LJson"
        if src(call.func) == "yaml.load":
            if len(call.args) != 1 or not is_name(call.args[0], arg) or [(k.arg, src(k.value)) for k in call.keywords] != [("Loader", "Loader")]:
                raise TranslateError(where, f"unsupported yaml.load call {src(call)}")
            return st.targets[0].id, "LYaml"
        raise TranslateError(where, f"unknown loader {src(call.func)}")

    def do_from_yaml(self):
        where = "SnapshotMetadata.from_yaml"
        fn = self.method("SnapshotMetadata", "from_yaml")
        if decorators(fn) != ["classmethod"]:
            raise TranslateError(where, "expected @classmethod")
        args = plain_args(fn, where)
        if len(args) != 2 or fn.args.defaults:
            raise TranslateError(where, "expected (cls, yaml_str)")
        c, text = args
        body = strip_doc(fn.body)
        if len(body) != 5:
            raise TranslateError(where, f"expected 5 statements (load, manifest = {{}}, for, d[..] = manifest, return), found {len(body)}")
        # 1. loaders
        st = body[0]
        if isinstance(st, ast.Try):
            if len(st.body) != 1 or len(st.handlers) != 1 or st.orelse or st.finalbody or st.handlers[0].name is not None:
                raise TranslateError(where, "unsupported try statement")
            d, first = self.loader_of(st.body[0], None, text, where)
            h = st.handlers[0]
            if h.type is None or src(h.type) not in ("ValueError", "json.JSONDecodeError", "Exception"):
                raise TranslateError(where, f"fallback on {src(h.type) if h.type else 'a bare except'}: expected ValueError")
            if len(h.body) != 1:
                raise TranslateError(where, "handler body is not a single assignment")
            _, second = self.loader_of(h.body[0], d, text, where)
            loaders = [first, second]
        else:
            d, first = self.loader_of(st, None, text, where)
            loaders = [first]
        # 2. manifest = {}
        st = body[1]
        tgt = st.target if isinstance(st, ast.AnnAssign) else (st.targets[0] if isinstance(st, ast.Assign) and len(st.targets) == 1 else None)
        if not (isinstance(tgt, ast.Name) and isinstance(st.value, ast.Dict) and not st.value.keys):
            raise TranslateError(where, f"expected `manifest = {{}}`, found {src(st)[:80]}")
        man = tgt.id
        # 3. the loop
        st = body[2]
        ok = (isinstance(st, ast.For) and not st.orelse and isinstance(st.target, ast.Tuple) and len(st.target.elts) == 2
              and all(isinstance(e, ast.Name) for e in st.target.elts) and isinstance(st.iter, ast.Call) and not st.iter.args
              and not st.iter.keywords and isinstance(st.iter.func, ast.Attribute) and st.iter.func.attr == "items")
        if not ok:
            raise TranslateError(where, f"expected `for path, yaml_obj in {d}[..].items():`")
        path, y = (e.id for e in st.target.elts)
        mkey = subscript_key(st.iter.func.value, d, where)
        if len({c, text, d, man, path, y}) != 6:
            raise TranslateError(where, "local names are not distinct")
        lb = list(st.body)
        if not (lb and isinstance(lb[0], ast.Assign) and len(lb[0].targets) == 1 and isinstance(lb[0].targets[0], ast.Name)):
            raise TranslateError(where, f"expected `type_name = {y}[..]` first in the loop")
        t = lb[0].targets[0].id
        tkey = subscript_key(lb[0].value, y, where)
        if t in (c, text, d, man, path, y):
            raise TranslateError(where, "local names are not distinct")
        arms, tail = if_chain(lb[1:], where)
        chain = []
        for test, abody in arms:
            if not (isinstance(test, ast.Compare) and len(test.ops) == 1 and is_name(test.left, t)):
                raise TranslateError(where, f"unsupported test {src(test)}")
            rhs = test.comparators[0]
            if isinstance(test.ops[0], ast.Eq):
                tt = f"TEq {pstr_c(const_str(rhs, where))}"
            elif isinstance(test.ops[0], ast.In) and self.supported_owner and src(rhs) == f"{self.supported_owner}.supported_types":
                tt = "TIn g_supported_types"
            else:
                raise TranslateError(where, f"unsupported test {src(test)}")
            ok = (len(abody) == 1 and isinstance(abody[0], ast.Assign) and len(abody[0].targets) == 1
                  and isinstance(abody[0].targets[0], ast.Subscript) and is_name(abody[0].targets[0].value, man)
                  and is_name(abody[0].targets[0].slice, path) and isinstance(abody[0].value, ast.Call)
                  and len(abody[0].value.args) == 1 and is_name(abody[0].value.args[0], y))
            if not ok:
                raise TranslateError(where, f"expected `{man}[{path}] = C.from_yaml_obj({y})`, found {src(abody[0])[:80] if abody else 'nothing'}")
            chain.append(f"({tt}, {pstr_c(self.fyo_call(abody[0].value, where))})")
        if not tail:
            els = "ElseSkip"
        elif len(tail) == 1 and is_raise(tail[0]):
            els = "ElseRaise"
        else:
            raise TranslateError(where, f"unsupported final branch: {src(tail[0])[:80]}")
        # 4. d[..] = manifest
        st = body[3]
        if not (isinstance(st, ast.Assign) and len(st.targets) == 1 and is_name(st.value, man)):
            raise TranslateError(where, f"expected `{d}[..] = {man}`")
        rkey = subscript_key(st.targets[0], d, where)
        # 5. return cls(**d)
        st = body[4]
        v = st.value if isinstance(st, ast.Return) else None
        ok = (isinstance(v, ast.Call) and is_name(v.func, c) and not v.args and len(v.keywords) == 1
              and v.keywords[0].arg is None and is_name(v.keywords[0].value, d))
        if not ok:
            raise TranslateError(where, f"expected `return {c}(**{d})`")
        self.out.append(
            f"{cm('SnapshotMetadata.from_yaml')}\nDefinition g_from_yaml_def : from_yaml_def :=\n"
            f"  mkFromYaml [{'; '.join(loaders)}]\n    {pstr_c(mkey)}\n    {pstr_c(tkey)}\n    {coq_list(chain, '    ')}\n"
            f"    {els}\n    {pstr_c(rkey)}\n    {pstr_c('SnapshotMetadata')}.\n")

    # ---- PrimitiveEntry.get_value / _serialize / from_object
    def b64_of_sv(self, e: ast.AST, sv: str) -> bool:
        return src(e) in (f"base64.b64decode(bytes({sv}, 'utf-8'))", f"base64.b64decode({sv}.encode('utf-8'))")

    def do_get_value(self):
        where = "PrimitiveEntry.get_value"
        fn = self.method("PrimitiveEntry", "get_value")
        if fn.decorator_list or plain_args(fn, where) != ["self"]:
            raise TranslateError(where, "expected a plain method (self)")
        arms, tail = if_chain(strip_doc(fn.body), where)
        if len(tail) != 1 or not is_raise(tail[0]):
            raise TranslateError(where, "the chain must end in a raise")
        sv = "self.serialized_value"
        chain = []
        for test, body in arms:
            if not (isinstance(test, ast.Compare) and len(test.ops) == 1 and isinstance(test.ops[0], ast.Eq) and src(test.left) == "self.type"):
                raise TranslateError(where, f"unsupported test {src(test)}")
            name = const_str(test.comparators[0], where)
            w = f"{where}[{name}]"
            if len(body) == 1 and isinstance(body[0], ast.Return) and body[0].value is not None:
                v = body[0].value
                if src(v) == f"int({sv})":
                    dec = "DInt"
                elif src(v) == sv:
                    dec = "DSelf"
                elif self.b64_of_sv(v, sv):
                    dec = "DB64"
                else:
                    raise TranslateError(w, f"unsupported expression {src(v)}")
            elif (len(body) == 2 and isinstance(body[0], ast.If) and not body[0].orelse and len(body[0].body) == 1 and is_raise(body[0].body[0])
                  and isinstance(body[0].test, ast.Compare) and len(body[0].test.ops) == 1 and isinstance(body[0].test.ops[0], ast.NotIn)
                  and src(body[0].test.left) == sv and isinstance(body[0].test.comparators[0], (ast.List, ast.Tuple))
                  and isinstance(body[1], ast.Return) and isinstance(body[1].value, ast.Compare) and len(body[1].value.ops) == 1
                  and isinstance(body[1].value.ops[0], ast.Eq) and src(body[1].value.left) == sv):
                allowed = [const_str(e, w) for e in body[0].test.comparators[0].elts]
                dec = f"DBoolLit [{'; '.join(pystr(a) for a in allowed)}] {pstr_c(const_str(body[1].value.comparators[0], w))}"
            elif (len(body) == 2 and isinstance(body[0], ast.Assign) and len(body[0].targets) == 1 and isinstance(body[0].targets[0], ast.Name)
                  and self.b64_of_sv(body[0].value, sv) and isinstance(body[1], ast.Return) and isinstance(body[1].value, ast.Subscript)
                  and isinstance(body[1].value.slice, ast.Constant) and body[1].value.slice.value == 0 and type(body[1].value.slice.value) is int
                  and isinstance(body[1].value.value, ast.Call) and src(body[1].value.value.func) == "struct.unpack"
                  and len(body[1].value.value.args) == 2 and not body[1].value.value.keywords
                  and is_name(body[1].value.value.args[1], body[0].targets[0].id)):
                dec = f"DB64Unpack {pstr_c(const_str(body[1].value.value.args[0], w))}"
            else:
                raise TranslateError(w, f"unsupported branch: {'; '.join(src(s) for s in body)[:120]}")
            chain.append(f"({pstr_c(name)}, {dec})")
        self.out.append(f"{cm('PrimitiveEntry.get_value: if / elif chain on self.type; falling off the end raises')}\n"
                        f"Definition g_get_value_chain : list (pystr * decoder) := {coq_list(chain)}.\n")

    def do_serialize(self):
        where = "PrimitiveEntry._serialize"
        fn = self.method("PrimitiveEntry", "_serialize")
        if decorators(fn) != ["classmethod"]:
            raise TranslateError(where, "expected @classmethod")
        args = plain_args(fn, where)
        if len(args) != 3 or fn.args.defaults:
            raise TranslateError(where, "expected (cls, type_name, obj)")
        c, t, obj = args
        arms, tail = if_chain(strip_doc(fn.body), where)
        if len(tail) != 1 or not is_raise(tail[0]):
            raise TranslateError(where, "the chain must end in a raise")
        chain = []
        for test, body in arms:
            if not (isinstance(test, ast.Compare) and len(test.ops) == 1 and isinstance(test.ops[0], ast.Eq) and is_name(test.left, t)):
                raise TranslateError(where, f"unsupported test {src(test)}")
            name = const_str(test.comparators[0], where)
            w = f"{where}[{name}]"
            if len(body) == 1 and isinstance(body[0], ast.Return) and body[0].value is not None:
                v = src(body[0].value)
                if v == f"str({obj})":
                    enc = "EStr"
                elif v == f"base64.b64encode({obj}).decode('utf-8')":
                    enc = "EB64"
                else:
                    raise TranslateError(w, f"unsupported expression {v}")
            elif (len(body) == 2 and isinstance(body[0], ast.Assign) and len(body[0].targets) == 1 and isinstance(body[0].targets[0], ast.Name)
                  and isinstance(body[0].value, ast.Call) and src(body[0].value.func) == "struct.pack" and len(body[0].value.args) == 2
                  and not body[0].value.keywords and src(body[0].value.args[1]) == f"float({obj})"
                  and isinstance(body[1], ast.Return) and isinstance(body[1].value, ast.Call) and src(body[1].value.func) == f"{c}._serialize"
                  and len(body[1].value.args) == 2 and not body[1].value.keywords and is_name(body[1].value.args[1], body[0].targets[0].id)):
                enc = f"EPackThen {pstr_c(const_str(body[0].value.args[0], w))} {pstr_c(const_str(body[1].value.args[0], w))}"
            else:
                raise TranslateError(w, f"unsupported branch: {'; '.join(src(s) for s in body)[:120]}")
            chain.append(f"({pstr_c(name)}, {enc})")
        self.out.append(f"{cm('PrimitiveEntry._serialize: if / elif chain on type_name; the else branch raises')}\n"
                        f"Definition g_serialize_chain : list (pystr * encoder) := {coq_list(chain)}.\n")

    def do_from_object(self):
        where = "PrimitiveEntry.from_object"
        fn = self.method("PrimitiveEntry", "from_object")
        if decorators(fn) != ["classmethod"]:
            raise TranslateError(where, "expected @classmethod")
        args = plain_args(fn, where)
        if len(args) != 2 or fn.args.defaults:
            raise TranslateError(where, "expected (cls, obj)")
        c, obj = args
        body = strip_doc(fn.body)
        if len(body) != 5:
            raise TranslateError(where, f"expected 5 statements, found {len(body)}")
        s0, s1, s2, s3, s4 = body
        if not (isinstance(s0, ast.Assign) and len(s0.targets) == 1 and isinstance(s0.targets[0], ast.Name) and src(s0.value) == f"type({obj}).__name__"):
            raise TranslateError(where, f"expected `type_name = type({obj}).__name__`")
        t = s0.targets[0].id
        ok = (isinstance(s1, ast.If) and not s1.orelse and len(s1.body) == 1 and is_raise(s1.body[0]) and isinstance(s1.test, ast.Compare)
              and len(s1.test.ops) == 1 and isinstance(s1.test.ops[0], ast.NotIn) and is_name(s1.test.left, t)
              and src(s1.test.comparators[0]) in (f"{c}.supported_types", "PrimitiveEntry.supported_types") and self.supported_owner == "PrimitiveEntry")
        if not ok:
            raise TranslateError(where, f"expected `if {t} not in {c}.supported_types: raise ..`")
        if not (isinstance(s2, ast.Assign) and len(s2.targets) == 1 and isinstance(s2.targets[0], ast.Name)
                and src(s2.value) in (f"{c}._serialize({t}, {obj})", f"PrimitiveEntry._serialize({t}, {obj})")):
            raise TranslateError(where, f"expected `serialized_value = {c}._serialize({t}, {obj})`")
        sv = s2.targets[0].id
        v = s3.value if isinstance(s3, ast.Assign) and len(s3.targets) == 1 and isinstance(s3.targets[0], ast.Name) else None
        ok = (isinstance(v, ast.IfExp) and src(v.body) == f"str({obj})" and isinstance(v.orelse, ast.Constant) and v.orelse.value is None
              and isinstance(v.test, ast.Compare) and len(v.test.ops) == 1 and is_name(v.test.left, t))
        if not ok:
            raise TranslateError(where, f"expected `readable_value = str({obj}) if {t} == '..' else None`")
        if isinstance(v.test.ops[0], ast.Eq):
            rtypes = [const_str(v.test.comparators[0], where)]
        elif isinstance(v.test.ops[0], ast.In) and isinstance(v.test.comparators[0], (ast.List, ast.Tuple)):
            rtypes = [const_str(e, where) for e in v.test.comparators[0].elts]
        else:
            raise TranslateError(where, f"unsupported test {src(v.test)}")
        rd = s3.targets[0].id
        if len({c, obj, t, sv, rd}) != 5:
            raise TranslateError(where, "local names are not distinct")
        call = s4.value if isinstance(s4, ast.Return) else None
        if not (isinstance(call, ast.Call) and isinstance(call.func, ast.Name) and call.func.id in (c, "PrimitiveEntry") and not call.keywords):
            raise TranslateError(where, "expected `return PrimitiveEntry(<positional arguments>)`")
        fargs = []
        for a in call.args:
            if is_name(a, t):
                fargs.append("ATypeName")
            elif is_name(a, sv):
                fargs.append("ASerialized")
            elif is_name(a, rd):
                fargs.append("AReadable")
            elif isinstance(a, ast.Constant):
                fargs.append(f"AConst {jconst(a, where)}")
            else:
                raise TranslateError(where, f"unsupported constructor argument {src(a)}")
        self.out.append(f"{cm('PrimitiveEntry.from_object')}\nDefinition g_from_object_def : from_object_def :=\n"
                        f"  mkFromObject g_supported_types [{'; '.join(pystr(r) for r in rtypes)}] {pstr_c('PrimitiveEntry')}\n"
                        f"    [{'; '.join(fargs)}].\n")

    def do_byte_range_tuple(self):
        where = "TensorEntry.byte_range_tuple"
        fn = self.method("TensorEntry", "byte_range_tuple")
        if decorators(fn) != ["property"] or plain_args(fn, where) != ["self"]:
            raise TranslateError(where, "expected @property (self)")
        body = strip_doc(fn.body)
        ok = (len(body) == 2 and isinstance(body[0], ast.Assign) and len(body[0].targets) == 1 and isinstance(body[0].targets[0], ast.Name)
              and src(body[0].value) == "self.byte_range" and isinstance(body[1], ast.If))
        if ok:
            b = body[0].targets[0].id
            i = body[1]
            ok = (src(i.test) == f"{b} is None" and len(i.body) == 1 and isinstance(i.body[0], ast.Return)
                  and isinstance(i.body[0].value, ast.Constant) and i.body[0].value.value is None and len(i.orelse) == 1
                  and isinstance(i.orelse[0], ast.Return) and isinstance(i.orelse[0].value, ast.Tuple) and len(i.orelse[0].value.elts) == 2)
        idx = []
        if ok:
            for e in i.orelse[0].value.elts:
                if (isinstance(e, ast.Subscript) and is_name(e.value, b) and isinstance(e.slice, ast.Constant)
                        and type(e.slice.value) is int and e.slice.value >= 0):
                    idx.append(e.slice.value)
                else:
                    ok = False
        if not ok:
            raise TranslateError(where, "expected `b = self.byte_range; if b is None: return None else: return (b[i], b[j])`")
        self.out.append(f"{cm('TensorEntry.byte_range_tuple: None, or (byte_range[i], byte_range[j])')}\n"
                        f"Definition g_byte_range_idx : nat * nat := ({idx[0]}%nat, {idx[1]}%nat).\n")

    # ---- driver
    def run(self) -> str:
        self.scan()
        for name in self.order:
            c = self.classes[name]
            if any(src(b) == "Enum" for b in c.bases):
                if self.enum is not None:
                    raise TranslateError(name, "a second Enum class")
                self.do_enum(c)
            else:
                self.do_class(c)
        if self.enum is None or self.supported_owner != "PrimitiveEntry":
            raise TranslateError("PrimitiveEntry", "PrimitiveType / supported_types not found")
        self.out.append(f"{cm('class ' + self.enum_name + '(Enum): member name, value')}\n"
                        "Definition g_primitive_types : list (pystr * pystr) := "
                        + coq_list([f"({pstr_c(n)}, {pstr_c(v)})" for n, v in self.enum]) + ".\n")
        self.out.append(f"{cm('PrimitiveEntry.supported_types: ClassVar = [t.value for t in ' + self.enum_name + ']')}\n"
                        "Definition g_supported_types : list pystr := map snd g_primitive_types.\n")
        self.emit_classes()
        self.do_to_yaml()
        self.do_from_yaml()
        self.do_get_value()
        self.do_serialize()
        self.do_from_object()
        self.do_byte_range_tuple()
        return ("(* GENERATED by translator/gen_manifest.py from torchsnapshot/manifest.py - do not edit. *)\n"
                "From TS Require Import model.Base model.Codec model.Json model.ManifestCodec model.PyManifest.\n\n" + "\n".join(self.out))


def generate() -> dict[str, str]:
    return {"ManifestGen": Module().run()}
