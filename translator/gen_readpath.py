"""T-readpath (C04): Python ast -> Gallina for the logic of the read path under payload damage -> coq/gen/ReadPathGen.v.

Translated (fail closed: any statement or expression outside the subsets below raises TranslateError):

  serialization.py      tensor_from_memoryview          g_tensor_from_memoryview   (empty-buffer branch, frombuffer, reshape)
                        torch_load_from_bytes           g_torch_load_from_bytes
  io_preparers/tensor.py
                        TensorBufferConsumer.deserialize_tensor   g_deserialize_tensor (dispatch on the serializer)
                        TensorBufferConsumer.consume_buffer       g_tensor_consume     (which buffer, which entry, what is copied)
                        TensorIOPreparer.prepare_read             g_tensor_prepare_read (tiled or one ReadReq: path, range, consumer)
  io_preparers/sharded_tensor.py
                        ShardedTensorBufferConsumer.consume_buffer g_sharded_consume
                        ShardedTensorIOPreparer.prepare_read (the loop that emits the ReadReqs)  g_sharded_prepare_read
  io_preparers/chunked_tensor.py  ChunkedTensorIOPreparer.prepare_read   g_chunked_prepare_read
  io_preparers/object.py  ObjectBufferConsumer.consume_buffer, ObjectIOPreparer.prepare_read
  batcher.py            BatchedBufferConsumer.consume_buffer      g_batched_deliveries (slice per sub-consumer),
                                                                  g_batched_consume (gather + result retrieval)
                        batch_read_requests                       g_brr_loop1 / g_brr_subranges / g_brr_loop2 /
                                                                  g_batch_read_requests (statement by statement)
  scheduler.py          _ReadPipeline.read_buffer / consume_buffer, result retrieval in execute_read_reqs
                                                                  g_pipeline_*, g_exec_*_result_retrieved, g_execute_read_reqs

The vocabulary of the output (torch primitives, dicts, ReadReq representation) is coq/model/ReadPathPrims.v.
"""
from __future__ import annotations

import ast

from translator.pyast import TranslateError, find_class, find_func, parse, src

OUTPUTS = ["ReadPathGen"]

CMP = {ast.Eq: "=?", ast.Lt: "<?", ast.LtE: "<=?", ast.Gt: ">?", ast.GtE: ">=?"}
SER = {"TORCH_SAVE": "SerTorchSave", "BUFFER_PROTOCOL": "SerBufferProtocol"}
RESERVED = {"obj", "load", "save", "fun", "let", "in", "match", "with", "end", "if", "then", "else", "at", "as"}


def cq(name: str) -> str:
    """a Python local as a Gallina binder"""
    return name + "0" if name in RESERVED else name


def strip_doc(body):
    return [s for s in body if not (isinstance(s, ast.Expr) and isinstance(s.value, ast.Constant) and isinstance(s.value.value, str))]


def argnames(fn) -> list[str]:
    if fn.args.vararg or fn.args.kwarg or fn.args.kwonlyargs or fn.args.posonlyargs:
        raise TranslateError(fn.name, "unsupported parameter kinds")
    return [a.arg for a in fn.args.args]


def call_args(c: ast.Call, names: list[str], where: str, defaults: dict | None = None) -> dict[str, ast.AST]:
    """bind positional and keyword arguments of a call to parameter names"""
    if len(c.args) > len(names):
        raise TranslateError(where, f"too many arguments in {src(c)}")
    out = dict(zip(names, c.args))
    for k in c.keywords:
        if k.arg is None or k.arg not in names or k.arg in out:
            raise TranslateError(where, f"unexpected keyword in {src(c)}")
        out[k.arg] = k.value
    for n in names:
        if n not in out:
            if defaults is not None and n in defaults:
                out[n] = defaults[n]
            else:
                raise TranslateError(where, f"argument {n} missing in {src(c)}")
    return out


def is_none(e) -> bool:
    return isinstance(e, ast.Constant) and e.value is None


def int_const(e):
    if isinstance(e, ast.Constant) and isinstance(e.value, int) and not isinstance(e.value, bool):
        return e.value
    if isinstance(e, ast.UnaryOp) and isinstance(e.op, ast.USub) and isinstance(e.operand, ast.Constant) and isinstance(e.operand.value, int):
        return -e.operand.value
    return None


def zlit(n: int) -> str:
    return f"({n})" if n < 0 else str(n)


def check_serializer_enum():
    cls = find_class(parse("torchsnapshot/serialization.py"), "Serializer")
    if [src(b) for b in cls.bases] != ["Enum"]:
        raise TranslateError("Serializer", "is no longer an Enum")
    vals = {}
    for s in cls.body:
        if isinstance(s, ast.Assign) and len(s.targets) == 1 and isinstance(s.targets[0], ast.Name) and isinstance(s.value, ast.Constant):
            vals[s.targets[0].id] = s.value.value
    for k in SER:
        if k not in vals:
            raise TranslateError("Serializer", f"member {k} not found")
    if len(set(vals.values())) != len(vals):
        raise TranslateError("Serializer", "members are not pairwise distinct")


# =============================================================================== consumers
class Fn:
    """Continuation-style translation of a consumer-side function body into an option-valued Gallina term.

    env maps Python names to (type, gallina): types 'bytes', 'tensor' (tns), 'pyval', 'obj' (result of torch.load),
    'dtype', 'shape', 'entry', 'exec' (executor or None), 'view' (a view of a pyval), 'dst'."""

    def __init__(self, where: str, env: dict[str, tuple[str, str]], result: str):
        self.where = where
        self.env = dict(env)
        self.result = result            # 'tensor' | 'obj' | 'pyval' | 'stored'
        self.fresh = 0
        self.notes: list[str] = []

    def err(self, msg):
        raise TranslateError(self.where, msg)

    def tmp(self) -> str:
        self.fresh += 1
        return f"t{self.fresh - 1}"

    # ---- atoms
    def typed(self, e, ty: str) -> str | None:
        if isinstance(e, ast.Name) and e.id in self.env and self.env[e.id][0] == ty:
            return self.env[e.id][1]
        s = src(e)
        if s in self.env and self.env[s][0] == ty:
            return self.env[s][1]
        return None

    def entry(self, e) -> str:
        v = self.typed(e, "entry")
        if v is None:
            self.err(f"not a known TensorEntry expression: {src(e)}")
        return v

    def bytes_(self, e) -> str:
        v = self.typed(e, "bytes")
        if v is not None:
            return v
        if isinstance(e, ast.Call) and isinstance(e.func, ast.Name) and e.func.id in ("memoryview", "bytes") and len(e.args) == 1 and not e.keywords:
            return self.bytes_(e.args[0])
        self.err(f"unsupported buffer expression (only the buffer itself is a known buffer): {src(e)}")

    def dtype(self, e) -> str:
        v = self.typed(e, "dtype")
        if v is not None:
            return v
        if isinstance(e, ast.Call) and src(e.func) == "string_to_dtype" and len(e.args) == 1 and not e.keywords:
            a = e.args[0]
            if isinstance(a, ast.Attribute) and a.attr == "dtype":
                return f"(te_esize {self.entry(a.value)})"
        self.err(f"unsupported dtype expression: {src(e)}")

    def shape(self, e) -> str:
        v = self.typed(e, "shape")
        if v is not None:
            return v
        if isinstance(e, ast.Call) and isinstance(e.func, ast.Name) and e.func.id == "list" and len(e.args) == 1:
            return self.shape(e.args[0])
        if isinstance(e, ast.Attribute) and e.attr == "shape":
            return f"(te_shape {self.entry(e.value)})"
        self.err(f"unsupported shape expression: {src(e)}")

    def z(self, e) -> str:
        n = int_const(e)
        if n is not None:
            return zlit(n)
        if isinstance(e, ast.Call) and isinstance(e.func, ast.Name) and e.func.id == "len" and len(e.args) == 1 and not e.keywords:
            return f"(blen {self.bytes_(e.args[0])})"
        if isinstance(e, ast.BinOp) and isinstance(e.op, (ast.Add, ast.Sub, ast.Mult)):
            op = {ast.Add: "+", ast.Sub: "-", ast.Mult: "*"}[type(e.op)]
            return f"({self.z(e.left)} {op} {self.z(e.right)})"
        self.err(f"unsupported integer expression: {src(e)}")

    def cond(self, e) -> str:
        if isinstance(e, ast.BoolOp):
            return "(" + (" || " if isinstance(e.op, ast.Or) else " && ").join(self.cond(v) for v in e.values) + ")"
        if isinstance(e, ast.UnaryOp) and isinstance(e.op, ast.Not):
            return f"(negb {self.cond(e.operand)})"
        if isinstance(e, ast.Compare) and len(e.ops) == 1:
            op, l, r = e.ops[0], e.left, e.comparators[0]
            # entry.serializer == Serializer.X.value
            for a, b in ((l, r), (r, l)):
                if (isinstance(a, ast.Attribute) and a.attr == "serializer" and isinstance(b, ast.Attribute) and b.attr == "value"
                        and isinstance(b.value, ast.Attribute) and src(b.value.value) == "Serializer" and isinstance(op, (ast.Eq, ast.NotEq))):
                    if b.value.attr not in SER:
                        self.err(f"serializer {b.value.attr} is outside the model")
                    t = f"(ser_eqb (te_ser {self.entry(a.value)}) {SER[b.value.attr]})"
                    return t if isinstance(op, ast.Eq) else f"(negb {t})"
            # executor is [not] None
            if isinstance(op, (ast.Is, ast.IsNot)) and is_none(r):
                v = self.typed(l, "exec")
                if v is None:
                    self.err(f"`is None` test on something that is not the executor: {src(e)}")
                return v if isinstance(op, ast.IsNot) else f"(negb {v})"
            if type(op) in CMP:
                return f"({self.z(l)} {CMP[type(op)]} {self.z(r)})"
            if isinstance(op, ast.NotEq):
                return f"(negb ({self.z(l)} =? {self.z(r)}))"
        self.err(f"unsupported condition: {src(e)}")

    # ---- option-valued expressions: returns (gallina : option T, T)
    def opt(self, e) -> tuple[str, str]:
        for ty in ("tensor", "pyval", "obj"):
            v = self.typed(e, ty)
            if v is not None:
                return f"(Some {v})", ty
        if not isinstance(e, ast.Call):
            self.err(f"unsupported expression: {src(e)}")
        f = src(e.func)
        if f in ("torch.empty", "torch.zeros"):
            a = call_args(e, ["size", "dtype"], self.where)
            n = int_const(a["size"])
            if n is not None:
                return f"(tp_empty_n {self.dtype(a['dtype'])} {zlit(n)})", "tensor"
            return f"(tp_empty_shape {self.dtype(a['dtype'])} {self.shape(a['size'])})", "tensor"
        if f == "torch.frombuffer":
            a = call_args(e, ["buffer", "dtype"], self.where)
            return f"(tp_frombuffer {self.dtype(a['dtype'])} {self.bytes_(a['buffer'])})", "tensor"
        if f == "torch.reshape" or (isinstance(e.func, ast.Attribute) and e.func.attr == "reshape" and f != "torch.reshape"):
            if f == "torch.reshape":
                a = call_args(e, ["input", "shape"], self.where)
                inner, shp = a["input"], a["shape"]
            else:
                if len(e.args) != 1 or e.keywords:
                    self.err(f"unsupported reshape call: {src(e)}")
                inner, shp = e.func.value, e.args[0]
            g, ty = self.opt(inner)
            if ty != "tensor":
                self.err(f"reshape of a non-tensor: {src(e)}")
            t = self.tmp()
            return f"(obind {g} (fun {t} => tp_reshape {t} {self.shape(shp)}))", "tensor"
        if f == "torch.load":
            if not (len(e.args) == 1 and isinstance(e.args[0], ast.Call) and src(e.args[0].func) == "io.BytesIO" and len(e.args[0].args) == 1
                    and not e.args[0].keywords):
                self.err(f"torch.load of something that is not io.BytesIO(<buffer>): {src(e)}")
            for k in e.keywords:
                if k.arg not in ("map_location", "weights_only"):
                    self.err(f"unexpected torch.load option {k.arg}")
            return f"(load {self.bytes_(e.args[0].args[0])})", "obj"
        if f == "torch_load_from_bytes":
            a = call_args(e, ["buf"], self.where)
            return f"(g_torch_load_from_bytes obj load {self.bytes_(a['buf'])})", "obj"
        if f == "tensor_from_memoryview":
            a = call_args(e, ["mv", "dtype", "shape"], self.where)
            return f"(g_tensor_from_memoryview {self.dtype(a['dtype'])} {self.shape(a['shape'])} {self.bytes_(a['mv'])})", "tensor"
        if f in ("self.deserialize_tensor", "TensorBufferConsumer.deserialize_tensor", "cls.deserialize_tensor"):
            a = call_args(e, ["buf", "entry"], self.where)
            return f"(g_deserialize_tensor obj load {self.entry(a['entry'])} {self.bytes_(a['buf'])})", "pyval"
        self.err(f"unsupported call: {src(e)}")

    def ret(self, e) -> str:
        g, ty = self.opt(e)
        if self.result == ty:
            return g
        if self.result == "pyval" and ty in ("tensor", "obj"):
            t = self.tmp()
            return f"(obind {g} (fun {t} => Some ({'PTensor' if ty == 'tensor' else 'PObj'} {t})))"
        self.err(f"returns a {ty} where a {self.result} is expected: {src(e)}")

    # ---- the copy that ends a consumer path: tensor_copy(dst, src) directly or through run_in_executor
    def copy_stmt(self, st) -> str | None:
        if not isinstance(st, ast.Expr):
            return None
        v = st.value
        if isinstance(v, ast.Await):
            c = v.value
            if not (isinstance(c, ast.Call) and src(c.func) == "asyncio.get_running_loop().run_in_executor" and len(c.args) == 4 and not c.keywords):
                return None
            if self.typed(c.args[0], "exec") is None or src(c.args[1]) != "tensor_copy":
                self.err(f"unsupported run_in_executor call: {src(c)}")
            dst, s = c.args[2], c.args[3]
        elif isinstance(v, ast.Call) and src(v.func) == "tensor_copy" and len(v.args) == 2 and not v.keywords:
            dst, s = v.args
        else:
            return None
        if self.typed(dst, "dst") is None:
            self.err(f"copies into {src(dst)}, which is not the consumer's target")
        val = self.typed(s, "pyval") or self.typed(s, "view")
        if val is None:
            self.err(f"copies {src(s)}, which is not the deserialized buffer")
        return f"Some (tp_copy {val})"

    # ---- statements
    def stmts(self, body: list[ast.stmt], ind: str) -> str:
        if not body:
            self.err("a path ends without a result (nothing stored / returned)")
        st, rest = body[0], body[1:]
        if isinstance(st, ast.Return):
            if self.result == "stored":
                self.err("return inside a consumer")
            return f"{ind}{self.ret(st.value)}"
        if isinstance(st, ast.Raise):
            return f"{ind}None"
        if isinstance(st, ast.With):       # with warnings.catch_warnings(): warnings.simplefilter("ignore"); ...
            if not (len(st.items) == 1 and src(st.items[0].context_expr) == "warnings.catch_warnings()" and st.items[0].optional_vars is None):
                self.err(f"unsupported with-statement: {src(st.items[0].context_expr)}")
            inner = [s for s in st.body if not (isinstance(s, ast.Expr) and src(s.value).startswith("warnings.simplefilter("))]
            return self.stmts(inner + rest, ind)
        if isinstance(st, ast.If):
            saved = dict(self.env)
            c = self.cond(st.test)
            a = self.stmts(list(st.body) + rest, ind + "  ")
            self.env = dict(saved)
            b = self.stmts(list(st.orelse) + rest, ind + "  ")
            self.env = saved
            return f"{ind}if {c} then\n{a}\n{ind}else\n{b}"
        cp = self.copy_stmt(st)
        if cp is not None:
            if self.result != "stored":
                self.err("a copy outside a consumer")
            if rest:
                self.err(f"statements after the copy into the target: {src(rest[0])[:80]}")
            return f"{ind}{cp}"
        if isinstance(st, (ast.Assign, ast.AnnAssign)):
            tgt = st.targets[0] if isinstance(st, ast.Assign) and len(st.targets) == 1 else (st.target if isinstance(st, ast.AnnAssign) else None)
            if tgt is None or st.value is None:
                self.err(f"unsupported assignment: {src(st)}")
            # self.fut.obj = <loaded object>: the object consumer's store
            if src(tgt) == "self.fut.obj":
                v = self.typed(st.value, "obj")
                if v is None or self.result != "stored":
                    self.err(f"stores {src(st.value)} in the Future, which is not the loaded object")
                if rest:
                    self.err("statements after the store into the Future")
                return f"{ind}Some (RdObj {v})"
            if not isinstance(tgt, ast.Name):
                self.err(f"unsupported assignment target: {src(tgt)}")
            name = tgt.id
            if name == "map_location":          # device placement of torch.load: not modelled
                self.notes.append(f"{src(st)} : device placement, not modelled")
                self.env.pop(name, None)
                return self.stmts(rest, ind)
            if isinstance(st.value, ast.Call) and src(st.value.func) == "string_to_dtype":
                self.env[name] = ("dtype", cq(name))
                return f"{ind}let {cq(name)} := {self.dtype(st.value)} in\n" + self.stmts(rest, ind)
            g, ty = self.opt(st.value)
            self.env[name] = (ty, cq(name))
            return f"{ind}obind {g} (fun {cq(name)} =>\n" + self.stmts(rest, ind) + ")"
        if isinstance(st, ast.For):
            # for overlapping_region in self.overlapping_regions: src_view, dst_view = overlapping_region.get_views(src_tensor=X); copy
            if not (src(st.iter) == "self.overlapping_regions" and isinstance(st.target, ast.Name) and not st.orelse and st.body):
                self.err(f"unsupported loop: for {src(st.target)} in {src(st.iter)}")
            if rest:
                self.err("statements after the loop over the overlapping regions")
            first = st.body[0]
            if not (isinstance(first, ast.Assign) and isinstance(first.targets[0], ast.Tuple) and len(first.targets[0].elts) == 2
                    and all(isinstance(x, ast.Name) for x in first.targets[0].elts) and isinstance(first.value, ast.Call)
                    and src(first.value.func) == f"{st.target.id}.get_views"):
                self.err(f"unsupported loop body: {src(first)[:100]}")
            a = call_args(first.value, ["src_tensor"], self.where)
            whole = self.typed(a["src_tensor"], "pyval")
            if whole is None:
                self.err(f"views are taken of {src(a['src_tensor'])}, which is not the deserialized buffer")
            sv, dv = (x.id for x in first.targets[0].elts)
            self.env[sv] = ("view", whole)
            self.env[dv] = ("dst", dv)
            self.notes.append("views of the deserialized shard are copied into the overlapping regions of the target "
                              "(which region receives which part: C08)")
            return self.stmts(list(st.body[1:]), ind)
        self.err(f"unsupported statement: {src(st)[:120]}")


def gen_serialization() -> str:
    mod = parse("torchsnapshot/serialization.py")
    fn = find_func(mod, "tensor_from_memoryview")
    if argnames(fn) != ["mv", "dtype", "shape"]:
        raise TranslateError("tensor_from_memoryview", f"signature changed: {argnames(fn)}")
    t = Fn("serialization.py:tensor_from_memoryview",
           {"mv": ("bytes", "mv"), "dtype": ("dtype", "dtype"), "shape": ("shape", "shape")}, "tensor")
    body = t.stmts(strip_doc(fn.body), "  ")
    out = ("(* serialization.py tensor_from_memoryview; a dtype is its element size *)\n"
           "Definition g_tensor_from_memoryview (dtype : Z) (shape : list Z) (mv : bytes) : option tns :=\n" + body + ".\n")
    fn = find_func(mod, "torch_load_from_bytes")
    if argnames(fn) != ["buf"]:
        raise TranslateError("torch_load_from_bytes", "signature changed")
    t = Fn("serialization.py:torch_load_from_bytes", {"buf": ("bytes", "buf")}, "obj")
    body = t.stmts(strip_doc(fn.body), "  ")
    out += ("\n(* serialization.py torch_load_from_bytes *)\n"
            "Definition g_torch_load_from_bytes (obj : Type) (load : bytes -> option obj) (buf : bytes) : option obj :=\n" + body + ".\n")
    return out


def consumer_method(relpath: str, cls_name: str):
    cls = find_class(parse(relpath), cls_name)
    fn = find_func(cls, "consume_buffer")
    if not isinstance(fn, ast.AsyncFunctionDef) or argnames(fn) != ["self", "buf", "executor"]:
        raise TranslateError(f"{cls_name}.consume_buffer", "signature changed")
    for n in ast.walk(fn):
        if isinstance(n, (ast.Try, ast.While)):
            raise TranslateError(f"{cls_name}.consume_buffer", f"{type(n).__name__} statement: exceptions of a consumer must propagate")
    return cls, fn


def init_fields(cls: ast.ClassDef, where: str) -> dict[str, str]:
    """self.x = x assignments of __init__"""
    init = find_func(cls, "__init__")
    out = {}
    for s in strip_doc(init.body):
        if not (isinstance(s, ast.Assign) and len(s.targets) == 1 and isinstance(s.targets[0], ast.Attribute)
                and src(s.targets[0].value) == "self" and isinstance(s.value, ast.Name)):
            raise TranslateError(where, f"unexpected statement in __init__: {src(s)}")
        out[s.targets[0].attr] = s.value.id
    return out


def notes_text(t: Fn) -> str:
    return "".join(f"(* note: {n} *)\n" for n in t.notes)


def gen_consumers() -> str:
    out = []
    # ---- TensorBufferConsumer
    cls = find_class(parse("torchsnapshot/io_preparers/tensor.py"), "TensorBufferConsumer")
    if init_fields(cls, "TensorBufferConsumer.__init__") != {"tensor": "tensor", "entry": "entry"}:
        raise TranslateError("TensorBufferConsumer.__init__", "fields changed")
    fn = find_func(cls, "deserialize_tensor")
    if argnames(fn) != ["buf", "entry"] or [src(d) for d in fn.decorator_list] != ["staticmethod"]:
        raise TranslateError("TensorBufferConsumer.deserialize_tensor", "signature changed")
    t = Fn("TensorBufferConsumer.deserialize_tensor", {"buf": ("bytes", "buf"), "entry": ("entry", "entry")}, "pyval")
    body = t.stmts(strip_doc(fn.body), "  ")
    out.append("(* io_preparers/tensor.py TensorBufferConsumer.deserialize_tensor *)\n" + notes_text(t) +
               "Definition g_deserialize_tensor (obj : Type) (load : bytes -> option obj) (entry : rd_tentry) (buf : bytes) : option (pyval obj) :=\n"
               + body + ".\n")
    cls, fn = consumer_method("torchsnapshot/io_preparers/tensor.py", "TensorBufferConsumer")
    t = Fn("TensorBufferConsumer.consume_buffer",
           {"buf": ("bytes", "buf"), "executor": ("exec", "executor"), "self.entry": ("entry", "entry"), "self.tensor": ("dst", "tensor")}, "stored")
    body = t.stmts(strip_doc(fn.body), "  ")
    out.append("(* io_preparers/tensor.py TensorBufferConsumer.consume_buffer; executor = `executor is not None` *)\n" + notes_text(t) +
               "Definition g_tensor_consume (obj : Type) (load : bytes -> option obj) (entry : rd_tentry) (executor : bool) (buf : bytes) : option (rd_value obj) :=\n"
               + body + ".\n")
    # ---- ShardedTensorBufferConsumer
    cls, fn = consumer_method("torchsnapshot/io_preparers/sharded_tensor.py", "ShardedTensorBufferConsumer")
    if init_fields(cls, "ShardedTensorBufferConsumer.__init__") != {"overlapping_regions": "overlapping_regions", "entry": "entry"}:
        raise TranslateError("ShardedTensorBufferConsumer.__init__", "fields changed")
    t = Fn("ShardedTensorBufferConsumer.consume_buffer",
           {"buf": ("bytes", "buf"), "executor": ("exec", "executor"), "self.entry": ("entry", "entry")}, "stored")
    body = t.stmts(strip_doc(fn.body), "  ")
    out.append("(* io_preparers/sharded_tensor.py ShardedTensorBufferConsumer.consume_buffer *)\n" + notes_text(t) +
               "Definition g_sharded_consume (obj : Type) (load : bytes -> option obj) (entry : rd_tentry) (executor : bool) (buf : bytes) : option (rd_value obj) :=\n"
               + body + ".\n")
    # ---- ObjectBufferConsumer
    cls, fn = consumer_method("torchsnapshot/io_preparers/object.py", "ObjectBufferConsumer")
    if init_fields(cls, "ObjectBufferConsumer.__init__") != {"fut": "fut"}:
        raise TranslateError("ObjectBufferConsumer.__init__", "fields changed")
    t = Fn("ObjectBufferConsumer.consume_buffer", {"buf": ("bytes", "buf"), "executor": ("exec", "executor")}, "stored")
    body = t.stmts(strip_doc(fn.body), "  ")
    out.append("(* io_preparers/object.py ObjectBufferConsumer.consume_buffer *)\n" + notes_text(t) +
               "Definition g_object_consume (obj : Type) (load : bytes -> option obj) (buf : bytes) : option (rd_value obj) :=\n"
               + body + ".\n")
    return "\n".join(out)


# =============================================================================== batcher.py
def range_int(e, names: dict[str, str], where: str) -> str:
    """integer expressions over byte-range components: r[0], r[1], names, constants, + -, min, max"""
    n = int_const(e)
    if n is not None:
        return zlit(n)
    if isinstance(e, ast.Name) and names.get(e.id, ("", ""))[0] == "int":
        return names[e.id][1]
    if isinstance(e, ast.Subscript) and int_const(e.slice) in (0, 1):
        return f"({'fst' if int_const(e.slice) == 0 else 'snd'} {range_expr(e.value, names, where)})"
    if isinstance(e, ast.BinOp) and isinstance(e.op, (ast.Add, ast.Sub)):
        return f"({range_int(e.left, names, where)} {'+' if isinstance(e.op, ast.Add) else '-'} {range_int(e.right, names, where)})"
    if isinstance(e, ast.Call) and isinstance(e.func, ast.Name) and e.func.id in ("min", "max") and len(e.args) == 2 and not e.keywords:
        return f"(Z.{e.func.id} {range_int(e.args[0], names, where)} {range_int(e.args[1], names, where)})"
    raise TranslateError(where, f"unsupported integer expression: {src(e)}")


def range_expr(e, names: dict[str, tuple[str, str]], where: str) -> str:
    """expressions denoting a byte range (a pair)"""
    if isinstance(e, ast.Name) and names.get(e.id, ("", ""))[0] == "range":
        return names[e.id][1]
    if isinstance(e, ast.Tuple) and len(e.elts) == 2:
        return f"({range_int(e.elts[0], names, where)}, {range_int(e.elts[1], names, where)})"
    if isinstance(e, ast.Subscript) and isinstance(e.value, ast.Name) and names.get(e.value.id, ("", ""))[0] == "rangedict":
        return f"(dict_at Z.eqb (0, 0) {key_expr(e.slice, names, where)} {names[e.value.id][1]})"
    raise TranslateError(where, f"unsupported byte-range expression: {src(e)}")


def key_expr(e, names, where: str) -> str:
    if isinstance(e, ast.Name) and names.get(e.id, ("", ""))[0] == "loc":
        return names[e.id][1]
    if isinstance(e, ast.Attribute) and e.attr == "path" and isinstance(e.value, ast.Name) and names.get(e.value.id, ("", ""))[0] == "rreq":
        return f"(rq_path {names[e.value.id][1]})"
    raise TranslateError(where, f"unsupported location expression: {src(e)}")


def gen_batched_consumer() -> str:
    where = "BatchedBufferConsumer.consume_buffer"
    cls, fn = consumer_method("torchsnapshot/batcher.py", "BatchedBufferConsumer")
    if init_fields(cls, "BatchedBufferConsumer.__init__") != {"byte_range_to_buffer_consumer": "byte_range_to_buffer_consumer", "buf_sz_bytes": "buf_sz_bytes"}:
        raise TranslateError("BatchedBufferConsumer.__init__", "fields changed")
    body = strip_doc(fn.body)
    if not body:
        raise TranslateError(where, "empty body")
    # 1. the tasks: one per (byte_range, buffer_consumer) item, each consuming a slice of buf
    st = body[0]
    if not (isinstance(st, ast.Assign) and len(st.targets) == 1 and isinstance(st.targets[0], ast.Name) and isinstance(st.value, ast.ListComp)):
        raise TranslateError(where, f"expected `tasks = [ ... for ... in ...items()]`, found {src(st)[:100]}")
    tasks = st.targets[0].id
    lc = st.value
    if len(lc.generators) != 1 or lc.generators[0].ifs or lc.generators[0].is_async:
        raise TranslateError(where, "unsupported comprehension")
    gen = lc.generators[0]
    if src(gen.iter) != "self.byte_range_to_buffer_consumer.items()":
        raise TranslateError(where, f"tasks are not created from self.byte_range_to_buffer_consumer.items(): {src(gen.iter)}")
    if not (isinstance(gen.target, ast.Tuple) and len(gen.target.elts) == 2 and all(isinstance(x, ast.Name) for x in gen.target.elts)):
        raise TranslateError(where, "unsupported comprehension target")
    kname, cname = (x.id for x in gen.target.elts)
    elt = lc.elt
    if not (isinstance(elt, ast.Call) and src(elt.func) in ("asyncio.create_task", "asyncio.ensure_future") and len(elt.args) == 1 and not elt.keywords):
        raise TranslateError(where, f"sub-consumers are not started as tasks: {src(elt)[:100]}")
    call = elt.args[0]
    if not (isinstance(call, ast.Call) and src(call.func) == f"{cname}.consume_buffer"):
        raise TranslateError(where, f"task does not run {cname}.consume_buffer: {src(call)[:100]}")
    a = call_args(call, ["buf", "executor"], where, {"executor": ast.Constant(None)})
    if src(a["executor"]) not in ("executor", "None"):
        raise TranslateError(where, f"unexpected executor argument {src(a['executor'])}")
    sl = a["buf"]
    if not (isinstance(sl, ast.Subscript) and src(sl.value) == "buf" and isinstance(sl.slice, ast.Slice) and sl.slice.step is None
            and sl.slice.lower is not None and sl.slice.upper is not None):
        raise TranslateError(where, f"sub-consumer is not handed a slice buf[a:b]: {src(sl)}")
    names = {kname: ("range", cq(kname))}
    lo, hi = range_int(sl.slice.lower, names, where), range_int(sl.slice.upper, names, where)
    out = ("(* batcher.py BatchedBufferConsumer.consume_buffer: the buffer each sub-consumer is handed *)\n"
           "Definition g_batched_deliveries (byte_range_to_buffer_consumer : list ((Z * Z) * Z)) (buf : bytes) : list (Z * bytes) :=\n"
           f"  map (fun kv : (Z * Z) * Z => let {cq(kname)} := fst kv in let {cq(cname)} := snd kv in\n"
           f"         ({cq(cname)}, pyslice buf {lo} {hi}))\n"
           "      byte_range_to_buffer_consumer.\n")
    # 2. waiting for the tasks and retrieving their results
    rest = body[1:]
    retrieved = None
    if (len(rest) >= 1 and isinstance(rest[0], ast.Expr) and isinstance(rest[0].value, ast.Await) and isinstance(rest[0].value.value, ast.Call)):
        c = rest[0].value.value
        f = src(c.func)
        if f == "asyncio.wait" and len(c.args) == 1 and src(c.args[0]) == tasks and not c.keywords:
            # all tasks run to completion; exceptions stay inside the tasks until .result() / .exception() is called
            tail = rest[1:]
            if not tail:
                retrieved = False
            elif (len(tail) == 1 and isinstance(tail[0], ast.For) and src(tail[0].iter) == tasks and isinstance(tail[0].target, ast.Name)
                  and not tail[0].orelse and len(tail[0].body) == 1 and isinstance(tail[0].body[0], ast.Expr)
                  and src(tail[0].body[0].value) == f"{tail[0].target.id}.result()"):
                retrieved = True
            else:
                raise TranslateError(where, f"unsupported statements after asyncio.wait: {src(tail[0])[:100]}")
        elif f == "asyncio.gather" and len(c.args) == 1 and isinstance(c.args[0], ast.Starred) and src(c.args[0].value) == tasks and not c.keywords and len(rest) == 1:
            retrieved = True        # gather without return_exceptions re-raises the first exception
    if retrieved is None:
        raise TranslateError(where, "the sub-consumer tasks are not awaited by asyncio.wait(tasks) [+ result retrieval] or asyncio.gather(*tasks)")
    out += (f"\n(* the results (exceptions) of the sub-consumer tasks are {'retrieved' if retrieved else 'NEVER retrieved'} *)\n"
            f"Definition g_batched_results_retrieved : bool := {'true' if retrieved else 'false'}.\n\n"
            "Definition g_batched_consume {V : Type} (consume_buffer : Z * bytes -> option V) (byte_range_to_buffer_consumer : list ((Z * Z) * Z)) (buf : bytes) : option (list V) :=\n"
            f"  let {cq(tasks)} := map consume_buffer (g_batched_deliveries byte_range_to_buffer_consumer buf) in\n"
            + (f"  rd_all_ok {cq(tasks)}.\n" if retrieved else f"  Some (rd_keep_ok {cq(tasks)}).\n"))
    return out


class BRR:
    """batch_read_requests, statement by statement.  State of the first loop: (batched_read_reqs, location_to_ranged_read_reqs,
    location_to_byte_range)."""

    def __init__(self):
        self.where = "batcher.py:batch_read_requests"
        fn = find_func(parse("torchsnapshot/batcher.py"), "batch_read_requests")
        if argnames(fn) != ["read_reqs"]:
            raise TranslateError(self.where, "signature changed")
        self.body = strip_doc(fn.body)

    def err(self, msg):
        raise TranslateError(self.where, msg)

    def generate(self) -> str:
        body = self.body
        # ---- initialisations
        inits = {}
        i = 0
        while i < len(body) and isinstance(body[i], (ast.Assign, ast.AnnAssign)):
            st = body[i]
            tgt = st.targets[0] if isinstance(st, ast.Assign) else st.target
            if not isinstance(tgt, ast.Name) or st.value is None:
                self.err(f"unsupported initialisation {src(st)}")
            inits[tgt.id] = src(st.value)
            i += 1
        want = {"batched_read_reqs": "[]", "location_to_ranged_read_reqs": "defaultdict(list)", "location_to_byte_range": "{}"}
        if inits != want:
            self.err(f"initial state changed: {inits}")
        loops = body[i:]
        if not (len(loops) == 3 and isinstance(loops[0], ast.For) and isinstance(loops[1], ast.For) and isinstance(loops[2], ast.Return)
                and src(loops[2].value) == "batched_read_reqs"):
            self.err("expected two loops followed by `return batched_read_reqs`")
        l1, l2 = loops[0], loops[1]
        if not (src(l1.iter) == "read_reqs" and isinstance(l1.target, ast.Name) and not l1.orelse):
            self.err("first loop is not `for rr in read_reqs`")
        rr = l1.target.id
        self.names = {rr: ("rreq", cq(rr)), "location_to_byte_range": ("rangedict", "location_to_byte_range")}
        self.rr = rr
        self.refined: str | None = None      # the name bound to rr.byte_range once it is known not to be None
        self.optvar: str | None = None       # the name bound to rr.byte_range (option)
        state = "(batched_read_reqs, location_to_ranged_read_reqs, location_to_byte_range)"
        b1 = self.loop1(list(l1.body), "  ", state)
        out = ("(* batcher.py batch_read_requests, first loop: one step *)\n"
               "Definition g_brr_state := (list rplan * list (Z * list ranged) * list (Z * (Z * Z)))%type.\n\n"
               f"Definition g_brr_loop1 (st : g_brr_state) ({cq(rr)} : rreq) : g_brr_state :=\n"
               f"  let '{state} := st in\n{b1}.\n")
        out += "\n" + self.loop2(l2)
        out += ("\n(* batcher.py batch_read_requests *)\n"
                "Definition g_batch_read_requests (read_reqs : list rreq) : list rplan :=\n"
                f"  let '{state} := fold_left g_brr_loop1 read_reqs ([], [], []) in\n"
                "  fold_left (g_brr_loop2 location_to_byte_range) location_to_ranged_read_reqs batched_read_reqs.\n")
        return out

    # ---- first loop
    def cond1(self, e) -> str:
        if isinstance(e, ast.UnaryOp) and isinstance(e.op, ast.Not):
            return f"(negb {self.cond1(e.operand)})"
        if isinstance(e, ast.Compare) and len(e.ops) == 1 and isinstance(e.ops[0], (ast.In, ast.NotIn)):
            d = e.comparators[0]
            if not (isinstance(d, ast.Name) and self.names.get(d.id, ("", ""))[0] == "rangedict"):
                self.err(f"membership test on {src(d)}")
            t = f"(dict_mem Z.eqb {key_expr(e.left, self.names, self.where)} {self.names[d.id][1]})"
            return t if isinstance(e.ops[0], ast.In) else f"(negb {t})"
        self.err(f"unsupported condition: {src(e)}")

    def dict_assign(self, st) -> tuple[str, str] | None:
        """D[K] = V on location_to_byte_range -> (D, new value of D)"""
        if (isinstance(st, ast.Assign) and len(st.targets) == 1 and isinstance(st.targets[0], ast.Subscript)
                and isinstance(st.targets[0].value, ast.Name) and self.names.get(st.targets[0].value.id, ("", ""))[0] == "rangedict"):
            d = st.targets[0].value.id
            k = key_expr(st.targets[0].slice, self.names, self.where)
            v = range_expr(st.value, self.names, self.where)
            return d, f"dict_set Z.eqb {k} {v} {d}"
        return None

    def loop1(self, body, ind: str, state: str) -> str:
        if not body:
            return f"{ind}{state}"
        st, rest = body[0], body[1:]
        rr = self.rr
        if isinstance(st, ast.Continue):
            return f"{ind}{state}"
        # byte_range = rr.byte_range
        if (isinstance(st, ast.Assign) and len(st.targets) == 1 and isinstance(st.targets[0], ast.Name)
                and src(st.value) == f"{rr}.byte_range"):
            self.optvar = st.targets[0].id
            return f"{ind}let {cq(self.optvar)} := rq_range {cq(rr)} in\n" + self.loop1(rest, ind, state)
        if isinstance(st, ast.If):
            t = st.test
            # if byte_range is None: ...
            if (isinstance(t, ast.Compare) and len(t.ops) == 1 and isinstance(t.ops[0], (ast.Is, ast.IsNot)) and is_none(t.comparators[0])
                    and isinstance(t.left, ast.Name) and t.left.id == self.optvar):
                none_body, some_body = (st.body, st.orelse) if isinstance(t.ops[0], ast.Is) else (st.orelse, st.body)
                v = self.optvar
                self.optvar, self.refined = None, None
                self.isnone = True
                a = self.loop1(list(none_body) + rest, ind + "  ", state)
                self.isnone = False
                self.refined = v
                self.names[v] = ("range", cq(v))
                b = self.loop1(list(some_body) + rest, ind + "  ", state)
                self.names.pop(v, None)
                self.refined = None
                return f"{ind}match {cq(v)} with\n{ind}| None =>\n{a}\n{ind}| Some {cq(v)} =>\n{b}\n{ind}end"
            # if <cond>: D[K] = V   (no else)
            if not st.orelse and len(st.body) == 1 and self.dict_assign(st.body[0]) is not None:
                d, new = self.dict_assign(st.body[0])
                c = self.cond1(t)
                return (f"{ind}let {d} :=\n{ind}  if {c} then\n{ind}    {new}\n{ind}  else {d} in\n" + self.loop1(rest, ind, state))
            self.err(f"unsupported if-statement: {src(st)[:120]}")
        da = self.dict_assign(st)
        if da is not None:
            return f"{ind}let {da[0]} := {da[1]} in\n" + self.loop1(rest, ind, state)
        if isinstance(st, ast.Expr) and isinstance(st.value, ast.Call) and isinstance(st.value.func, ast.Attribute) and st.value.func.attr == "append" \
                and len(st.value.args) == 1 and not st.value.keywords and src(st.value.args[0]) == rr:
            tgt = st.value.func.value
            if src(tgt) == "batched_read_reqs":
                if not getattr(self, "isnone", False):
                    self.err("a request is passed through although its byte_range is not known to be None")
                return f"{ind}let batched_read_reqs := batched_read_reqs ++ [rq_whole {cq(rr)}] in\n" + self.loop1(rest, ind, state)
            if isinstance(tgt, ast.Subscript) and src(tgt.value) == "location_to_ranged_read_reqs":
                if self.refined is None:
                    self.err("a request is grouped by location although its byte_range may be None")
                k = key_expr(tgt.slice, self.names, self.where)
                return (f"{ind}let location_to_ranged_read_reqs := dd_append Z.eqb {k} (rq_ranged {cq(rr)} {cq(self.refined)}) "
                        f"location_to_ranged_read_reqs in\n" + self.loop1(rest, ind, state))
        self.err(f"unsupported statement in the first loop: {src(st)[:120]}")

    # ---- second loop
    def loop2(self, l2: ast.For) -> str:
        if not (src(l2.iter) == "location_to_ranged_read_reqs.items()" and isinstance(l2.target, ast.Tuple) and len(l2.target.elts) == 2
                and all(isinstance(x, ast.Name) for x in l2.target.elts) and not l2.orelse):
            self.err("second loop is not `for location, rrs in location_to_ranged_read_reqs.items()`")
        loc, rrs = (x.id for x in l2.target.elts)
        names = {loc: ("loc", cq(loc)), "location_to_byte_range": ("rangedict", "location_to_byte_range")}
        lines = []
        sub_def = None
        dict_name = None
        req_name = None
        appended = False
        for st in l2.body:
            if appended:
                self.err(f"statement after the merged request was appended: {src(st)[:80]}")
            if isinstance(st, ast.Assign) and len(st.targets) == 1 and isinstance(st.targets[0], ast.Name):
                n = st.targets[0].id
                if src(st.value) == "{}":
                    dict_name = n
                    continue
                if isinstance(st.value, ast.Call) and src(st.value.func) == "ReadReq":
                    a = call_args(st.value, ["path", "buffer_consumer", "byte_range"], self.where)
                    bc = a["buffer_consumer"]
                    if not (isinstance(bc, ast.Call) and src(bc.func) == "BatchedBufferConsumer"):
                        self.err(f"merged request's consumer is not a BatchedBufferConsumer: {src(bc)[:80]}")
                    b = call_args(bc, ["byte_range_to_buffer_consumer", "buf_sz_bytes"], self.where)
                    if not (isinstance(b["byte_range_to_buffer_consumer"], ast.Name) and b["byte_range_to_buffer_consumer"].id == dict_name and sub_def):
                        self.err("BatchedBufferConsumer is not given the dict built in this iteration")
                    lines.append(f"  let {cq(n)} := rq_batched {key_expr(a['path'], names, self.where)} {cq(dict_name)} "
                                 f"{range_int(b['buf_sz_bytes'], names, self.where)} {range_expr(a['byte_range'], names, self.where)} in")
                    req_name = n
                    continue
                lines.append(f"  let {cq(n)} := {range_int(st.value, names, self.where)} in")
                names[n] = ("int", cq(n))
                continue
            if isinstance(st, ast.For):
                if sub_def is not None or dict_name is None:
                    self.err("unexpected inner loop")
                sub_def, params = self.inner(st, rrs, dict_name, names)
                lines.append(f"  let {cq(dict_name)} := g_brr_subranges {' '.join(params)} {cq(rrs)} in")
                continue
            if (isinstance(st, ast.Expr) and isinstance(st.value, ast.Call) and src(st.value.func) == "batched_read_reqs.append"
                    and len(st.value.args) == 1 and req_name is not None and src(st.value.args[0]) == req_name):
                lines.append(f"  batched_read_reqs ++ [{cq(req_name)}]")
                appended = True
                continue
            self.err(f"unsupported statement in the second loop: {src(st)[:120]}")
        if not appended or sub_def is None:
            self.err("the second loop does not append a merged request")
        return (sub_def + "\n(* batcher.py batch_read_requests, second loop: one step *)\n"
                "Definition g_brr_loop2 (location_to_byte_range : list (Z * (Z * Z))) (batched_read_reqs : list rplan) (item : Z * list ranged) : list rplan :=\n"
                f"  let {cq(loc)} := fst item in let {cq(rrs)} := snd item in\n" + "\n".join(lines) + ".\n")

    def inner(self, loop: ast.For, rrs: str, dict_name: str, outer: dict):
        if not (src(loop.iter) == rrs and isinstance(loop.target, ast.Name) and not loop.orelse):
            self.err(f"inner loop is not over {rrs}")
        rr = loop.target.id
        names = dict(outer)
        used: list[str] = []
        lines = []
        rngvar = None
        done = False
        for st in loop.body:
            if done:
                self.err(f"statement after the sub-range was registered: {src(st)[:80]}")
            if isinstance(st, ast.Assign) and len(st.targets) == 1 and isinstance(st.targets[0], ast.Name):
                n = st.targets[0].id
                if src(st.value) == f"{rr}.byte_range":
                    rngvar = n
                    names[n] = ("range", cq(n))
                    lines.append(f"    let {cq(n)} := rg_range {cq(rr)} in")
                    continue
                v = range_expr(st.value, names, self.where)
                names[n] = ("range", cq(n))
                lines.append(f"    let {cq(n)} := {v} in")
                continue
            if (isinstance(st, ast.If) and rngvar is not None and src(st.test) == f"{rngvar} is None" and not st.orelse
                    and len(st.body) == 1 and isinstance(st.body[0], ast.Raise)):
                continue        # unreachable: only requests with a byte range were grouped (their representation carries the range)
            if (isinstance(st, ast.Assign) and len(st.targets) == 1 and isinstance(st.targets[0], ast.Subscript)
                    and src(st.targets[0].value) == dict_name and src(st.value) == f"{rr}.buffer_consumer"):
                k = range_expr(st.targets[0].slice, names, self.where)
                lines.append(f"    dict_set range_eqb {k} (rg_cons {cq(rr)}) {cq(dict_name)}")
                done = True
                continue
            self.err(f"unsupported statement in the inner loop: {src(st)[:120]}")
        if not done:
            self.err("the inner loop registers no sub-range")
        # free integer variables of the outer scope used by the inner loop become parameters
        text = "\n".join(lines)
        params = [g for (ty, g) in outer.values() if ty == "int" and g in text.replace("(", " ").replace(")", " ").replace(",", " ").split()]
        sub = ("(* batcher.py batch_read_requests: the sub-ranges handed to BatchedBufferConsumer (inner loop) *)\n"
               f"Definition g_brr_subranges {' '.join(f'({p} : Z)' for p in params)} ({cq(rrs)} : list ranged) : list ((Z * Z) * Z) :=\n"
               f"  fold_left (fun {cq(dict_name)} {cq(rr)} =>\n{text}) {cq(rrs)} [].\n")
        return sub, params


# =============================================================================== io preparers: prepare_read
def check_readreq_default():
    cls = find_class(parse("torchsnapshot/io_types.py"), "ReadReq")
    fields = {}
    for s in cls.body:
        if isinstance(s, ast.AnnAssign) and isinstance(s.target, ast.Name):
            fields[s.target.id] = None if s.value is None else src(s.value)
    if list(fields) != ["path", "buffer_consumer", "byte_range"] or fields["byte_range"] != "None":
        raise TranslateError("io_types.ReadReq", f"fields changed: {fields}")
    prop = find_func(find_class(parse("torchsnapshot/manifest.py"), "TensorEntry"), "byte_range_tuple")
    body = [src(s) for s in strip_doc(prop.body)]
    if body != ["byte_range = self.byte_range", "if byte_range is None:\n    return None\nelse:\n    return (byte_range[0], byte_range[1])"]:
        raise TranslateError("TensorEntry.byte_range_tuple", f"no longer `None or (byte_range[0], byte_range[1])`: {body}")


class Prep:
    """ReadReq constructions of the prepare_read functions.  ent maps Python expressions denoting a TensorEntry to a
    Gallina term of type rd_tentry (the model keeps, for a chunk / shard, its tensor entry only)."""

    def __init__(self, where: str, ent: dict[str, str], consumers: dict[str, str]):
        self.where, self.ent, self.consumers = where, dict(ent), dict(consumers)

    def err(self, msg):
        raise TranslateError(self.where, msg)

    def entry(self, e) -> str:
        s = src(e)
        if s not in self.ent:
            self.err(f"not a known entry expression: {s}")
        return self.ent[s]

    def consumer(self, e) -> str:
        if isinstance(e, ast.Name) and e.id in self.consumers:
            return self.consumers[e.id]
        if isinstance(e, ast.Call):
            f = src(e.func)
            if f == "TensorBufferConsumer":
                a = call_args(e, ["tensor", "entry"], self.where)
                return f"(GCTensor {self.entry(a['entry'])})"
            if f == "ShardedTensorBufferConsumer":
                a = call_args(e, ["overlapping_regions", "entry"], self.where)
                return f"(GCSharded {self.entry(a['entry'])})"
            if f == "ObjectBufferConsumer":
                call_args(e, ["fut"], self.where)
                return "GCObject"
        self.err(f"unsupported consumer expression: {src(e)[:100]}")

    def readreq(self, e) -> str:
        if not (isinstance(e, ast.Call) and src(e.func) == "ReadReq"):
            self.err(f"not a ReadReq construction: {src(e)[:100]}")
        a = call_args(e, ["path", "buffer_consumer", "byte_range"], self.where, {"byte_range": ast.Constant(None)})
        p = a["path"]
        if not (isinstance(p, ast.Attribute) and p.attr == "location"):
            self.err(f"path of the read request is not an entry's location: {src(p)}")
        loc = self.entry(p.value)
        pobj = loc in ("location",)          # an ObjectEntry is represented by its location
        path = "location" if pobj else f"(te_loc {loc})"
        r = a["byte_range"]
        if is_none(r):
            rng = "None"
        elif isinstance(r, ast.Attribute) and r.attr == "byte_range_tuple" and not pobj:
            rng = f"(te_range {self.entry(r.value)})"
            if self.entry(r.value) != loc:
                self.err("path and byte_range of a read request come from different entries")
        else:
            self.err(f"unsupported byte_range of a read request: {src(r)}")
        c = self.consumer(a["buffer_consumer"])
        if "GCObject" not in c and loc not in c:
            self.err("the consumer of a read request deserializes with a different entry than the one that is read")
        return f"mkGreq {path} {rng} {c}"


ALLOC_T = "tensor_out is None or not cls.can_load_inplace(entry=entry, obj=tensor_out)"
ALLOC_C = "tensor_out is None or not TensorIOPreparer.can_load_inplace(entry=entry, obj=tensor_out)"


def skip_alloc(body, test: str, assign_prefix: str, where: str):
    """`if tensor_out is None or not can_load_inplace(..): tensor_out = empty_tensor_from_entry(entry)`: target allocation"""
    st = body[0]
    if not (isinstance(st, ast.If) and src(st.test) == test and not st.orelse and len(st.body) == 1
            and src(st.body[0]).startswith(assign_prefix)):
        raise TranslateError(where, f"expected the allocation of the target first, found {src(st)[:100]}")
    return body[1:]


def gen_prepare_reads() -> str:
    check_readreq_default()
    out = []
    # ---- TensorIOPreparer.prepare_read
    where = "TensorIOPreparer.prepare_read"
    cls = find_class(parse("torchsnapshot/io_preparers/tensor.py"), "TensorIOPreparer")
    fn = find_func(cls, "prepare_read")
    if argnames(fn) != ["cls", "entry", "tensor_out", "buffer_size_limit_bytes"]:
        raise TranslateError(where, "signature changed")
    body = skip_alloc(strip_doc(fn.body), ALLOC_T, "tensor_out = cls.empty_tensor_from_entry(entry)", where)
    if not (len(body) >= 2 and isinstance(body[0], ast.If) and not body[0].orelse and len(body[0].body) == 1 and isinstance(body[0].body[0], ast.Return)):
        raise TranslateError(where, "expected `if <tiled condition>: return cls.prepare_read_tiled(...)`")
    t = Fn(where, {"entry": ("entry", "entry")}, "pyval")

    def tiled_cond(e) -> str:
        if isinstance(e, ast.BoolOp):
            return "(" + (" || " if isinstance(e.op, ast.Or) else " && ").join(tiled_cond(v) for v in e.values) + ")"
        if (isinstance(e, ast.Compare) and len(e.ops) == 1 and isinstance(e.ops[0], (ast.Is, ast.IsNot)) and is_none(e.comparators[0])
                and src(e.left) == "buffer_size_limit_bytes"):
            return "(is_some buffer_size_limit_bytes)" if isinstance(e.ops[0], ast.IsNot) else "(negb (is_some buffer_size_limit_bytes))"
        return t.cond(e)
    cond = tiled_cond(body[0].test)
    call = body[0].body[0].value
    if not (isinstance(call, ast.Call) and src(call.func) == "cls.prepare_read_tiled"):
        raise TranslateError(where, f"tiled branch returns {src(call)[:80]}")
    a = call_args(call, ["entry", "tensor_out", "buffer_size_limit_bytes"], where)
    if src(a["entry"]) != "entry" or src(a["buffer_size_limit_bytes"]) != "buffer_size_limit_bytes" or src(a["tensor_out"]) != "tensor_out":
        raise TranslateError(where, f"prepare_read_tiled is called with other arguments: {src(call)}")
    p = Prep(where, {"entry": "entry"}, {})
    rest = body[1:]
    if isinstance(rest[0], ast.Assign) and isinstance(rest[0].targets[0], ast.Name) and isinstance(rest[0].value, ast.Call):
        p.consumers[rest[0].targets[0].id] = p.consumer(rest[0].value)
        rest = rest[1:]
    if not (len(rest) == 1 and isinstance(rest[0], ast.Return) and isinstance(rest[0].value, ast.Tuple) and len(rest[0].value.elts) == 2
            and isinstance(rest[0].value.elts[0], ast.List) and src(rest[0].value.elts[1]) == "Future(obj=tensor_out)"):
        raise TranslateError(where, "expected `return [ReadReq(...)], Future(obj=tensor_out)`")
    reqs = "; ".join(p.readreq(x) for x in rest[0].value.elts[0].elts)
    out.append("(* io_preparers/tensor.py TensorIOPreparer.prepare_read (prepare_read_tiled: model/ReadPathPrims.v, C16) *)\n"
               "Definition g_tensor_prepare_read (buffer_size_limit_bytes : option Z) (entry : rd_tentry) : option (list greq) :=\n"
               f"  if {cond} then\n    pp_prepare_read_tiled entry buffer_size_limit_bytes\n  else\n    Some [{reqs}].\n")

    # ---- ChunkedTensorIOPreparer.prepare_read
    where = "ChunkedTensorIOPreparer.prepare_read"
    cls = find_class(parse("torchsnapshot/io_preparers/chunked_tensor.py"), "ChunkedTensorIOPreparer")
    fn = find_func(cls, "prepare_read")
    if argnames(fn) != ["cls", "entry", "tensor_out", "buffer_size_limit_bytes"]:
        raise TranslateError(where, "signature changed")
    body = skip_alloc(strip_doc(fn.body), ALLOC_C, "tensor_out = TensorIOPreparer.empty_tensor_from_entry(entry)", where)
    if not (len(body) == 3 and src(body[0]) == "read_reqs = []" and isinstance(body[1], ast.For) and src(body[1].iter) == "entry.chunks"
            and isinstance(body[1].target, ast.Name) and not body[1].orelse and src(body[2]) == "return (read_reqs, Future(obj=tensor_out))"):
        raise TranslateError(where, "expected `read_reqs = []; for chunk in entry.chunks: ...; return read_reqs, Future(obj=tensor_out)`")
    ch = body[1].target.id
    lb = body[1].body
    view = None
    if len(lb) == 3 and isinstance(lb[0], ast.Assign) and src(lb[0].value) == f"cls._get_subtensor_view(tensor_out, {ch})":
        view = src(lb[0].targets[0])
        lb = lb[1:]
    if not (len(lb) == 2 and isinstance(lb[0], ast.Assign) and isinstance(lb[0].targets[0], ast.Tuple) and len(lb[0].targets[0].elts) == 2
            and isinstance(lb[0].value, ast.Call) and src(lb[0].value.func) == "TensorIOPreparer.prepare_read"
            and isinstance(lb[1], ast.AugAssign) and isinstance(lb[1].op, ast.Add) and src(lb[1].target) == "read_reqs"):
        raise TranslateError(where, "unsupported loop body")
    a = call_args(lb[0].value, ["entry", "tensor_out", "buffer_size_limit_bytes"], where,
                  {"tensor_out": ast.Constant(None), "buffer_size_limit_bytes": ast.Constant(None)})
    if src(a["entry"]) != f"{ch}.tensor":
        raise TranslateError(where, f"the chunk is read with the entry {src(a['entry'])}, not {ch}.tensor")
    if view is None or src(a["tensor_out"]) != view:
        raise TranslateError(where, "the chunk is not loaded into its view of the target")
    lim = "None" if is_none(a["buffer_size_limit_bytes"]) else ("buffer_size_limit_bytes" if src(a["buffer_size_limit_bytes"]) == "buffer_size_limit_bytes" else None)
    if lim is None:
        raise TranslateError(where, f"unsupported buffer limit for a chunk: {src(a['buffer_size_limit_bytes'])}")
    got = lb[0].targets[0].elts[0]
    if not (isinstance(got, ast.Name) and src(lb[1].value) == got.id):
        raise TranslateError(where, "the chunk's read requests are not the ones appended")
    out.append("(* io_preparers/chunked_tensor.py ChunkedTensorIOPreparer.prepare_read; a chunk is represented by its tensor entry *)\n"
               "Definition g_chunked_prepare_read (buffer_size_limit_bytes : option Z) (chunks : list rd_tentry) : option (list greq) :=\n"
               f"  fold_left (fun read_reqs {cq(ch)} =>\n"
               "    obind read_reqs (fun read_reqs =>\n"
               f"    obind (g_tensor_prepare_read {lim} {cq(ch)}) (fun {cq(got.id)} =>\n"
               f"    Some (read_reqs ++ {cq(got.id)})))) chunks (Some []).\n")

    # ---- ShardedTensorIOPreparer.prepare_read: the loop that emits the read requests
    where = "ShardedTensorIOPreparer.prepare_read"
    cls = find_class(parse("torchsnapshot/io_preparers/sharded_tensor.py"), "ShardedTensorIOPreparer")
    fn = find_func(cls, "prepare_read")
    body = strip_doc(fn.body)
    if not (len(body) >= 3 and src(body[-3]) == "read_reqs = []" and isinstance(body[-2], ast.For) and src(body[-2].iter) == "entry.shards"
            and isinstance(body[-2].target, ast.Name) and not body[-2].orelse and src(body[-1]) == "return (read_reqs, Future(obj=obj_out))"):
        raise TranslateError(where, "expected `read_reqs = []; for shard in entry.shards: ...; return read_reqs, Future(obj=obj_out)` at the end")
    for s in body[:-3]:
        for n in ast.walk(s):
            if isinstance(n, ast.Name) and n.id == "read_reqs":
                raise TranslateError(where, "read_reqs is used before the emitting loop")
    sh = body[-2].target.id
    lb = list(body[-2].body)
    key = None
    if isinstance(lb[0], ast.Assign) and isinstance(lb[0].targets[0], ast.Name):
        if src(lb[0].value) != f"({sh}.tensor.location, {sh}.tensor.byte_range_tuple)":
            raise TranslateError(where, f"overlap key is not the shard's (location, byte range): {src(lb[0].value)}")
        key = lb[0].targets[0].id
        lb = lb[1:]
    note = ""
    if (key and isinstance(lb[0], ast.If) and src(lb[0].test) == f"{key} not in path_byte_range_to_overlapping_regions" and not lb[0].orelse
            and len(lb[0].body) == 1 and isinstance(lb[0].body[0], ast.Continue)):
        note = "(* note: saved shards that do not overlap the target are skipped; the model's entry lists the overlapping ones *)\n"
        lb = lb[1:]
    if not (len(lb) == 1 and isinstance(lb[0], ast.Expr) and isinstance(lb[0].value, ast.Call) and src(lb[0].value.func) == "read_reqs.append"
            and len(lb[0].value.args) == 1):
        raise TranslateError(where, "unsupported loop body")
    p = Prep(where, {f"{sh}.tensor": cq(sh)}, {})
    rq = p.readreq(lb[0].value.args[0])
    out.append("(* io_preparers/sharded_tensor.py ShardedTensorIOPreparer.prepare_read; a shard is represented by its tensor entry *)\n" + note +
               "Definition g_sharded_prepare_read (shards : list rd_tentry) : list greq :=\n"
               f"  fold_left (fun read_reqs {cq(sh)} =>\n    read_reqs ++ [{rq}]) shards [].\n")

    # ---- ObjectIOPreparer.prepare_read
    where = "ObjectIOPreparer.prepare_read"
    cls = find_class(parse("torchsnapshot/io_preparers/object.py"), "ObjectIOPreparer")
    fn = find_func(cls, "prepare_read")
    body = strip_doc(fn.body)
    p = Prep(where, {"entry": "location"}, {})
    for st in body[:-1]:
        if not (isinstance(st, ast.Assign) and isinstance(st.targets[0], ast.Name)):
            raise TranslateError(where, f"unsupported statement {src(st)[:80]}")
        if src(st.value) == "Future(obj=obj_out)":
            continue
        p.consumers[st.targets[0].id] = p.consumer(st.value)
    r = body[-1]
    if not (isinstance(r, ast.Return) and isinstance(r.value, ast.Tuple) and len(r.value.elts) == 2 and isinstance(r.value.elts[0], ast.List)):
        raise TranslateError(where, "expected `return [ReadReq(...)], fut`")
    reqs = "; ".join(p.readreq(x) for x in r.value.elts[0].elts)
    out.append("(* io_preparers/object.py ObjectIOPreparer.prepare_read; an ObjectEntry is represented by its location *)\n"
               f"Definition g_object_prepare_read (location : Z) : list greq :=\n  [{reqs}].\n")
    return "\n".join(out)


# =============================================================================== scheduler.py
def gen_sched() -> str:
    mod = parse("torchsnapshot/scheduler.py")
    cls = find_class(mod, "_ReadPipeline")
    # ---- read_buffer
    where = "_ReadPipeline.read_buffer"
    fn = find_func(cls, "read_buffer")
    body = [src(s) for s in strip_doc(fn.body)]
    if len(body) < 3 or not body[0].startswith("read_io = ReadIO("):
        raise TranslateError(where, f"unexpected body {body}")
    c = strip_doc(fn.body)[0].value
    a = call_args(c, ["path", "byte_range"], where, {"byte_range": ast.Constant(None)})
    path = {"self.read_req.path": "path"}.get(src(a["path"]))
    rng = {"self.read_req.byte_range": "byte_range", "None": "None"}.get(src(a["byte_range"]))
    if path is None or rng is None:
        raise TranslateError(where, f"ReadIO is built from {src(a['path'])} / {src(a['byte_range'])}")
    if body[1] not in ("await self.storage.read(read_io=read_io)", "await self.storage.read(read_io)"):
        raise TranslateError(where, f"storage read changed: {body[1]}")
    if body[2] != "self.buf = read_io.buf.getvalue()":
        raise TranslateError(where, f"the buffer is not the whole of what storage returned: {body[2]}")
    if body[3:] != ["self.buf_sz_bytes = len(self.buf)", "return self"]:
        raise TranslateError(where, f"unexpected tail {body[3:]}")
    out = ("(* scheduler.py _ReadPipeline.read_buffer: ReadIO(path, byte_range) of the request; the buffer is everything storage returned *)\n"
           "Definition g_pipeline_read_buffer (storage_read : Z -> option (Z * Z) -> option bytes) (path : Z) (byte_range : option (Z * Z)) : option bytes :=\n"
           f"  storage_read {path} {rng}.\n")
    # ---- consume_buffer
    where = "_ReadPipeline.consume_buffer"
    fn = find_func(cls, "consume_buffer")
    body = [src(s) for s in strip_doc(fn.body)]
    if body and body[0].startswith("if self.buf is None:\n    raise "):
        body = body[1:]
    if body != ["await self.read_req.buffer_consumer.consume_buffer(self.buf, executor)", "self.buf = None", "return self"]:
        raise TranslateError(where, f"unexpected body {body}")
    out += ("\n(* scheduler.py _ReadPipeline.consume_buffer: the request's consumer on the whole buffer that was read *)\n"
            "Definition g_pipeline_consume_buffer {V : Type} (consume_buffer : bytes -> option V) (buf : bytes) : option V :=\n"
            "  consume_buffer buf.\n")
    # ---- execute_read_reqs: every request becomes a pipeline; results of the io and consuming tasks are retrieved
    where = "execute_read_reqs"
    er = find_func(mod, "execute_read_reqs")
    for n in ast.walk(er):
        if isinstance(n, ast.Try):
            raise TranslateError(where, "try statement: a failed read / consumer task must make the call raise")
    top = [src(s) for s in er.body]
    for need in ("read_pipelines = [_ReadPipeline(read_req, storage) for read_req in read_reqs]", "pending_ids = set(range(len(read_pipelines)))"):
        if need not in top:
            raise TranslateError(where, f"missing `{need}`: not every request becomes a pipeline")
    wl = [n for n in er.body if isinstance(n, ast.While)]
    if len(wl) != 1:
        raise TranslateError(where, "expected one while loop")
    disp = [n for n in ast.walk(wl[0]) if isinstance(n, ast.Assign) and src(n.value) == "asyncio.create_task(read_pipeline.read_buffer())"]
    if len(disp) != 1 or "read_pipeline = read_pipelines[i]" not in [src(n) for n in ast.walk(wl[0]) if isinstance(n, ast.Assign)]:
        raise TranslateError(where, "dispatch no longer starts read_pipelines[i].read_buffer() as a task")
    fl = [n for n in wl[0].body if isinstance(n, ast.For) and src(n.iter) == "done"]
    if len(fl) != 1:
        raise TranslateError(where, "expected one `for d in done` loop")
    d = src(fl[0].target)
    br = [n for n in fl[0].body if isinstance(n, ast.If)]
    if [src(b.test) for b in br] != [f"{d} in io_tasks", f"{d} in consuming_tasks"] or len(br) != len(fl[0].body):
        raise TranslateError(where, "completion branches changed")

    def retrieved(branch, allowed) -> str | None:
        """the name bound to `d.result()` at the top level of a completion branch ('' if the value is dropped, None if the
        result is never retrieved); every other statement of the branch must be one of the known bookkeeping statements"""
        got = None
        for s in branch.body:
            if isinstance(s, (ast.Assign, ast.AnnAssign)) and s.value is not None and src(s.value) == f"{d}.result()":
                t = s.targets[0] if isinstance(s, ast.Assign) else s.target
                got = src(t)
            elif isinstance(s, ast.Expr) and src(s.value) == f"{d}.result()":
                got = ""
            elif not allowed(s):
                raise TranslateError(where, f"unexpected statement in the `{src(branch.test)}` branch: {src(s)[:100]}")
        return got
    io_stmts = (f"io_tasks.remove({d})", "consuming_tasks.add(consuming_task)")
    io_var = retrieved(br[0], lambda s: src(s) in io_stmts or src(s).startswith("consuming_task = asyncio.create_task("))
    if not io_var:
        raise TranslateError(where, "the result of a completed read task is not retrieved (nothing to consume)")
    chain = [src(s) for s in br[0].body]
    if f"io_tasks.remove({d})" not in chain or f"consuming_task = asyncio.create_task({io_var}.consume_buffer(executor))" not in chain \
            or "consuming_tasks.add(consuming_task)" not in chain:
        raise TranslateError(where, f"a completed read is no longer handed to its consumer: {chain}")
    cons = retrieved(br[1], lambda s: src(s) == f"consuming_tasks.remove({d})"
                     or (isinstance(s, ast.AugAssign) and src(s.target) in ("memory_budget_bytes", "bytes_read")))
    if f"consuming_tasks.remove({d})" not in [src(s) for s in br[1].body]:
        raise TranslateError(where, "a completed consuming task is not removed")
    out += ("\n(* scheduler.py execute_read_reqs: `d.result()` in the two completion branches re-raises a task's exception *)\n"
            "Definition g_exec_io_result_retrieved : bool := true.\n"
            f"Definition g_exec_consume_result_retrieved : bool := {'true' if cons is not None else 'false'}.\n\n"
            "(* every request becomes a pipeline: read, then (chained by the io branch) consume; the scheduling loop itself is\n"
            "   C11's (exactly once, termination), the outcome is independent of the order *)\n"
            "Definition g_execute_read_reqs {R V : Type} (read_buffer : R -> option bytes) (consume_buffer : R -> bytes -> option V) (read_reqs : list R) : option (list V) :=\n"
            "  let outcomes := map (fun read_pipeline => obind (read_buffer read_pipeline) (fun buf => consume_buffer read_pipeline buf)) read_reqs in\n"
            + ("  rd_all_ok outcomes.\n" if cons is not None else "  Some (rd_keep_ok outcomes).\n"))
    return out


def generate() -> dict[str, str]:
    check_serializer_enum()
    text = ("(* GENERATED by translator/gen_readpath.py from torchsnapshot/{serialization,batcher,scheduler,io_types,manifest}.py and\n"
            "   io_preparers/{tensor,chunked_tensor,sharded_tensor,object}.py - do not edit. *)\n"
            "From TS Require Import model.Base model.FsStream model.Chunk model.Batch model.ReadDamage model.ReadPathPrims.\n\n"
            + gen_serialization() + "\n" + gen_consumers() + "\n" + gen_batched_consumer() + "\n" + BRR().generate() + "\n"
            + gen_prepare_reads() + "\n" + gen_sched())
    return {"ReadPathGen": text}
