"""T-dispatch (C01, C05, C18): Python ast -> Gallina for the routing code of io_preparer.py and the location strings.

    get_storage_path                      -> g_storage_path sharded replicated rank logical_path          (pystr)
    prepare_write (the isinstance chain)  -> g_write_kind inline is_sharded_tensor is_dtensor is_tensor nbytes knob
                                             : wkind * bool      (bool: `entry.replicated = replicated` executed on that path)
    prepare_read  (the isinstance chain)  -> g_read_kind cls : option (rkind * bool)   (bool: buffer_size_limit_bytes passed on)
    manifest.py class statements          -> g_entry_parent cls : option eclass   (what isinstance(entry, X) means)
    ChunkedTensorIOPreparer.prepare_write -> g_chunk_location storage_path offsets         (f"{storage_path}_{suffix}")
    ShardedTensorIOPreparer.prepare_write -> g_shard_location storage_path offsets
    batcher.Slab.__init__                 -> g_slab_location uuid
    Snapshot._gather_manifest             -> g_manifest_path rank logical_path

Fail closed: an unknown test, an unknown call, a changed literal form or a changed statement shape raises
TranslateError.  Vocabulary (model/Dispatch.v, model/StoragePath.v, model/Flatten.v): os_join, str_of_Z, joinc,
wkind / rkind / eclass constructors, is_a.
"""
from __future__ import annotations

import ast

from translator.pyast import TranslateError, find_class, find_func, parse, src

OUTPUTS = ["DispatchGen"]

ECLASS = {"Entry": "EEntry", "TensorEntry": "ETensor", "ShardedTensorEntry": "ESharded", "ChunkedTensorEntry": "EChunked",
          "DTensorEntry": "EDTensor", "ObjectEntry": "EObject", "ListEntry": "EList", "DictEntry": "EDict",
          "OrderedDictEntry": "EOrderedDict", "PrimitiveEntry": "EPrimitive"}
WPREP = {"ShardedTensorIOPreparer": "WSharded", "DTensorIOPreparer": "WDTensor", "ChunkedTensorIOPreparer": "WChunked",
         "TensorIOPreparer": "WTensor", "ObjectIOPreparer": "WObject", "PrimitivePreparer": "WPrimitive"}
RPREP = {k: "R" + v[1:] for k, v in WPREP.items()}


def lit(s: str) -> str:
    return "[" + "; ".join(str(ord(c)) for c in s) + "]"


# ------------------------------------------------------------------------------- strings
class S:
    def __init__(self, where, names, ints=()):
        self.where, self.names, self.ints = where, set(names), set(ints)

    def s(self, e: ast.AST) -> str:
        if isinstance(e, ast.Constant) and isinstance(e.value, str):
            return lit(e.value)
        if isinstance(e, ast.Name) and e.id in self.names:
            return e.id
        if isinstance(e, ast.Call) and src(e.func) == "os.path.join" and len(e.args) == 2 and not e.keywords:
            return f"(os_join {self.s(e.args[0])} {self.s(e.args[1])})"
        if isinstance(e, ast.Call) and src(e.func) == "str" and len(e.args) == 1 and isinstance(e.args[0], ast.Name) and e.args[0].id in self.ints:
            return f"(str_of_Z {e.args[0].id})"
        if isinstance(e, ast.JoinedStr):
            parts = []
            for v in e.values:
                if isinstance(v, ast.Constant) and isinstance(v.value, str):
                    parts.append(lit(v.value))
                elif isinstance(v, ast.FormattedValue) and v.conversion == -1 and v.format_spec is None:
                    parts.append(self.s(v.value))
                else:
                    raise TranslateError(self.where, f"unsupported f-string part in {src(e)}")
            return "(" + " ++ ".join(parts) + ")"
        raise TranslateError(self.where, f"unsupported string expression: {src(e)}")


def gen_storage_path() -> str:
    mod = parse("torchsnapshot/io_preparer.py")
    fn = find_func(mod, "get_storage_path")
    where = "io_preparer.get_storage_path"
    if [a.arg for a in fn.args.args] != ["obj", "logical_path", "rank", "replicated"]:
        raise TranslateError(where, "signature changed")
    body = [s for s in fn.body if not (isinstance(s, ast.Expr) and isinstance(s.value, ast.Constant))]
    if src(body[0]) != "sharded = is_sharded(obj)":
        raise TranslateError(where, f"first statement is {src(body[0])}")
    st = S(where, {"logical_path"}, {"rank"})

    def cond(e):
        if isinstance(e, ast.Name) and e.id in ("sharded", "replicated"):
            return e.id
        if isinstance(e, ast.UnaryOp) and isinstance(e.op, ast.Not):
            return f"(negb {cond(e.operand)})"
        if isinstance(e, ast.BoolOp):
            return "(" + (" && " if isinstance(e.op, ast.And) else " || ").join(cond(v) for v in e.values) + ")"
        raise TranslateError(where, f"unsupported condition {src(e)}")

    def chain(stmts):
        if len(stmts) != 1:
            raise TranslateError(where, f"expected a single if/return, got {[src(s)[:40] for s in stmts]}")
        s0 = stmts[0]
        if isinstance(s0, ast.Return):
            return st.s(s0.value)
        if isinstance(s0, ast.If):
            return f"(if {cond(s0.test)} then {chain(s0.body)} else {chain(s0.orelse)})"
        raise TranslateError(where, f"unsupported statement {src(s0)[:60]}")
    return ("(* io_preparer.get_storage_path *)\n"
            "Definition g_storage_path (sharded replicated : bool) (rank : Z) (logical_path : pystr) : pystr :=\n  "
            + chain(body[1:]) + ".\n")


def gen_is_sharded() -> str:
    """dtensor_utils.is_sharded: ShardedTensor -> True; DTensor -> any Shard placement; else False"""
    fn = find_func(parse("torchsnapshot/dtensor_utils.py"), "is_sharded")
    where = "dtensor_utils.is_sharded"
    body = [s for s in fn.body if not (isinstance(s, ast.Expr) and isinstance(s.value, ast.Constant))]
    want = ["if isinstance(tensor, ShardedTensor):\n    return True\nelif isinstance(tensor, DTensor):\n    for placement in tensor.placements:\n        if isinstance(placement, Shard):\n            return True",
            "return False"]
    if [src(s) for s in body] != want:
        raise TranslateError(where, "body changed: " + " | ".join(src(s)[:80] for s in body))
    return ("(* dtensor_utils.is_sharded (shape checked verbatim by the translator) *)\n"
            "Definition g_is_sharded (is_sharded_tensor is_dtensor has_shard_placement : bool) : bool :=\n"
            "  if is_sharded_tensor then true else if is_dtensor then has_shard_placement else false.\n")


# ------------------------------------------------------------------------------- prepare_write
def gen_write_kind() -> str:
    mod = parse("torchsnapshot/io_preparer.py")
    fn = find_func(mod, "prepare_write")
    where = "io_preparer.prepare_write"
    body = [s for s in fn.body if not (isinstance(s, ast.Expr) and isinstance(s.value, ast.Constant))]
    # 1. inline branch
    b0 = body[0]
    if not (isinstance(b0, ast.If) and src(b0.test) == "PrimitivePreparer.should_inline(obj)" and not b0.orelse):
        raise TranslateError(where, f"first statement is not the should_inline test: {src(b0)[:80]}")
    inl = [src(s) for s in b0.body]
    if inl[0] != "entry = PrimitivePreparer.prepare_write(obj)" or inl[-1] != "return (entry, [])":
        raise TranslateError(where, f"inline branch changed: {inl}")
    inline_sets = "entry.replicated = replicated" in inl
    if len(inl) != 2 + int(inline_sets):
        raise TranslateError(where, f"inline branch has unexpected statements: {inl}")
    if src(body[1]) != "storage_path = get_storage_path(obj, logical_path, rank, replicated)":
        raise TranslateError(where, f"storage_path computation changed: {src(body[1])}")
    chain = body[2]
    tail = [src(s) for s in body[3:]]
    if tail not in (["entry.replicated = replicated", "return (entry, obj_write_req)"], ["return (entry, obj_write_req)"]):
        raise TranslateError(where, f"tail changed: {tail}")
    tail_sets = "true" if len(tail) == 2 else "false"
    TESTS = {"isinstance(obj, ShardedTensor)": "is_sharded_tensor", "isinstance(obj, DTensor)": "is_dtensor",
             "isinstance(obj, torch.Tensor)": "is_tensor",
             "obj.nelement() * obj.element_size() > get_max_chunk_size_bytes()": "(nbytes >? knob)",
             "obj.nelement() * obj.element_size() >= get_max_chunk_size_bytes()": "(nbytes >=? knob)"}

    def prep_of_call(c: ast.AST) -> str:
        if isinstance(c, ast.Call) and isinstance(c.func, ast.Attribute) and c.func.attr == "prepare_write" and isinstance(c.func.value, ast.Name) \
                and c.func.value.id in WPREP:
            kws = {k.arg: src(k.value) for k in c.keywords}
            for k, v in kws.items():
                if k in ("storage_path", "is_async_snapshot", "_tensor_prepare_func") and v != k:
                    raise TranslateError(where, f"{c.func.value.id}.prepare_write gets {k}={v}")
            if c.func.value.id != "ObjectIOPreparer":
                if kws.get("storage_path") != "storage_path" or "is_async_snapshot" not in kws:
                    raise TranslateError(where, f"{c.func.value.id}.prepare_write no longer receives storage_path/is_async_snapshot")
                obj_kw = kws.get("obj", kws.get("tensor"))
                if obj_kw != "obj":
                    raise TranslateError(where, f"{c.func.value.id}.prepare_write is not given obj")
            elif [src(a) for a in c.args] != ["storage_path", "obj"]:
                raise TranslateError(where, "ObjectIOPreparer.prepare_write arguments changed")
            return WPREP[c.func.value.id]
        raise TranslateError(where, f"unsupported call {src(c)[:80]}")

    def arm(stmts) -> str:
        stmts = list(stmts)
        if len(stmts) == 1 and isinstance(stmts[0], ast.Return):                       # return X.prepare_write(...)
            return f"({prep_of_call(stmts[0].value)}, false)"
        if len(stmts) == 1 and isinstance(stmts[0], ast.If):
            return walk(stmts[0])
        # [chunking_instruction = ...;] entry, obj_write_req = X.prepare_write(...)
        if stmts and src(stmts[0]) == "chunking_instruction = ChunkedTensorIOPreparer.chunk_tensor(obj)":
            stmts = stmts[1:]
        if len(stmts) == 1 and isinstance(stmts[0], ast.Assign) and src(stmts[0].targets[0]) == "(entry, obj_write_req)":
            return f"({prep_of_call(stmts[0].value)}, {tail_sets})"
        raise TranslateError(where, f"unsupported branch {[src(s)[:60] for s in stmts]}")

    def walk(node: ast.If) -> str:
        t = src(node.test)
        if t not in TESTS:
            raise TranslateError(where, f"unknown test {t}")
        if not node.orelse:
            raise TranslateError(where, f"test {t} has no else branch")
        return f"(if {TESTS[t]} then {arm(node.body)} else {arm(node.orelse)})"

    if not isinstance(chain, ast.If):
        raise TranslateError(where, "dispatch chain not found")
    return ("(* io_preparer.prepare_write: the routing of an object to its preparer; second component: whether\n"
            "   `entry.replicated = replicated` is executed on that path *)\n"
            "Definition g_write_kind (inline is_sharded_tensor is_dtensor is_tensor : bool) (nbytes knob : Z) : wkind * bool :=\n"
            f"  if inline then (WPrimitive, {'true' if inline_sets else 'false'}) else\n  {walk(chain)}.\n")


# ------------------------------------------------------------------------------- prepare_read
def gen_read_kind() -> str:
    mod = parse("torchsnapshot/io_preparer.py")
    fn = find_func(mod, "prepare_read")
    where = "io_preparer.prepare_read"
    if [a.arg for a in fn.args.args] != ["entry", "obj_out", "buffer_size_limit_bytes"]:
        raise TranslateError(where, "signature changed")
    body = [s for s in fn.body if not (isinstance(s, ast.Expr) and isinstance(s.value, ast.Constant))]
    if len(body) != 1 or not isinstance(body[0], ast.If):
        raise TranslateError(where, "expected one if/elif chain")

    def walk(node) -> str:
        if isinstance(node, list):
            if len(node) == 1 and isinstance(node[0], ast.If):
                return walk(node[0])
            if len(node) == 1 and isinstance(node[0], ast.Raise):
                return "None"
            raise TranslateError(where, f"unsupported else branch {[src(s)[:60] for s in node]}")
        t = node.test
        if not (isinstance(t, ast.Call) and src(t.func) == "isinstance" and len(t.args) == 2 and src(t.args[0]) == "entry" and src(t.args[1]) in ECLASS):
            raise TranslateError(where, f"unknown test {src(t)}")
        if len(node.body) != 1 or not isinstance(node.body[0], ast.Return):
            raise TranslateError(where, f"branch of {src(t)} is not a single return")
        c = node.body[0].value
        if not (isinstance(c, ast.Call) and isinstance(c.func, ast.Attribute) and c.func.attr == "prepare_read" and isinstance(c.func.value, ast.Name)
                and c.func.value.id in RPREP):
            raise TranslateError(where, f"unsupported call {src(c)[:80]}")
        args = [src(a) for a in c.args]
        if c.func.value.id == "PrimitivePreparer":
            if args != ["entry"]:
                raise TranslateError(where, "PrimitivePreparer.prepare_read arguments changed")
        elif args != ["entry", "obj_out"]:
            raise TranslateError(where, f"{c.func.value.id}.prepare_read arguments changed: {args}")
        kws = {k.arg: src(k.value) for k in c.keywords}
        if set(kws) - {"buffer_size_limit_bytes"} or kws.get("buffer_size_limit_bytes", "buffer_size_limit_bytes") != "buffer_size_limit_bytes":
            raise TranslateError(where, f"unexpected keywords {kws}")
        lim = "true" if "buffer_size_limit_bytes" in kws else "false"
        return f"(if is_a g_entry_parent cls {ECLASS[src(t.args[1])]} then Some ({RPREP[c.func.value.id]}, {lim}) else {walk(node.orelse)})"
    return ("(* io_preparer.prepare_read: the routing of an entry to its preparer; second component: whether\n"
            "   buffer_size_limit_bytes is passed on; None = `raise Exception(\"Unsupported entry type\")` *)\n"
            "Definition g_read_kind (cls : eclass) : option (rkind * bool) :=\n  " + walk(body[0]) + ".\n")


def gen_entry_parent() -> str:
    mod = parse("torchsnapshot/manifest.py")
    arms = []
    seen = set()
    for n in mod.body:
        if isinstance(n, ast.ClassDef) and n.name in ECLASS:
            bases = [src(b) for b in n.bases]
            if n.name == "Entry":
                if bases:
                    raise TranslateError("manifest.Entry", f"has bases {bases}")
                arms.append("  | EEntry => None")
            else:
                if len(bases) != 1 or bases[0] not in ECLASS:
                    raise TranslateError(f"manifest.{n.name}", f"bases {bases}")
                arms.append(f"  | {ECLASS[n.name]} => Some {ECLASS[bases[0]]}")
            seen.add(n.name)
    if seen != set(ECLASS):
        raise TranslateError("manifest.py", f"entry classes changed: missing {sorted(set(ECLASS) - seen)}")
    extra = [n.name for n in mod.body if isinstance(n, ast.ClassDef) and n.name.endswith("Entry") and n.name not in ECLASS]
    if extra:
        raise TranslateError("manifest.py", f"new entry classes {extra}")
    return ("(* manifest.py: the base class of every entry class (what isinstance means) *)\n"
            "Definition g_entry_parent (c : eclass) : option eclass :=\n  match c with\n" + "\n".join(arms) + "\n  end.\n")


# ------------------------------------------------------------------------------- piece / slab / manifest locations
def piece_location(rel: str, cls: str, offs_expr: str, name: str) -> str:
    fn = find_func(find_class(parse(rel), cls), "prepare_write")
    where = f"{cls}.prepare_write"
    sufs = [n for n in ast.walk(fn) if isinstance(n, ast.Assign) and src(n.targets[0]) == "suffix"]
    if len(sufs) != 1:
        raise TranslateError(where, f"expected one assignment to suffix, found {len(sufs)}")
    v = sufs[0].value
    # "_".join(str(x) for x in <offsets>)
    ok = (isinstance(v, ast.Call) and isinstance(v.func, ast.Attribute) and v.func.attr == "join" and isinstance(v.func.value, ast.Constant)
          and isinstance(v.func.value.value, str) and len(v.func.value.value) == 1 and len(v.args) == 1 and isinstance(v.args[0], ast.GeneratorExp))
    if not ok:
        raise TranslateError(where, f"suffix is {src(v)}")
    g = v.args[0]
    if not (len(g.generators) == 1 and not g.generators[0].ifs and src(g.generators[0].iter) == offs_expr
            and src(g.elt) == f"str({src(g.generators[0].target)})"):
        raise TranslateError(where, f"suffix generator is {src(g)}")
    sep = ord(v.func.value.value)
    sps = [k.value for n in ast.walk(fn) if isinstance(n, ast.Call) and src(n.func).endswith("TensorIOPreparer.prepare_write")
           for k in n.keywords if k.arg == "storage_path"]
    if len(sps) != 1:
        raise TranslateError(where, f"expected one storage_path= argument, found {len(sps)}")
    st = S(where, {"storage_path", "suffix"})
    return (f"(* {cls}.prepare_write: suffix = {src(v)};  storage_path={src(sps[0])} *)\n"
            f"Definition {name} (storage_path : pystr) (offsets : list Z) : pystr :=\n"
            f"  let suffix := joinc {sep} (map str_of_Z offsets) in\n  {st.s(sps[0])}.\n")


def gen_slab_location() -> str:
    cls = find_class(parse("torchsnapshot/batcher.py"), "Slab")
    init = find_func(cls, "__init__")
    locs = [n for n in ast.walk(init) if isinstance(n, ast.AnnAssign) and src(n.target) == "self.location"]
    if len(locs) != 1:
        raise TranslateError("batcher.Slab.__init__", "assignment to self.location not found")
    v = locs[0].value
    if not (isinstance(v, ast.Call) and src(v.func) == "os.path.join" and len(v.args) == 2 and isinstance(v.args[0], ast.Constant)
            and src(v.args[1]) == "str(uuid.uuid4())"):
        raise TranslateError("batcher.Slab.__init__", f"location is {src(v)}")
    return (f"(* batcher.Slab: self.location = {src(v)}; the uuid is an oracle *)\n"
            f"Definition g_slab_location (uuid : pystr) : pystr := os_join {lit(v.args[0].value)} uuid.\n")


def gen_manifest_path() -> str:
    fn = find_func(find_class(parse("torchsnapshot/snapshot.py"), "Snapshot"), "_gather_manifest")
    where = "Snapshot._gather_manifest"
    subs = [n for n in ast.walk(fn) if isinstance(n, ast.Assign) and isinstance(n.targets[0], ast.Subscript) and src(n.targets[0].value) == "global_manifest"]
    if len(subs) != 1 or src(subs[0].value) != "entry":
        raise TranslateError(where, "global_manifest[...] = entry not found exactly once")
    loops = [n for n in ast.walk(fn) if isinstance(n, ast.For) and src(n.iter) == "enumerate(manifests)" and src(n.target) == "(rank, manifest)"]
    if len(loops) != 1:
        raise TranslateError(where, "for rank, manifest in enumerate(manifests) not found")
    st = S(where, {"logical_path"}, {"rank"})
    return (f"(* Snapshot._gather_manifest: global_manifest[{src(subs[0].targets[0].slice)}] = entry *)\n"
            f"Definition g_manifest_path (rank : Z) (logical_path : pystr) : pystr := {st.s(subs[0].targets[0].slice)}.\n")


# ------------------------------------------------------------------------------- the async flag, from the API to the stager
def gen_async_flow() -> str:
    """every hop that hands `is_async_snapshot` on, as one boolean per hop (true = the flag is passed unchanged).
    A hop is (file, enclosing function, callee suffix); ALL calls of the callee inside the function must pass the
    keyword `is_async_snapshot=<the function's own parameter>` and the function must not rebind that name."""
    def hop(rel, cls, fn_name, callee, const=None):
        mod = parse(rel)
        scope = find_class(mod, cls) if cls else mod
        fn = find_func(scope, fn_name)
        where = f"{rel}:{cls + '.' if cls else ''}{fn_name}"
        calls = [n for n in ast.walk(fn) if isinstance(n, ast.Call) and src(n.func).endswith(callee)]
        if not calls:
            raise TranslateError(where, f"no call of {callee}")
        ok = True
        for c in calls:
            kw = {k.arg: k.value for k in c.keywords}
            v = kw.get("is_async_snapshot")
            if const is not None:
                ok = ok and isinstance(v, ast.Constant) and v.value is const
            else:
                ok = ok and isinstance(v, ast.Name) and v.id == "is_async_snapshot"
        if const is None:
            params = [a.arg for a in fn.args.args + fn.args.kwonlyargs]
            ok = ok and "is_async_snapshot" in params
            for n in ast.walk(fn):
                if isinstance(n, (ast.Assign, ast.AugAssign, ast.AnnAssign)):
                    tg = n.targets if isinstance(n, ast.Assign) else [n.target]
                    if any(isinstance(t, ast.Name) and t.id == "is_async_snapshot" for t in tg):
                        ok = False
        return where, callee, ok
    hops = [hop("torchsnapshot/snapshot.py", "Snapshot", "async_take", "_take_impl", const=True),
            hop("torchsnapshot/snapshot.py", "Snapshot", "take", "_take_impl", const=False),
            hop("torchsnapshot/snapshot.py", "Snapshot", "_take_impl", "prepare_write"),
            hop("torchsnapshot/io_preparers/chunked_tensor.py", "ChunkedTensorIOPreparer", "prepare_write", "TensorIOPreparer.prepare_write"),
            hop("torchsnapshot/io_preparers/sharded_tensor.py", "ShardedTensorIOPreparer", "prepare_write", "TensorIOPreparer.prepare_write"),
            hop("torchsnapshot/io_preparers/dtensor.py", "DTensorIOPreparer", "prepare_write", "TensorIOPreparer.prepare_write"),
            hop("torchsnapshot/io_preparers/tensor.py", "TensorIOPreparer", "prepare_write", "TensorBufferStager")]
    # TensorBufferStager.__init__ stores the flag
    init = find_func(find_class(parse("torchsnapshot/io_preparers/tensor.py"), "TensorBufferStager"), "__init__")
    stores = [src(n) for n in init.body if isinstance(n, ast.Assign) and src(n.targets[0]) == "self.is_async_snapshot"]
    hops.append(("torchsnapshot/io_preparers/tensor.py:TensorBufferStager.__init__", "self.is_async_snapshot", stores == ["self.is_async_snapshot = is_async_snapshot"]))
    # (the hops inside io_preparer.prepare_write are checked by gen_write_kind, which fails closed)
    lines = "\n".join(f"  (* {w} -> {c} *) {'true' if ok else 'false'}" + (";" if i < len(hops) - 1 else "") for i, (w, c, ok) in enumerate(hops))
    return ("(* is_async_snapshot from Snapshot.async_take (True) / take (False) down to TensorBufferStager: one boolean per hop,\n"
            "   true = every call of the callee passes the caller's own, never rebound, parameter (resp. the constant) *)\n"
            "Definition g_async_flag_hops : list bool := [\n" + lines + "\n].\n")


# ------------------------------------------------------------------------------- the memory budget, from its source to the schedulers (C10)
def gen_budget_flow() -> str:
    """one boolean per hop of `memory_budget_bytes` in snapshot.py (true = handed on unchanged):
       source hops: the variable is assigned exactly `get_process_memory_budget_bytes(pg=..)` (optionally under
       `if memory_budget_bytes is None:` for an optional parameter) and nothing else;
       pass hops: every call of the callee inside the function passes `memory_budget_bytes=memory_budget_bytes`."""
    cls = find_class(parse("torchsnapshot/snapshot.py"), "Snapshot")
    hops = []

    def assigns_of(fn):
        out = []
        for n in ast.walk(fn):
            if isinstance(n, ast.Assign) and any(isinstance(t, ast.Name) and t.id == "memory_budget_bytes" for t in n.targets):
                out.append(n)
            if isinstance(n, (ast.AugAssign, ast.AnnAssign)) and isinstance(n.target, ast.Name) and n.target.id == "memory_budget_bytes":
                out.append(n)
        return out

    def source(fn_name, optional_param):
        fn = find_func(cls, fn_name)
        asg = assigns_of(fn)
        ok = len(asg) == 1 and isinstance(asg[0], ast.Assign) and isinstance(asg[0].value, ast.Call) \
            and src(asg[0].value.func) == "get_process_memory_budget_bytes" and [k.arg for k in asg[0].value.keywords] == ["pg"] and not asg[0].value.args
        if ok and optional_param:
            guards = [n for n in ast.walk(fn) if isinstance(n, ast.If) and asg[0] in n.body]
            ok = len(guards) == 1 and src(guards[0].test) == "memory_budget_bytes is None" and len(guards[0].body) == 1 and not guards[0].orelse
        hops.append((f"Snapshot.{fn_name}", "memory_budget_bytes = get_process_memory_budget_bytes(pg=..)" + (" when None" if optional_param else ""), ok))

    def passes(fn_name, callee, must_not_assign):
        fn = find_func(cls, fn_name)
        calls = [n for n in ast.walk(fn) if isinstance(n, ast.Call) and src(n.func).endswith(callee)]
        if not calls:
            raise TranslateError(f"Snapshot.{fn_name}", f"no call of {callee}")
        ok = all(src({k.arg: k.value for k in c.keywords}.get("memory_budget_bytes", ast.Constant(None))) == "memory_budget_bytes" for c in calls)
        if must_not_assign:
            ok = ok and not assigns_of(fn) and "memory_budget_bytes" in [a.arg for a in fn.args.args + fn.args.kwonlyargs]
        hops.append((f"Snapshot.{fn_name}", callee, ok))
    source("_take_impl", False)
    passes("_take_impl", "sync_execute_write_reqs", False)
    source("restore", False)
    passes("restore", "_load_stateful", False)
    passes("_load_stateful", "_get_state_dict_for_manifest", True)
    source("_get_state_dict_for_manifest", True)
    passes("_get_state_dict_for_manifest", "sync_execute_read_reqs", False)
    lines = "\n".join(f"  (* {w} -> {c} *) {'true' if ok else 'false'}" + (";" if i < len(hops) - 1 else "") for i, (w, c, ok) in enumerate(hops))
    return ("(* memory_budget_bytes in snapshot.py: from get_process_memory_budget_bytes to the write / read schedulers, one boolean\n"
            "   per hop (true = assigned from the budget function only, resp. passed on unchanged) *)\n"
            "Definition g_budget_hops : list bool := [\n" + lines + "\n].\n")


# ------------------------------------------------------------------------------- Snapshot.read_object wiring (C18)
def gen_read_object() -> str:
    fn = find_func(find_class(parse("torchsnapshot/snapshot.py"), "Snapshot"), "read_object")
    where = "Snapshot.read_object"
    if "memory_budget_bytes" not in [a.arg for a in fn.args.args + fn.args.kwonlyargs]:
        raise TranslateError(where, "no parameter memory_budget_bytes")
    for n in ast.walk(fn):
        if isinstance(n, (ast.Assign, ast.AugAssign, ast.AnnAssign)):
            tg = n.targets if isinstance(n, ast.Assign) else [n.target]
            if any(isinstance(t, ast.Name) and t.id == "memory_budget_bytes" for t in tg):
                raise TranslateError(where, "memory_budget_bytes is rebound")
    # 1. prepare_read gets the budget as the buffer limit
    prs = [n for n in ast.walk(fn) if isinstance(n, ast.Call) and src(n.func) == "prepare_read"]
    if len(prs) != 1:
        raise TranslateError(where, f"expected one prepare_read call, found {len(prs)}")
    kw = {k.arg: src(k.value) for k in prs[0].keywords}
    limit_ok = kw.get("buffer_size_limit_bytes") == "memory_budget_bytes" and kw.get("entry") == "entry" and kw.get("obj_out") == "obj_out"
    # 2. the batching decision
    ifs = [n for n in ast.walk(fn) if isinstance(n, ast.If) and any(isinstance(c, ast.Call) and src(c.func) == "batch_read_requests" for c in ast.walk(n))]
    if len(ifs) != 1:
        raise TranslateError(where, f"expected one `if` guarding batch_read_requests, found {len(ifs)}")
    node = ifs[0]
    if [src(x) for x in node.body] != ["read_reqs = batch_read_requests(read_reqs=read_reqs)"] or node.orelse:
        raise TranslateError(where, f"batching branch changed: {[src(x) for x in node.body]}")

    def cond(e):
        t = src(e)
        if t == "is_batching_disabled()":
            return "batching_disabled"
        if t == "memory_budget_bytes is None":
            return "(negb budget_given)"
        if t == "memory_budget_bytes is not None":
            return "budget_given"
        if isinstance(e, ast.UnaryOp) and isinstance(e.op, ast.Not):
            return f"(negb {cond(e.operand)})"
        if isinstance(e, ast.BoolOp):
            return "(" + (" && " if isinstance(e.op, ast.And) else " || ").join(cond(v) for v in e.values) + ")"
        raise TranslateError(where, f"unknown batching condition {t}")
    # 3. the budget handed to the read scheduler
    ex = [n for n in ast.walk(fn) if isinstance(n, ast.Call) and src(n.func) == "sync_execute_read_reqs"]
    if len(ex) != 1:
        raise TranslateError(where, f"expected one sync_execute_read_reqs call, found {len(ex)}")
    kw = {k.arg: k.value for k in ex[0].keywords}
    if src(kw.get("read_reqs", ast.Constant(0))) != "read_reqs":
        raise TranslateError(where, "sync_execute_read_reqs is not given read_reqs")
    b = kw.get("memory_budget_bytes")
    if b is None:
        raise TranslateError(where, "sync_execute_read_reqs gets no memory_budget_bytes")
    if src(b) == "memory_budget_bytes or _MAX_PER_RANK_MEMORY_BUDGET_BYTES":
        bud = "match budget with Some b => if b =? 0 then cap else b | None => cap end"
    elif src(b) == "memory_budget_bytes":
        bud = "match budget with Some b => b | None => 0 end"
    else:
        raise TranslateError(where, f"unsupported budget expression {src(b)}")
    # the statements must come in the order prepare_read; batching; execute
    order = [prs[0].lineno, node.lineno, ex[0].lineno]
    if order != sorted(order):
        raise TranslateError(where, "prepare_read / batching / execute are out of order")
    return ("(* Snapshot.read_object: prepare_read(buffer_size_limit_bytes=memory_budget_bytes); the batching decision;\n"
            "   the budget handed to sync_execute_read_reqs (`x or cap`: None and 0 mean the cap) *)\n"
            f"Definition g_ro_limit_is_budget : bool := {'true' if limit_ok else 'false'}.\n"
            f"Definition g_ro_batches (batching_disabled budget_given : bool) : bool := {cond(node.test)}.\n"
            f"Definition g_ro_exec_budget (budget : option Z) (cap : Z) : Z := {bud}.\n")


def generate() -> dict[str, str]:
    text = ("(* GENERATED by translator/gen_dispatch.py from io_preparer.py, dtensor_utils.py, manifest.py, batcher.py, snapshot.py,\n"
            "   io_preparers/chunked_tensor.py, io_preparers/sharded_tensor.py - do not edit. *)\n"
            "From TS Require Import model.Base model.Flatten model.StoragePath model.Dispatch.\n\n"
            + "\n".join([gen_storage_path(), gen_is_sharded(), gen_entry_parent(), gen_write_kind(), gen_read_kind(),
                         piece_location("torchsnapshot/io_preparers/chunked_tensor.py", "ChunkedTensorIOPreparer", "chunk.offsets", "g_chunk_location"),
                         piece_location("torchsnapshot/io_preparers/sharded_tensor.py", "ShardedTensorIOPreparer", "offsets", "g_shard_location"),
                         gen_slab_location(), gen_manifest_path(), gen_async_flow(), gen_budget_flow(), gen_read_object()]))
    return {"DispatchGen": text}
