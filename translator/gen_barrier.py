"""T-commit (C13 part): structural skeleton of the async commit barrier -> coq/gen/BarrierGen.v.

From torchsnapshot/dist_store.py   LinearBarrier.arrive / depart / report_error / _key
and  torchsnapshot/snapshot.py     PendingSnapshot.__init__ / _complete_snapshot / wait, Snapshot.async_take
extract, as Gallina data (types in coq/model/Barrier.v):
  * per barrier method and per branch (leader / peer) the ordered list of store operations; for every store.wait
    whether its second argument is the method's `timeout` parameter (WTimeoutArg) or missing (WStoreDefault),
  * the order of the try body and of the except handler of _complete_snapshot (report_error, then exc_info), what the
    handler catches, and which timeout _complete_snapshot passes to arrive / depart,
  * gen_wait_has_timeout: every store.wait gets the `timeout` parameter and that parameter is
    PendingSnapshot.DEFAULT_BARRIER_TIMEOUT (a timedelta) at both call sites; gen_wait_reraises_exc_info: wait()
    raises exactly when exc_info is set  (together: the justification of the model's TIMEOUT transition),
  * whether the barrier prefix mentions both `path` and `self._barrier_id`, and whether that id is the one
    broadcast from rank 0 in async_take.
proofs/BarrierInst.v proves that the result equals the skeleton the hand model implements.

Fail closed: every statement of the functions read here must have one of the recognised shapes; anything else
raises TranslateError (the obligation translate:gen_barrier is then reported broken)."""
from __future__ import annotations

import ast

from .pyast import TranslateError, find_class, find_func, only, parse, src

OUTPUTS = ["BarrierGen"]
DIST_STORE = "torchsnapshot/dist_store.py"
SNAPSHOT = "torchsnapshot/snapshot.py"


# --------------------------------------------------------------------------- small matchers
def _body(fn: ast.FunctionDef):
    """Function body without the docstring."""
    b = list(fn.body)
    if b and isinstance(b[0], ast.Expr) and isinstance(b[0].value, ast.Constant) and isinstance(b[0].value.value, str):
        b = b[1:]
    return b


def _is_self_attr(e: ast.AST, name: str) -> bool:
    return isinstance(e, ast.Attribute) and isinstance(e.value, ast.Name) and e.value.id == "self" and e.attr == name


def _call_of(e: ast.AST, recv: str | None, meth: str):
    """e is `recv.meth(...)` (recv a dotted name like 'self.store' or 'barrier'); returns the Call or None."""
    if not isinstance(e, ast.Call) or not isinstance(e.func, ast.Attribute) or e.func.attr != meth:
        return None
    if recv is not None and src(e.func.value) != recv:
        return None
    return e


def _raise_runtime_error(s: ast.AST) -> bool:
    return (isinstance(s, ast.Raise) and isinstance(s.exc, ast.Call) and isinstance(s.exc.func, ast.Name)
            and s.exc.func.id == "RuntimeError" and s.cause is None)


def _flag_guard(s: ast.AST) -> bool:
    """`if [not] self.arrived|self.departed: raise RuntimeError(...)` - re-entrancy guards, no store operation."""
    if not isinstance(s, ast.If) or s.orelse or len(s.body) != 1 or not _raise_runtime_error(s.body[0]):
        return False
    t = s.test
    if isinstance(t, ast.UnaryOp) and isinstance(t.op, ast.Not):
        t = t.operand
    return _is_self_attr(t, "arrived") or _is_self_attr(t, "departed")


def _flag_assign(s: ast.AST) -> bool:
    return (isinstance(s, ast.Assign) and len(s.targets) == 1 and
            (_is_self_attr(s.targets[0], "arrived") or _is_self_attr(s.targets[0], "departed")) and
            isinstance(s.value, ast.Constant) and s.value.value is True)


def _key_target(e: ast.AST, env: dict, where: str) -> str:
    """Which key does this expression denote: KOwn / KLeader (or a name bound earlier)."""
    if isinstance(e, ast.Name) and e.id in env:
        return env[e.id]
    c = _call_of(e, "self", "_key")
    if c is not None:
        if len(c.args) + len(c.keywords) != 1:
            raise TranslateError(where, f"unexpected _key call {src(e)}")
        a = c.args[0] if c.args else c.keywords[0].value
        if c.keywords and c.keywords[0].arg != "rank":
            raise TranslateError(where, f"unexpected _key keyword in {src(e)}")
        if _is_self_attr(a, "rank"):
            return "KOwn"
        if _is_self_attr(a, "leader_rank"):
            return "KLeader"
    raise TranslateError(where, f"unrecognised key expression {src(e)}")


def _peer_keys_comp(e: ast.AST) -> bool:
    """[self._key(rank=rank) for rank in range(self.world_size) if rank != self.leader_rank]"""
    if not isinstance(e, ast.ListComp) or len(e.generators) != 1:
        return False
    g = e.generators[0]
    if g.is_async or not isinstance(g.target, ast.Name) or len(g.ifs) != 1:
        return False
    v = g.target.id
    if src(g.iter) != "range(self.world_size)":
        return False
    if src(g.ifs[0]) != f"{v} != self.leader_rank":
        return False
    return src(e.elt) in (f"self._key(rank={v})", f"self._key({v})")


def _value_class(e: ast.AST, where: str) -> str:
    """'' -> VOk ; an f-string / constant that is never empty -> VErr."""
    if isinstance(e, ast.Constant) and isinstance(e.value, str):
        return "VOk" if e.value == "" else "VErr"
    if isinstance(e, ast.JoinedStr):
        if any(isinstance(p, ast.Constant) and isinstance(p.value, str) and p.value != "" for p in e.values):
            return "VErr"
    raise TranslateError(where, f"cannot classify the stored value {src(e)} as empty / never empty")


def _on_error(stmts, errvar: str, where: str) -> str:
    """Body of `if len(err) != 0:` -> RaiseOnly | ReportThenRaise."""
    if len(stmts) == 1 and _raise_runtime_error(stmts[0]):
        return "RaiseOnly"
    if len(stmts) == 2 and _raise_runtime_error(stmts[1]) and isinstance(stmts[0], ast.Expr):
        c = _call_of(stmts[0].value, "self", "report_error")
        if c is not None and len(c.args) + len(c.keywords) == 1:
            return "ReportThenRaise"
    raise TranslateError(where, "unrecognised error branch: " + "; ".join(src(s) for s in stmts))


def _err_check(s: ast.AST, errvar: str, where: str) -> str:
    if not (isinstance(s, ast.If) and not s.orelse and src(s.test) == f"len({errvar}) != 0"):
        raise TranslateError(where, f"expected `if len({errvar}) != 0:` after the get, found {src(s)[:80]}")
    return _on_error(s.body, errvar, where)


def _get_assign(s: ast.AST):
    """`err = self.store.get(KEY)` -> (errvar, KEY expr) or None"""
    if isinstance(s, ast.Assign) and len(s.targets) == 1 and isinstance(s.targets[0], ast.Name):
        c = _call_of(s.value, "self.store", "get")
        if c is not None and len(c.args) == 1 and not c.keywords:
            return s.targets[0].id, c.args[0]
    return None


def _ops(stmts, where: str) -> list[str]:
    """Straight-line branch of arrive/depart/report_error -> list of BarrierOp terms."""
    env: dict[str, str] = {}
    out: list[str] = []
    i = 0
    while i < len(stmts):
        s = stmts[i]
        # name = <peer keys> | name = self._key(...)
        if isinstance(s, ast.Assign) and len(s.targets) == 1 and isinstance(s.targets[0], ast.Name) and _get_assign(s) is None:
            if _peer_keys_comp(s.value):
                env[s.targets[0].id] = "KPeers"
            else:
                env[s.targets[0].id] = _key_target(s.value, {}, where)
            i += 1
            continue
        # err = self.store.get(key) ; if len(err) != 0: ...
        ga = _get_assign(s)
        if ga is not None:
            errvar, kexpr = ga
            if i + 1 >= len(stmts):
                raise TranslateError(where, "store.get result is not checked")
            out.append(f"BGet {_key_target(kexpr, env, where)} {_err_check(stmts[i + 1], errvar, where)}")
            i += 2
            continue
        if isinstance(s, ast.For):
            if s.orelse or not isinstance(s.target, ast.Name) or not isinstance(s.iter, ast.Name) or env.get(s.iter.id) != "KPeers":
                raise TranslateError(where, f"unrecognised loop {src(s)[:80]}")
            if len(s.body) != 2:
                raise TranslateError(where, "loop body is not `err = store.get(key); if len(err) != 0: ...`")
            ga = _get_assign(s.body[0])
            if ga is None or not (isinstance(ga[1], ast.Name) and ga[1].id == s.target.id):
                raise TranslateError(where, "loop does not get the key it iterates over")
            out.append(f"BGetEach KPeers {_err_check(s.body[1], ga[0], where)}")
            i += 1
            continue
        if isinstance(s, ast.Expr):
            c = _call_of(s.value, "self.store", "wait")
            if c is not None:
                # store.wait(keys, timeout): raises when the timeout expires.  store.wait(keys) uses the store's own
                # default timeout (recorded as WStoreDefault: not the code the model was written for).
                args = list(c.args) + [kw.value for kw in c.keywords]
                if any(kw.arg not in ("keys", "timeout") for kw in c.keywords) or not 1 <= len(args) <= 2 or \
                        (c.keywords and c.keywords[0].arg == "keys" and c.args):
                    raise TranslateError(where, f"unexpected wait call {src(s)}")
                if len(args) == 2:
                    if src(args[1]) != "timeout":
                        raise TranslateError(where, f"store.wait timeout is not the `timeout` parameter: {src(s)}")
                    tm = "WTimeoutArg"
                else:
                    tm = "WStoreDefault"
                k = args[0]
                if isinstance(k, ast.Name) and env.get(k.id) == "KPeers":
                    out.append(f"BWait KPeers {tm}")
                elif isinstance(k, ast.List) and len(k.elts) == 1:
                    out.append(f"BWait {_key_target(k.elts[0], env, where)} {tm}")
                else:
                    raise TranslateError(where, f"unrecognised wait key list {src(k)}")
                i += 1
                continue
            c = _call_of(s.value, "self.store", "set")
            if c is not None:
                if len(c.args) != 2 or c.keywords:
                    raise TranslateError(where, f"unexpected set call {src(s)}")
                out.append(f"BSet {_key_target(c.args[0], env, where)} {_value_class(c.args[1], where)}")
                i += 1
                continue
        raise TranslateError(where, f"unrecognised statement: {src(s)[:100]}")
    return out


def _barrier_method(fn: ast.FunctionDef, where: str) -> tuple[list[str], list[str]]:
    """arrive / depart: guards, flag assignment, then `if self.rank == self.leader_rank: A else: B`."""
    params = [a.arg for a in fn.args.args]
    if params != ["self", "timeout"] or fn.args.vararg or fn.args.kwarg or fn.args.kwonlyargs or fn.args.defaults:
        raise TranslateError(where, f"signature is not (self, timeout): {params}")
    body = _body(fn)
    branch = None
    for s in body:
        if _flag_guard(s) or _flag_assign(s):
            if branch is not None:
                raise TranslateError(where, "statement after the leader/peer branch")
            continue
        if isinstance(s, ast.If) and src(s.test) == "self.rank == self.leader_rank" and s.orelse and branch is None:
            branch = s
            continue
        raise TranslateError(where, f"unrecognised statement: {src(s)[:100]}")
    if branch is None:
        raise TranslateError(where, "no `if self.rank == self.leader_rank` branch")
    return _ops(branch.body, where + ":leader"), _ops(branch.orelse, where + ":peer")


def _coq_list(xs: list[str]) -> str:
    return "[" + "; ".join(xs) + "]"


# --------------------------------------------------------------------------- snapshot.py
def _complete_snapshot(cls: ast.ClassDef):
    where = "_complete_snapshot"
    fn = find_func(cls, "_complete_snapshot")
    body = _body(fn)
    tries = [s for s in body if isinstance(s, ast.Try)]
    tr = only(tries, where, "try statement")
    barrier_call = None
    for s in body:
        if s is tr:
            continue
        text = src(s)
        if isinstance(s, ast.Assign) and text == "succeeded = False":
            continue
        if isinstance(s, ast.Assign) and len(s.targets) == 1 and src(s.targets[0]) == "barrier":
            if not (isinstance(s.value, ast.Call) and src(s.value.func) == "LinearBarrier" and not s.value.args):
                raise TranslateError(where, f"barrier is not built by LinearBarrier(...): {text[:100]}")
            barrier_call = s.value
            continue
        if isinstance(s, ast.Assign) and text == "self._done = True":
            continue
        if isinstance(s, ast.Expr) and isinstance(s.value, ast.Call) and src(s.value.func) == "log_event":
            continue
        raise TranslateError(where, f"unrecognised statement outside the try: {text[:100]}")
    if barrier_call is None or body.index(tr) < [i for i, s in enumerate(body) if isinstance(s, ast.Assign) and src(s.targets[0]) == "barrier"][0]:
        raise TranslateError(where, "barrier is not created before the try")
    kw = {k.arg: k.value for k in barrier_call.keywords}
    if set(kw) != {"prefix", "store", "rank", "world_size", "leader_rank"}:
        raise TranslateError(where, f"LinearBarrier keywords changed: {sorted(kw)}")
    for k in ("store", "rank", "world_size"):
        if src(kw[k]) != k:
            raise TranslateError(where, f"LinearBarrier({k}=...) is not the parameter {k}: {src(kw[k])}")
    if not (isinstance(kw["leader_rank"], ast.Constant) and isinstance(kw["leader_rank"].value, int)):
        raise TranslateError(where, "leader_rank is not an integer literal")
    leader = kw["leader_rank"].value
    pref = kw["prefix"]
    if not isinstance(pref, ast.JoinedStr):
        raise TranslateError(where, f"barrier prefix is not an f-string: {src(pref)}")
    mentioned = [src(p.value) for p in pref.values if isinstance(p, ast.FormattedValue)]
    if "path" not in mentioned:
        raise TranslateError(where, f"barrier prefix does not mention path: {src(pref)}")
    if set(mentioned) - {"path", "self._barrier_id"}:
        raise TranslateError(where, f"barrier prefix mentions something unknown: {src(pref)}")
    uses_id = "self._barrier_id" in mentioned

    # try body
    tbody = []
    timeouts = {}
    for s in tr.body:
        text = src(s)
        if isinstance(s, ast.Expr) and _call_of(s.value, "pending_io_work", "sync_complete") is not None:
            tbody.append("CSyncComplete")
        elif isinstance(s, ast.Expr) and _call_of(s.value, "barrier", "arrive") is not None:
            tbody.append("CArrive")
            timeouts["arrive"] = _timeout_arg(s.value, where)
        elif isinstance(s, ast.Expr) and _call_of(s.value, "barrier", "depart") is not None:
            tbody.append("CDepart")
            timeouts["depart"] = _timeout_arg(s.value, where)
        elif isinstance(s, ast.If):
            if src(s.test) != f"rank == {leader}" or s.orelse or len(s.body) != 1:
                raise TranslateError(where, f"unrecognised conditional in the try body: {text[:100]}")
            c = s.body[0]
            if not (isinstance(c, ast.Expr) and _call_of(c.value, "Snapshot", "_write_snapshot_metadata") is not None):
                raise TranslateError(where, f"leader branch is not the metadata write: {src(c)[:100]}")
            tbody.append("CIfRank0WriteMeta")
        elif isinstance(s, ast.Assign) and text == "succeeded = True":
            continue
        else:
            raise TranslateError(where, f"unrecognised statement in the try body: {text[:100]}")
    # handler
    h = only(tr.handlers, where, "except handler")
    # `except Exception [as e]`: what a store.wait timeout (RuntimeError / DistStoreError) and every I/O error is
    catch = "CatchException" if (isinstance(h.type, ast.Name) and h.type.id == "Exception") else "CatchOther"
    hbody = []
    for s in h.body:
        text = src(s)
        c = _call_of(s.value, "barrier", "report_error") if isinstance(s, ast.Expr) else None
        if c is not None:
            a = (list(c.args) + [k.value for k in c.keywords])
            if len(a) != 1 or (h.name is None) or src(a[0]) != f"str({h.name})":
                raise TranslateError(where, f"report_error is not called with str(<the caught exception>): {text[:100]}")
            hbody.append("CReportError")
        elif isinstance(s, ast.Assign) and text == "self.exc_info = sys.exc_info()":
            hbody.append("CRecordExcInfo")
        elif isinstance(s, ast.Expr) and isinstance(s.value, ast.Call) and src(s.value.func) == "logger.warning":
            continue
        else:
            raise TranslateError(where, f"unrecognised statement in the handler: {text[:100]}")
    if tr.orelse:
        raise TranslateError(where, "try has an else clause")
    for s in tr.finalbody:
        if src(s) not in ("storage.sync_close(event_loop=event_loop)", "event_loop.close()"):
            raise TranslateError(where, f"unrecognised statement in finally: {src(s)[:100]}")
    return tbody, hbody, leader, uses_id, catch, timeouts


def _timeout_arg(call: ast.Call, where: str) -> str:
    """barrier.arrive(timeout=self.DEFAULT_BARRIER_TIMEOUT) -> TDefaultBarrierTimeout; any other single argument -> TOther."""
    args = list(call.args) + [k.value for k in call.keywords]
    if len(args) != 1 or (call.keywords and call.keywords[0].arg != "timeout"):
        raise TranslateError(where, f"unexpected arguments in {src(call)}")
    return "TDefaultBarrierTimeout" if src(args[0]) in ("self.DEFAULT_BARRIER_TIMEOUT", "PendingSnapshot.DEFAULT_BARRIER_TIMEOUT") else "TOther"


def _default_timeout_is_timedelta(cls: ast.ClassDef) -> bool:
    """class attribute DEFAULT_BARRIER_TIMEOUT = timedelta(<keyword = positive number literal>...)"""
    for s in cls.body:
        if isinstance(s, ast.Assign) and len(s.targets) == 1 and src(s.targets[0]) == "DEFAULT_BARRIER_TIMEOUT":
            v = s.value
            if not (isinstance(v, ast.Call) and src(v.func) == "timedelta" and not v.args and v.keywords):
                return False
            return all(isinstance(k.value, ast.Constant) and isinstance(k.value.value, (int, float)) and k.value.value > 0
                       for k in v.keywords)
    return False


def _wait_raises_iff_exc_info(cls: ast.ClassDef):
    fn = find_func(cls, "wait")
    body = _body(fn)
    if len(body) != 3 or src(body[0]) != "self.thread.join()":
        raise TranslateError("wait", "unexpected shape")
    iff = body[1]
    if not (isinstance(iff, ast.If) and src(iff.test) == "self.exc_info is not None" and not iff.orelse
            and isinstance(iff.body[-1], ast.Raise)):
        raise TranslateError("wait", "wait() does not raise exactly when exc_info is set")
    if not isinstance(body[2], ast.Return):
        raise TranslateError("wait", "wait() does not return after the check")


def _barrier_id_is_broadcast(mod: ast.Module, cls: ast.ClassDef) -> bool:
    """self._barrier_id is the constructor argument, and async_take passes the value broadcast from rank 0."""
    init = find_func(cls, "__init__")
    stored = any(src(s) == "self._barrier_id = barrier_id" for s in init.body)
    snap = find_class(mod, "Snapshot")
    at = find_func(snap, "async_take")
    texts = [src(s) for s in at.body]
    try:
        i_list = texts.index("barrier_id_list = [unique_id]")
        i_bc = texts.index("pg_wrapper.broadcast_object_list(barrier_id_list, src=0)")
    except ValueError:
        return False
    ret = at.body[-1]
    if not (isinstance(ret, ast.Return) and isinstance(ret.value, ast.Call) and src(ret.value.func) == "PendingSnapshot"):
        raise TranslateError("async_take", "does not end by returning PendingSnapshot(...)")
    kw = {k.arg: src(k.value) for k in ret.value.keywords}
    return stored and i_list < i_bc < len(texts) - 1 and kw.get("barrier_id") == "barrier_id_list[0]" and kw.get("path") == "path"


def generate() -> dict[str, str]:
    ds = parse(DIST_STORE)
    lb = find_class(ds, "LinearBarrier")
    keyfn = find_func(lb, "_key")
    kb = _body(keyfn)
    if len(kb) != 1 or src(kb[0]) not in ("return f'{self.prefix}_{rank}'",):
        raise TranslateError("_key", f"key format changed: {src(kb[0]) if kb else None}")
    init = find_func(lb, "__init__")
    for need in ("self.prefix = prefix", "self.store = store", "self.rank = rank", "self.world_size = world_size",
                 "self.leader_rank = leader_rank"):
        if need not in [src(s) for s in init.body]:
            raise TranslateError("LinearBarrier.__init__", f"missing `{need}`")
    arr_l, arr_p = _barrier_method(find_func(lb, "arrive"), "arrive")
    dep_l, dep_p = _barrier_method(find_func(lb, "depart"), "depart")
    rep = _ops(_body(find_func(lb, "report_error")), "report_error")

    sn = parse(SNAPSHOT)
    ps = find_class(sn, "PendingSnapshot")
    tbody, hbody, leader, uses_id, catch, timeouts = _complete_snapshot(ps)
    _wait_raises_iff_exc_info(ps)        # raises TranslateError unless wait() raises exactly when exc_info is set
    bcast = _barrier_id_is_broadcast(sn, ps)
    all_ops = arr_l + arr_p + dep_l + dep_p
    if any(o.startswith("BWait") for o in rep):
        raise TranslateError("report_error", "report_error waits on the store")
    wait_has_timeout = (all(o.endswith("WTimeoutArg") for o in all_ops if o.startswith("BWait")) and
                        timeouts.get("arrive") == "TDefaultBarrierTimeout" and
                        timeouts.get("depart") == "TDefaultBarrierTimeout" and _default_timeout_is_timedelta(ps))

    out = [
        "(* GENERATED by translator/gen_barrier.py from torchsnapshot/dist_store.py and torchsnapshot/snapshot.py - do not edit *)",
        "From TS Require Import model.Base model.Barrier.",
        "",
        "Definition gen_skeleton : BarrierSkeleton := {|",
        f"  sk_arrive_leader := {_coq_list(arr_l)};",
        f"  sk_arrive_peer := {_coq_list(arr_p)};",
        f"  sk_depart_leader := {_coq_list(dep_l)};",
        f"  sk_depart_peer := {_coq_list(dep_p)};",
        f"  sk_report_error := {_coq_list(rep)};",
        f"  sk_try := {_coq_list(tbody)};",
        f"  sk_catch := {catch};",
        f"  sk_except := {_coq_list(hbody)};",
        f"  sk_arrive_timeout := {timeouts.get('arrive', 'TOther')};",
        f"  sk_depart_timeout := {timeouts.get('depart', 'TOther')};",
        f"  sk_leader_rank := {leader} |}}.",
        "",
        "(* the barrier prefix f-string mentions both `path` and `self._barrier_id` *)",
        f"Definition gen_prefix_uses_barrier_id : bool := {'true' if uses_id else 'false'}.",
        "(* self._barrier_id is the constructor argument and async_take passes the id broadcast from rank 0 *)",
        f"Definition gen_barrier_id_is_broadcast : bool := {'true' if bcast else 'false'}.",
        "(* every store.wait of arrive/depart passes the method's `timeout` parameter, and _complete_snapshot passes",
        "   timeout=self.DEFAULT_BARRIER_TIMEOUT (a timedelta class attribute) to both *)",
        f"Definition gen_wait_has_timeout : bool := {'true' if wait_has_timeout else 'false'}.",
        "(* PendingSnapshot.wait() joins the thread and raises exactly when exc_info is set (checked by the translator:",
        "   it refuses to generate this file otherwise) *)",
        "Definition gen_wait_reraises_exc_info : bool := true.",
        "",
    ]
    return {"BarrierGen": "\n".join(out)}
