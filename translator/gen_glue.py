"""T-glue: the glue of torchsnapshot/snapshot.py -> coq/gen/GlueGen.v   (Python ast -> Gallina, fail closed).

Translated STATEMENT BY STATEMENT into the option monad over the vocabulary of coq/model/Glue.v (+ model/FlattenPy.v):
  Snapshot._pop_rng_state, _gather_keys, _gather_manifest, _take_impl,
  Snapshot._get_state_dict_for_manifest, _load_stateful, restore, read_object.
Every call of a component (flatten, inflate, prepare_write, prepare_read, partition_write_reqs, batch_write_requests,
batch_read_requests, consolidate_replicated_entries, get_manifest_for_rank, handle_sharded_tensor_elasticity,
sync_execute_write_reqs, sync_execute_read_reqs, get_process_memory_budget_bytes, is_batching_disabled,
is_container_entry, _calculate_replicated_entries, SnapshotMetadata, the PGWrapper methods) is recognised with its exact
argument list (keywords are matched against the callee's def in the source tree, defaults are filled in from that def)
and becomes the vocabulary function / world field named in COMPONENTS below.  Statements that cannot change what
the functions compute are dropped: docstrings and logger calls (translator/pyast.py), log_event(Event(..)),
torch._C._log_api_usage_once, _validate_app_state, storage.sync_close, event_loop.close, pg.barrier (the collective
sequence is property C12's subject).  Anything else - an unknown statement form, a call with other arguments, a
name used at another type - raises TranslateError: the run's translation obligation is broken.

Effects: a function that (transitively) calls load_state_dict / prepare_write / prepare_read / sync_execute_read_reqs
receives and returns the effect value `fx` (model/Glue.v).  `if x is None` / `if x is not None` on a variable of
Optional type becomes a `match` and narrows the type of x in the branches (the rest of the block is translated once per
branch, as Python executes it; an `if` whose branches only rebind existing variables is joined instead).  A `for` loop
becomes `py_for` over the variables the body rebinds or mutates that are live after the loop or carried from one
iteration to the next.  The part of _take_impl from `replicated_paths = ...` on is emitted once as a definition of its own
(take_impl_tail_gen) and called from both branches of the RNG test (Sig.splits).
"""
from __future__ import annotations

import ast
import os

from lib.core import REPO
from translator.pyast import TranslateError, normalise

OUTPUTS = ["GlueGen"]

# ----------------------------------------------------------------------------- types
STR, INT, BOOL, OBJ, ENTRY, CENTRY = "str", "int", "bool", "obj", "mentry", "centry"
STATEFUL, WREQ, RREQ, FUT, STORE, META, SNAP = "stateful", "wreq", "rreq", "fut", "store", "metadata", "snapshot"
PG, LOOP, OPAQUE, CLS, CUSTOM, NONE, FX = "pg", "loop", "opaque", "cls", "custom", "none", "fx"


def LIST(t):
    return ("list", t)


def PAIR(a, b):
    return ("pair", a, b)


def SDICT(v):
    return ("sdict", v)


def OPT(t):
    return ("opt", t)


SET = LIST(STR)
_COQTY = {STR: "pystr", INT: "Z", BOOL: "bool", OBJ: "obj", ENTRY: "mentry", CENTRY: "entry", STATEFUL: "stateful",
          WREQ: "wreq", RREQ: "rreq", FUT: "fut", STORE: "store", META: "metadata", SNAP: "snapshot", FX: "effects",
          CUSTOM: "(Z * pystr)", "customfn": "Z"}
ERASED = (PG, LOOP, OPAQUE, CLS)          # values that carry no information in the model: not passed around


def coqty(t) -> str:
    if t in _COQTY:
        return _COQTY[t]
    if isinstance(t, tuple):
        if t[0] == "list":
            return f"list ({coqty(t[1])})"
        if t[0] == "pair":
            return f"({coqty(t[1])} * {coqty(t[2])})"
        if t[0] == "sdict" and t[1] is not None:
            return f"sdict ({coqty(t[1])})"
        if t[0] == "opt":
            return f"option ({coqty(t[1])})"
    raise TranslateError("types", f"no Coq type for {t}")


def is_(t, tag):
    return isinstance(t, tuple) and t[0] == tag


def same(a, b) -> bool:
    """type equality where a container whose element type is still unknown matches every container of its kind"""
    if a == b:
        return True
    if isinstance(a, tuple) and isinstance(b, tuple) and a[0] == b[0] and len(a) == len(b):
        if a[0] in ("sdict", "list") and (a[1] is None or b[1] is None):
            return True
        return all(same(x, y) for x, y in zip(a[1:], b[1:]))
    return False


ANNOT = {
    "Manifest": SDICT(ENTRY), "Dict[str, Any]": SDICT(OBJ), "Dict[str, Entry]": SDICT(ENTRY),
    "Dict[str, List[WriteReq]]": SDICT(LIST(WREQ)), "Dict[str, PrimitiveEntry]": SDICT(ENTRY),
    "List[WriteReq]": LIST(WREQ), "List[ReadReq]": LIST(RREQ), "List[List[str]]": LIST(LIST(STR)),
    "List[Dict[str, Entry]]": LIST(SDICT(ENTRY)),
}


def lit(s: str) -> str:
    return "[" + "; ".join(str(ord(c)) for c in s) + "]"


def comment(node) -> str:
    t = ast.unparse(node).splitlines()[0][:100].replace('"', "'").replace("(*", "( *").replace("*)", "* )")
    return f"(* {node.lineno}: {t} *)"


# ----------------------------------------------------------------------------- free variables, assignments
def loads(node_or_list) -> set:
    """names loaded (free) in the statements / expression; comprehension and lambda variables are bound"""
    out = set()

    def targets(t, bound):
        for n in ast.walk(t):
            if isinstance(n, ast.Name):
                bound.add(n.id)

    def go(n, bound):
        if isinstance(n, list):
            for x in n:
                go(x, bound)
            return
        if isinstance(n, ast.Name):
            if isinstance(n.ctx, ast.Load) and n.id not in bound:
                out.add(n.id)
            return
        if isinstance(n, (ast.ListComp, ast.SetComp, ast.GeneratorExp, ast.DictComp)):
            b = set(bound)
            for g in n.generators:
                go(g.iter, b)
                targets(g.target, b)
                for c in g.ifs:
                    go(c, b)
            if isinstance(n, ast.DictComp):
                go(n.key, b)
                go(n.value, b)
            else:
                go(n.elt, b)
            return
        if isinstance(n, ast.Lambda):
            b = set(bound) | {a.arg for a in n.args.args}
            go(n.body, b)
            return
        # a mutation through a method / subscript / augmented assignment reads the variable too
        if isinstance(n, (ast.Subscript, ast.Attribute)) and isinstance(n.value, ast.Name) and n.value.id not in bound:
            out.add(n.value.id)
        if isinstance(n, ast.AugAssign) and isinstance(n.target, ast.Name) and n.target.id not in bound:
            out.add(n.target.id)
        for c in ast.iter_child_nodes(n):
            go(c, bound)

    go(node_or_list, set())
    return out


MUTATORS = {"update", "append", "extend", "pop"}


def base_name(node):
    while isinstance(node, (ast.Subscript, ast.Attribute)):
        node = node.value
    return node.id if isinstance(node, ast.Name) else None


def stores(stmts, inplace_calls) -> list:
    """names a block rebinds or mutates, in order of first occurrence.  inplace_calls: callee name -> list of
    (keyword, kind) whose argument variable the callee mutates in place"""
    out = []

    def add(n):
        if n is not None and n not in out:
            out.append(n)

    def tgt(t):
        if isinstance(t, ast.Name):
            add(t.id)
        elif isinstance(t, (ast.Tuple, ast.List)):
            for x in t.elts:
                tgt(x)
        else:
            add(base_name(t))

    for s in stmts:
        for n in ast.walk(s):
            if isinstance(n, ast.Assign):
                for t in n.targets:
                    tgt(t)
            elif isinstance(n, (ast.AnnAssign, ast.AugAssign)):
                tgt(n.target)
            elif isinstance(n, ast.For):
                tgt(n.target)
            elif isinstance(n, ast.Delete):
                for t in n.targets:
                    tgt(t)
            elif isinstance(n, ast.Call):
                f = n.func
                if isinstance(f, ast.Attribute) and f.attr in MUTATORS and isinstance(f.value, ast.Name):
                    add(f.value.id)
                if isinstance(f, ast.Attribute) and f.attr in ("all_gather_object", "broadcast_object_list") and n.args:
                    add(base_name(n.args[0]))
                name = f.id if isinstance(f, ast.Name) else (f.attr if isinstance(f, ast.Attribute) else None)
                for kw_name, _ in inplace_calls.get(name, []):
                    for kw in n.keywords:
                        if kw.arg == kw_name:
                            for x in ast.walk(kw.value):
                                if isinstance(x, ast.Name):
                                    add(x.id)
    return out


def carried(stmts, assigned=None) -> set:
    """names read in the block before they are definitely assigned in it (values carried into the block)"""
    assigned = set(assigned or ())
    out = set()

    def def_targets(t, acc):
        if isinstance(t, ast.Name):
            acc.add(t.id)
        elif isinstance(t, (ast.Tuple, ast.List)):
            for x in t.elts:
                def_targets(x, acc)

    for s in stmts:
        if isinstance(s, ast.If):
            out |= loads(s.test) - assigned
            a1, a2 = set(assigned), set(assigned)
            out |= carried_into(s.body, a1)
            out |= carried_into(s.orelse, a2)
            assigned = a1 & a2
        elif isinstance(s, ast.For):
            out |= loads(s.iter) - assigned
            a1 = set(assigned)
            def_targets(s.target, a1)
            out |= carried_into(s.body, a1)
        elif isinstance(s, (ast.Assign, ast.AnnAssign)):
            if s.value is not None:
                out |= loads(s.value) - assigned
            for t in (s.targets if isinstance(s, ast.Assign) else [s.target]):
                if isinstance(t, (ast.Name, ast.Tuple, ast.List)):
                    def_targets(t, assigned)
                else:
                    out |= loads(t) - assigned
        else:
            out |= loads(s) - assigned
    return out


def carried_into(stmts, assigned: set) -> set:
    """like carried(), updating `assigned` in place with the definite assignments of the block"""
    out = set()
    for s in stmts:
        out |= carried([s], assigned)
        if isinstance(s, (ast.Assign, ast.AnnAssign)):
            for t in (s.targets if isinstance(s, ast.Assign) else [s.target]):
                for x in ([t] if isinstance(t, ast.Name) else (t.elts if isinstance(t, (ast.Tuple, ast.List)) else [])):
                    if isinstance(x, ast.Name):
                        assigned.add(x.id)
    return out


# ----------------------------------------------------------------------------- the functions of snapshot.py
class Sig:
    def __init__(self, py, gname, params, ret, mutated=(), consumed=(), defaults=None, splits=None):
        self.py, self.gname, self.params, self.ret = py, gname, params, ret
        self.splits = splits or {}          # name assigned by a top-level statement -> name of the continuation that starts there
        self.mutated = list(mutated)        # parameters mutated in place whose new value the caller needs: returned
        self.consumed = list(consumed)      # parameters mutated in place that the caller must not use afterwards
        self.defaults = defaults or {}      # parameter -> Python constant
        self.effects = False                # filled by the effect analysis

    def names(self):
        return [n for n, _ in self.params]


SIGS = [
    Sig("_pop_rng_state", "pop_rng_state_gen", [("app_state", SDICT(STATEFUL))], OPT(PAIR(STR, STATEFUL)), mutated=["app_state"]),
    Sig("_gather_keys", "gather_keys_gen", [("keys", LIST(STR)), ("pg_wrapper", PG)], LIST(STR)),
    Sig("_gather_manifest", "gather_manifest_gen", [("manifest", SDICT(ENTRY)), ("pg", PG)], SDICT(ENTRY)),
    Sig("_take_impl", "take_impl_gen",
        [("cls", CLS), ("path", STR), ("app_state", SDICT(STATEFUL)), ("replicated", SET), ("pg_wrapper", PG), ("storage", STORE),
         ("event_loop", LOOP), ("is_async_snapshot", BOOL), ("_custom_tensor_prepare_func", OPT("customfn"))],
        PAIR(STORE, META), defaults={"_custom_tensor_prepare_func": None}, splits={"replicated_paths": "take_impl_tail_gen"}),
    Sig("_get_state_dict_for_manifest", "get_state_dict_for_manifest_gen",
        [("stateful_key", STR), ("manifest", SDICT(ENTRY)), ("flattened", SDICT(OBJ)), ("pg", PG), ("storage", STORE),
         ("event_loop", LOOP), ("replicate_from_rank0", BOOL), ("memory_budget_bytes", OPT(INT))],
        OBJ, consumed=["flattened"], defaults={"replicate_from_rank0": False, "memory_budget_bytes": None}),
    Sig("_load_stateful", "load_stateful_gen",
        [("self", SNAP), ("stateful_key", STR), ("stateful", OPT(STATEFUL)), ("strict", BOOL), ("storage", STORE), ("pg", PG),
         ("event_loop", LOOP), ("memory_budget_bytes", OPT(INT))],
        None, defaults={"memory_budget_bytes": None}),
    Sig("restore", "restore_gen", [("self", SNAP), ("app_state", SDICT(STATEFUL)), ("strict", BOOL)], None, defaults={"strict": True}),
    Sig("read_object", "read_object_gen",
        [("self", SNAP), ("path", STR), ("obj_out", OPT(OBJ)), ("memory_budget_bytes", OPT(INT))], OBJ,
        defaults={"obj_out": None, "memory_budget_bytes": None}),
]

# components: imported name -> module that must define it (relative to torchsnapshot/)
COMPONENT_MODULES = {
    "flatten": "flatten", "inflate": "flatten", "prepare_write": "io_preparer", "prepare_read": "io_preparer",
    "partition_write_reqs": "partitioner", "consolidate_replicated_entries": "partitioner",
    "batch_write_requests": "batcher", "batch_read_requests": "batcher",
    "get_manifest_for_rank": "manifest_ops", "handle_sharded_tensor_elasticity": "manifest_ops",
    "sync_execute_write_reqs": "scheduler", "sync_execute_read_reqs": "scheduler",
    "get_process_memory_budget_bytes": "scheduler", "_MAX_PER_RANK_MEMORY_BUDGET_BYTES": "scheduler",
    "is_batching_disabled": "knobs", "is_container_entry": "manifest_utils",
    "PrimitiveEntry": "manifest", "SnapshotMetadata": "manifest", "RNGState": "rng_state", "PGWrapper": "pg_wrapper",
    "url_to_storage_plugin_in_event_loop": "storage_plugin", "maybe_nested_loop": "asyncio_utils",
    "log_event": "event_handlers", "Event": "event",
}
EFFECT_CALLS = {"prepare_write", "prepare_read", "sync_execute_read_reqs"}
INPLACE_CALLS = {"handle_sharded_tensor_elasticity": [("manifest", "self")], "batch_write_requests": [("entries", "values")]}


class Defs:
    """parameter lists of the components, read from the source tree"""

    def __init__(self):
        self.cache = {}

    def params(self, name):
        if name not in self.cache:
            mod = COMPONENT_MODULES[name]
            path = os.path.join(REPO, "torchsnapshot", mod + ".py")
            tree = ast.parse(open(path).read())
            fn = None
            for n in tree.body:
                if isinstance(n, ast.FunctionDef) and n.name == name:
                    fn = n
            if fn is None:
                raise TranslateError(name, f"def {name} not found in {mod}.py")
            a = fn.args
            if a.vararg or a.kwarg or a.kwonlyargs or a.posonlyargs:
                raise TranslateError(name, "unsupported parameter kinds")
            names = [x.arg for x in a.args]
            defaults = dict(zip(names[len(names) - len(a.defaults):], a.defaults))
            self.cache[name] = (names, defaults)
        return self.cache[name]


def normalise_call(e: ast.Call, names, defaults, where):
    """arguments of a call by parameter name (ast nodes), defaults filled in"""
    if len(e.args) > len(names) or any(isinstance(a, ast.Starred) for a in e.args):
        raise TranslateError(where, f"line {e.lineno}: too many / starred arguments: {ast.unparse(e)[:100]}")
    got = dict(zip(names, e.args))
    for kw in e.keywords:
        if kw.arg is None or kw.arg not in names or kw.arg in got:
            raise TranslateError(where, f"line {e.lineno}: bad keyword argument {kw.arg}: {ast.unparse(e)[:100]}")
        got[kw.arg] = kw.value
    for n in names:
        if n not in got:
            if n not in defaults:
                raise TranslateError(where, f"line {e.lineno}: missing argument {n}: {ast.unparse(e)[:100]}")
            got[n] = defaults[n]
    return got


class Fn:
    """translation of one function of snapshot.py"""

    def __init__(self, fn: ast.FunctionDef, sig: Sig, sigs: dict, defs: Defs):
        self.fn, self.sig, self.sigs, self.defs = fn, sig, sigs, defs
        self.where = "Snapshot." + fn.name
        a = fn.args
        if a.vararg or a.kwarg or a.kwonlyargs or a.posonlyargs:
            raise TranslateError(self.where, "signature changed (parameter kinds)")
        names = [x.arg for x in a.args]
        if names != sig.names():
            raise TranslateError(self.where, f"signature changed: parameters {names}, expected {sig.names()}")
        dnames = names[len(names) - len(a.defaults):]
        got = {}
        for n, d in zip(dnames, a.defaults):
            if not isinstance(d, ast.Constant):
                raise TranslateError(self.where, f"default of {n} is not a constant")
            got[n] = d.value
        if got != sig.defaults:
            raise TranslateError(self.where, f"defaults changed: {got}, expected {sig.defaults}")
        self.env = dict(sig.params)
        self.ntmp = 0
        self.loop_conts = []
        self.conts = {}                     # continuation name -> (parameter names, their types, definition text)
        self.fn_end = None

    # ------------------------------------------------------------------ helpers
    def err(self, node, msg):
        raise TranslateError(self.where, f"line {getattr(node, 'lineno', '?')}: {msg}: {ast.unparse(node)[:120]}")

    def tmp(self) -> str:
        self.ntmp += 1
        return f"t{self.ntmp}"

    @staticmethod
    def v(name: str) -> str:
        return "v_" + name

    def pure(self, e, want=None):
        B, t, ty = self.ex(e, want)
        if B:
            self.err(e, "an expression that can raise is not accepted in this position")
        return t, ty

    def glob(self, e, name) -> bool:
        """e is the module-level name `name` (not shadowed by a local)"""
        return isinstance(e, ast.Name) and e.id == name and name not in self.env

    def dotted(self, e) -> str:
        parts = []
        while isinstance(e, ast.Attribute):
            parts.append(e.attr)
            e = e.value
        if isinstance(e, ast.Name) and e.id not in self.env:
            return ".".join([e.id] + parts[::-1])
        return ""

    def coerce(self, node, t, ty, want):
        """value t of type ty used where `want` is expected"""
        if want is None or same(ty, want):
            return t
        if is_(want, "opt"):
            if ty == NONE:
                return "None"
            if same(ty, want[1]):
                return f"(Some {t})"
        if same(want, SDICT(ENTRY)) and same(ty, SDICT(CENTRY)):
            return f"(lift_conts {t})"
        self.err(node, f"type {ty} where {want} is expected")

    def need_fx(self, node):
        if not self.sig.effects:
            self.err(node, "an effect in a function that the effect analysis found pure")

    # ------------------------------------------------------------------ expressions: (binds, term, type)
    def ex(self, e, want=None):
        if isinstance(e, ast.Name):
            if e.id in self.env:
                ty = self.env[e.id]
                if ty == NONE:
                    return [], "None", NONE
                if ty in ERASED or ty == ("gatherbuf",):
                    return [], "tt", ty
                return [], self.v(e.id), ty
            if e.id == "_MAX_PER_RANK_MEMORY_BUDGET_BYTES":
                return [], "(w_max_budget W)", INT
            self.err(e, "unknown name")
        if isinstance(e, ast.Constant):
            if e.value is None:
                return [], "None", NONE
            if isinstance(e.value, str):
                return [], lit(e.value), STR
            if isinstance(e.value, bool):
                return [], "true" if e.value else "false", BOOL
            if isinstance(e.value, int):
                return [], (f"({e.value})" if e.value < 0 else str(e.value)), INT
        if isinstance(e, ast.Dict) and not e.keys:
            return [], "[]", SDICT(None)
        if isinstance(e, ast.List):
            if not e.elts:
                return [], "[]", LIST(None)
            B, ts, ty = [], [], None
            for x in e.elts:
                Bx, t, tx = self.ex(x)
                if ty is not None and not same(ty, tx):
                    self.err(e, "list literal with elements of different types")
                ty = tx if ty is None else ty
                B += Bx
                ts.append(t)
            return B, "[" + "; ".join(ts) + "]", LIST(ty)
        if isinstance(e, ast.BinOp) and isinstance(e.op, ast.Mult) and isinstance(e.left, ast.List) and len(e.left.elts) == 1 \
                and isinstance(e.left.elts[0], ast.Constant) and e.left.elts[0].value is None:
            n, tn = self.pure(e.right)
            if tn != INT:
                self.err(e, "[None] * non-int")
            return [], "tt", ("gatherbuf",)             # only ever the output buffer of all_gather_object
        if isinstance(e, ast.Tuple) and len(e.elts) == 2:
            B1, a, ta = self.ex(e.elts[0])
            B2, b, tb = self.ex(e.elts[1])
            return B1 + B2, f"({a}, {b})", PAIR(ta, tb)
        if isinstance(e, ast.BoolOp):
            return self.boolop(e)
        if isinstance(e, ast.UnaryOp) and isinstance(e.op, ast.Not):
            B, t, ty = self.ex(e.operand)
            if ty != BOOL:
                self.err(e, "not of a non-bool")
            return B, f"(negb {t})", BOOL
        if isinstance(e, ast.Compare) and len(e.ops) == 1:
            return self.compare(e)
        if isinstance(e, ast.IfExp):
            return self.ifexp(e)
        if isinstance(e, ast.Subscript):
            return self.subscript(e)
        if isinstance(e, ast.Attribute):
            return self.attribute(e)
        if isinstance(e, ast.Call):
            return self.call(e, want)
        if isinstance(e, (ast.GeneratorExp, ast.ListComp)):
            return self.listcomp(e)
        if isinstance(e, ast.DictComp):
            return self.dictcomp(e)
        self.err(e, "unsupported expression")

    def is_none_test(self, e):
        """`x is None` / `x is not None` on a local name -> (name, positive?) else None"""
        if isinstance(e, ast.Compare) and len(e.ops) == 1 and isinstance(e.ops[0], (ast.Is, ast.IsNot)) \
                and isinstance(e.left, ast.Name) and e.left.id in self.env \
                and isinstance(e.comparators[0], ast.Constant) and e.comparators[0].value is None:
            return e.left.id, isinstance(e.ops[0], ast.Is)
        return None

    def boolop(self, e):
        isor = isinstance(e.op, ast.Or)
        if isor and len(e.values) == 2:
            a, b = e.values
            # d1.get(k1) or d2[k2]
            if isinstance(a, ast.Call) and isinstance(a.func, ast.Attribute) and a.func.attr == "get" and isinstance(b, ast.Subscript):
                d1, t1 = self.pure(a.func.value)
                d2, t2 = self.pure(b.value)
                if is_(t1, "sdict") and same(t1, t2) and t1[1] == ENTRY and len(a.args) == 1 and not a.keywords:
                    k1, tk1 = self.pure(a.args[0])
                    k2, tk2 = self.pure(b.slice)
                    if tk1 == STR and tk2 == STR:
                        x = self.tmp()
                        return [(x, f"py_get_or {k1} {d1} {k2} {d2}")], x, t1[1]
                self.err(e, "unsupported `get(..) or ..[..]`")
            ta, tya = self.pure(a)
            if tya == OPT(INT):
                tb, tyb = self.pure(b)
                if tyb != INT:
                    self.err(e, "Optional[int] or non-int")
                return [], f"(py_or_int {ta} {tb})", INT
        ts = []
        for x in e.values:
            t, ty = self.pure(x)
            if ty != BOOL:
                self.err(x, "not a bool")
            ts.append(t)
        return [], "(" + (" || " if isor else " && ").join(ts) + ")", BOOL

    def compare(self, e):
        op, l, r = e.ops[0], e.left, e.comparators[0]
        nt = self.is_none_test(e)
        if nt is not None:
            name, positive = nt
            ty = self.env[name]
            if ty == NONE:
                return [], "true" if positive else "false", BOOL
            if not is_(ty, "opt"):
                return [], "false" if positive else "true", BOOL       # narrowed: known not to be None
            t = f"(is_none {self.v(name)})"
            return [], (t if positive else f"(negb {t})"), BOOL
        B1, a, ta = self.ex(l)
        B2, b, tb = self.ex(r)
        if B1 and B2:
            self.err(e, "both sides can raise")
        if isinstance(op, (ast.In, ast.NotIn)) and ta == STR:
            if is_(tb, "sdict"):
                t = f"(sdict_mem {a} {b})"
            elif tb == SET:
                t = f"(str_memb {a} {b})"
            else:
                self.err(e, "membership in this is not modelled")
            return B1 + B2, (t if isinstance(op, ast.In) else f"(negb {t})"), BOOL
        zc = {ast.Lt: "<?", ast.LtE: "<=?", ast.Gt: ">?", ast.GtE: ">=?", ast.Eq: "=?"}
        if ta == INT and tb == INT and type(op) in zc:
            return B1 + B2, f"({a} {zc[type(op)]} {b})", BOOL
        if ta == INT and tb == INT and isinstance(op, ast.NotEq):
            return B1 + B2, f"(negb ({a} =? {b}))", BOOL
        if ta == STR and tb == STR and isinstance(op, (ast.Eq, ast.NotEq)):
            t = f"(str_eqb {a} {b})"
            return B1 + B2, (t if isinstance(op, ast.Eq) else f"(negb {t})"), BOOL
        self.err(e, "unsupported comparison")

    def ifexp(self, e):
        nt = self.is_none_test(e.test)
        if nt is not None and is_(self.env[nt[0]], "opt"):
            name, positive = nt
            some, none = (e.orelse, e.body) if positive else (e.body, e.orelse)
            saved = dict(self.env)
            self.env[name] = saved[name][1]
            s, ts = self.pure(some)
            self.env[name] = NONE
            n, tn = self.pure(none)
            self.env = saved
            if tn == NONE:
                return [], f"(match {self.v(name)} with Some {self.v(name)} => Some {s} | None => None end)", OPT(ts)
            if not same(ts, tn):
                self.err(e, "branches of different types")
            return [], f"(match {self.v(name)} with Some {self.v(name)} => {s} | None => {n} end)", ts
        c, tc = self.pure(e.test)
        if tc != BOOL:
            self.err(e.test, "condition is not a bool")
        a, ta = self.pure(e.body)
        b, tb = self.pure(e.orelse)
        if not same(ta, tb):
            self.err(e, "branches of different types")
        return [], f"(if {c} then {a} else {b})", ta

    def subscript(self, e):
        B, t, ty = self.ex(e.value)
        if is_(ty, "pair") and isinstance(e.slice, ast.Constant) and e.slice.value in (0, 1):
            return B, f"({'fst' if e.slice.value == 0 else 'snd'} {t})", ty[1 + e.slice.value]
        if ty == LIST(STR) and t.startswith("(split ") and isinstance(e.slice, ast.Constant) and e.slice.value == 0:
            return B, "(split_head " + t[len("(split "):], STR          # s.split("/")[0]: split never returns []
        if is_(ty, "list") and ty[1] is not None and isinstance(e.slice, ast.Constant) and e.slice.value == 0:
            x = self.tmp()
            return B + [(x, f"py_index0 {t}")], x, ty[1]
        if is_(ty, "sdict") and ty[1] is not None:
            k, tk = self.pure(e.slice)
            if tk != STR:
                self.err(e, "non-str key")
            x = self.tmp()
            return B + [(x, f"sdict_get {k} {t}")], x, ty[1]
        self.err(e, "unsupported subscript")

    def attribute(self, e):
        if isinstance(e.value, ast.Name) and self.env.get(e.value.id) == SNAP:
            if e.attr == "metadata":
                return [], f"(snap_metadata {self.v(e.value.id)})", META
            if e.attr in ("path", "pg", "_storage_options"):
                return [], "tt", OPAQUE
            self.err(e, "unknown attribute of the snapshot")
        if e.attr == "obj":
            t, ty = self.pure(e.value)
            if ty == FUT:
                self.need_fx(e)
                return [], f"(fut_obj fx {t})", OBJ
        self.err(e, "unsupported attribute")

    def comp_gen(self, g):
        """one generator: (items term, fun-binder text, restore-env closure); conditions returned separately"""
        if g.is_async:
            raise TranslateError(self.where, "async comprehension")
        items, ity = self.pure(g.iter)
        if not (is_(ity, "list") and ity[1] is not None):
            self.err(g.iter, "comprehension over a non-list")
        tgt = g.target
        if isinstance(tgt, ast.Name):
            self.env[tgt.id] = ity[1]
            binder = f"fun {self.v(tgt.id)} => "
        elif isinstance(tgt, ast.Tuple) and len(tgt.elts) == 2 and all(isinstance(x, ast.Name) for x in tgt.elts) and is_(ity[1], "pair"):
            a, b = tgt.elts
            self.env[a.id], self.env[b.id] = ity[1][1], ity[1][2]
            binder = f"fun it => let {self.v(a.id)} := fst it in let {self.v(b.id)} := snd it in "
        else:
            self.err(tgt, "unsupported comprehension target")
        conds = []
        for c in g.ifs:
            t, ty = self.pure(c)
            if ty != BOOL:
                self.err(c, "not a bool")
            conds.append(t)
        return items, binder, conds

    def listcomp(self, e):
        saved = dict(self.env)
        gens = e.generators
        if len(gens) == 1:
            items, binder, conds = self.comp_gen(gens[0])
            t, ty = self.pure(e.elt)
            self.env = saved
            if conds:
                return [], f"(flat_map ({binder}if {' && '.join(conds)} then [{t}] else []) {items})", LIST(ty)
            return [], f"(map ({binder}{t}) {items})", LIST(ty)
        if len(gens) == 2:
            items1, binder1, conds1 = self.comp_gen(gens[0])
            items2, binder2, conds2 = self.comp_gen(gens[1])
            t, ty = self.pure(e.elt)
            self.env = saved
            if conds1 or conds2:
                self.err(e, "filtered nested comprehension")
            return [], f"(flat_map ({binder1}map ({binder2}{t}) {items2}) {items1})", LIST(ty)
        self.err(e, "comprehension with more than two generators")

    def dictcomp(self, e):
        saved = dict(self.env)
        if len(e.generators) != 1:
            self.err(e, "dict comprehension with several generators")
        items, binder, conds = self.comp_gen(e.generators[0])
        k, tk = self.pure(e.key)
        val, tv = self.pure(e.value)
        self.env = saved
        if tk != STR:
            self.err(e.key, "dict comprehension with non-str keys")
        body = f"[({k}, {val})]"
        if conds:
            body = f"if {' && '.join(conds)} then {body} else []"
        return [], f"(sdict_of_list (flat_map ({binder}{body}) {items}))", SDICT(tv)

    # ------------------------------------------------------------------ calls
    def comp_args(self, e, name, types: dict, binds_ok=()):
        """arguments of a component call by parameter name as Coq terms; the parameter list of the callee (from the
        source tree) must be exactly `types`' keys.  Parameters in binds_ok may be expressions that can raise."""
        names, defaults = self.defs.params(name)
        if set(names) != set(types):
            raise TranslateError(self.where, f"line {e.lineno}: parameters of {name} are {names}, expected {sorted(types)}")
        got = normalise_call(e, names, defaults, self.where)
        B, out = [], {}
        for n in names:
            want = types[n]
            if n in binds_ok:
                Bn, t, ty = self.ex(got[n], want)
                B += Bn
            else:
                t, ty = self.pure(got[n], want)
            if want in ERASED:
                if ty != want:
                    self.err(got[n], f"argument {n} of {name} has type {ty}, expected {want}")
                continue
            out[n] = self.coerce(got[n], t, ty, want)
        return B, out

    def method_call(self, e):
        """a call cls.f(..) / self.f(..) of a translated function -> (binds, 'f_gen W args', sig)"""
        f = e.func
        recv = self.env.get(f.value.id)
        sig = self.sigs[f.attr]
        names = sig.names()
        implicit = None
        if names and names[0] in ("self", "cls"):
            implicit = names[0]
            names = names[1:]
        if implicit == "self" and recv != SNAP:
            self.err(e, "an instance method called on the class")
        got = normalise_call(e, names, {n: ast.Constant(value=v) for n, v in sig.defaults.items()}, self.where)
        B, ts = [], []
        if implicit == "self":
            ts.append(self.v(f.value.id))
        ptypes = dict(sig.params)
        for n in names:
            want = ptypes[n]
            Ba, t, ty = self.ex(got[n], want)
            B += Ba
            if want in ERASED:
                if ty != want:
                    self.err(got[n], f"argument {n} has type {ty}, expected {want}")
                continue
            ts.append(self.coerce(got[n], t, ty, want))
            if n in sig.consumed or n in sig.mutated:
                if not isinstance(got[n], ast.Name):
                    self.err(got[n], f"{n} is mutated in place by the callee: only a variable is accepted")
        if sig.effects:
            self.need_fx(e)
            ts.append("fx")
        return B, f"{sig.gname} W " + " ".join(ts), sig, got

    def is_method_call(self, e):
        return (isinstance(e, ast.Call) and isinstance(e.func, ast.Attribute) and isinstance(e.func.value, ast.Name)
                and self.env.get(e.func.value.id) in (CLS, SNAP) and e.func.attr in self.sigs)

    def call(self, e, want=None):
        f = e.func
        nargs, plain = len(e.args), not e.keywords
        if self.is_method_call(e):
            B, text, sig, _ = self.method_call(e)
            if sig.effects or sig.mutated or sig.ret is None:
                self.err(e, "a call with effects is only accepted as a statement or as the right-hand side of an assignment")
            x = self.tmp()
            return B + [(x, text)], x, sig.ret
        if isinstance(f, ast.Attribute) and isinstance(f.value, ast.Name) and self.env.get(f.value.id) in (CLS, SNAP):
            if f.attr == "_calculate_replicated_entries" and nargs == 3 and plain:
                fl, t1 = self.pure(e.args[0])
                rp, t2 = self.pure(e.args[1])
                _, t3 = self.pure(e.args[2])
                if not (same(t1, SDICT(OBJ)) and t2 == SET and t3 == PG):
                    self.err(e, "unexpected arguments")
                return [], f"(w_calc_replicated W {fl} {rp})", SET
            self.err(e, "call of a method that is not translated")
        dn = self.dotted(f)
        if dn == "os.path.join" and nargs == 2 and plain:
            a, ta = self.pure(e.args[0])
            b, tb = self.pure(e.args[1])
            if (ta, tb) != (STR, STR):
                self.err(e, "os.path.join of non-strs")
            return [], f"(os_join {a} {b})", STR
        if dn == "itertools.chain.from_iterable" and nargs == 1 and plain:
            a, ta = self.pure(e.args[0])
            if not (is_(ta, "list") and is_(ta[1], "list")):
                self.err(e, "chain.from_iterable of this is not modelled")
            return [], f"(concat {a})", ta[1]
        if dn == "functools.partial" and nargs == 2 and plain:
            a, ta = self.pure(e.args[0])
            b, tb = self.pure(e.args[1])
            if (ta, tb) != ("customfn", STR):
                self.err(e, "unsupported partial()")
            return [], f"({a}, {b})", CUSTOM
        if isinstance(f, ast.Name) and f.id not in self.env:
            return self.named_call(e, f.id, want)
        if isinstance(f, ast.Attribute):
            return self.value_method(e)
        self.err(e, "unsupported call")

    def value_method(self, e):
        f = e.func
        nargs, plain = len(e.args), not e.keywords
        B, t, ty = self.ex(f.value)
        if ty == PG and nargs == 0 and plain and f.attr in ("get_rank", "get_world_size"):
            return [], ("(w_rank W)" if f.attr == "get_rank" else "(w_world_size W)"), INT
        if ty == STATEFUL and f.attr == "state_dict" and nargs == 0 and plain:
            return B, f"(sf_state {t})", OBJ
        if ty == ENTRY and f.attr == "get_value" and nargs == 0 and plain:
            x = self.tmp()
            return B + [(x, f"entry_get_value {t}")], x, OBJ
        if ty == STR and f.attr == "split" and nargs == 2 and plain and isinstance(e.args[0], ast.Constant) \
                and e.args[0].value == "/" and isinstance(e.args[1], ast.Constant) and e.args[1].value == 1:
            x = self.tmp()
            return B + [(x, f"py_split1 {t}")], x, PAIR(STR, STR)
        if ty == STR and f.attr == "startswith" and nargs == 1 and plain:
            a, ta = self.pure(e.args[0])
            if ta != STR:
                self.err(e, "startswith of a non-str")
            return B, f"(str_prefixb {a} {t})", BOOL
        if ty == STR and f.attr == "split" and nargs == 1 and plain and isinstance(e.args[0], ast.Constant) and e.args[0].value == "/":
            return B, f"(split {t})", LIST(STR)
        if is_(ty, "sdict") and plain:
            if f.attr == "copy" and nargs == 0:
                return B, t, ty
            if ty[1] is not None and nargs == 0 and f.attr in ("keys", "values", "items"):
                r = {"keys": LIST(STR), "values": LIST(ty[1]), "items": LIST(PAIR(STR, ty[1]))}[f.attr]
                return B, f"(sdict_{f.attr} {t})", r
            if ty[1] is not None and f.attr == "get" and nargs == 1:
                k, tk = self.pure(e.args[0])
                if tk != STR:
                    self.err(e, "non-str key")
                return B, f"(sdict_get {k} {t})", OPT(ty[1])
        self.err(e, "unsupported method call")

    def named_call(self, e, n, want):
        nargs, plain = len(e.args), not e.keywords
        one = nargs == 1 and plain
        if n == "cast" and nargs == 2 and plain:
            return self.ex(e.args[1], want)
        if n == "list" and one:
            B, t, ty = self.ex(e.args[0])
            if is_(ty, "list"):
                return B, t, ty
            self.err(e, "list() of this is not modelled")
        if n == "len" and one:
            B, t, ty = self.ex(e.args[0])
            if is_(ty, "list") or is_(ty, "sdict"):
                return B, f"(Z.of_nat (length {t}))", INT
            self.err(e, "len() of this is not modelled")
        if n == "set" and one:
            t, ty = self.pure(e.args[0])
            if ty != LIST(STR):
                self.err(e, "set() of this is not modelled")
            return [], f"(py_set {t})", SET
        if n == "sorted" and one:
            t, ty = self.pure(e.args[0])
            if ty != LIST(STR):
                self.err(e, "sorted() of this is not modelled")
            return [], f"(py_sorted_str (fun s => s) {t})", LIST(STR)
        if n == "enumerate" and one:
            B, t, ty = self.ex(e.args[0])
            if is_(ty, "list") and ty[1] is not None:
                return B, f"(enumerate {t})", LIST(PAIR(INT, ty[1]))
            self.err(e, "enumerate() of this is not modelled")
        if n == "str" and one:
            B, t, ty = self.ex(e.args[0])
            if ty == INT:
                return B, f"(str_of_Z {t})", STR
            if ty == STR:
                return B, t, STR
            self.err(e, "str() of this is not modelled")
        if n == "int" and one:
            B, t, ty = self.ex(e.args[0])
            if ty != STR:
                self.err(e, "int() of a non-str")
            x = self.tmp()
            return B + [(x, f"parse_int {t}")], x, INT
        if n == "isinstance" and nargs == 2 and plain:
            return self.isinstance_(e)
        if n == "maybe_nested_loop" and nargs == 0 and plain:
            return [], "tt", LOOP
        if n == "_generate_random_int64" and nargs == 0 and plain:
            return [], "tt", OPAQUE
        if n == "PGWrapper" and nargs + len(e.keywords) == 1:
            a = e.args[0] if nargs else e.keywords[0].value
            if not plain and e.keywords[0].arg != "pg":
                self.err(e, "unexpected keyword")
            _, ta = self.pure(a)
            if ta != OPAQUE:
                self.err(e, "PGWrapper of this is not modelled")
            return [], "tt", PG
        if n == "dict" and nargs == 0 and len(e.keywords) == 2 and all(k.arg is None for k in e.keywords):
            a, ta = self.pure(e.keywords[0].value)
            b, tb = self.pure(e.keywords[1].value)
            if not (is_(ta, "sdict") and ta[1] is not None and same(ta, tb)):
                self.err(e, "dict(**a, **b) of these is not modelled")
            x = self.tmp()
            return [(x, f"py_dict_kw2 {a} {b}")], x, ta
        if n not in COMPONENT_MODULES:
            self.err(e, "call of an unknown function")
        # ---- components
        if n == "is_batching_disabled" and nargs == 0 and plain:
            self.defs.params(n)
            return [], "(w_batching_disabled W)", BOOL
        if n == "is_container_entry":
            _, a = self.comp_args(e, n, {"entry": ENTRY})
            return [], f"(is_container_entry_m {a['entry']})", BOOL
        if n == "get_process_memory_budget_bytes":
            self.comp_args(e, n, {"pg": PG})
            return [], "(w_memory_budget W)", INT
        if n == "flatten":
            B, a = self.comp_args(e, n, {"obj": OBJ, "prefix": STR}, binds_ok=("obj",))
            x = self.tmp()
            return B + [(x, f"flatten_run_gen {a['obj']} {a['prefix']}")], x, PAIR(SDICT(CENTRY), SDICT(OBJ))
        if n == "inflate":
            _, a = self.comp_args(e, n, {"manifest": SDICT(ENTRY), "flattened": SDICT(OBJ), "prefix": STR})
            x = self.tmp()
            return [(x, f"inflate_m {a['manifest']} {a['flattened']} {a['prefix']}")], x, OBJ
        if n == "partition_write_reqs":
            _, a = self.comp_args(e, n, {"entries": SDICT(ENTRY), "write_reqs": SDICT(LIST(WREQ)), "pg": PG})
            x = self.tmp()
            return [(x, f"w_partition W {a['entries']} {a['write_reqs']}")], x, PAIR(SDICT(ENTRY), SDICT(LIST(WREQ)))
        if n == "batch_read_requests":
            _, a = self.comp_args(e, n, {"read_reqs": LIST(RREQ)})
            return [], f"(w_batch_read W {a['read_reqs']})", LIST(RREQ)
        if n == "consolidate_replicated_entries":
            _, a = self.comp_args(e, n, {"rank_to_entries": LIST(SDICT(ENTRY)), "dedup": BOOL})
            if a["dedup"] != "true":
                self.err(e, "consolidation without dedup is not modelled")
            x = self.tmp()
            return [(x, f"w_consolidate W {a['rank_to_entries']}")], x, LIST(SDICT(ENTRY))
        if n == "get_manifest_for_rank":
            _, a = self.comp_args(e, n, {"metadata": META, "rank": INT})
            return [], f"(w_manifest_for_rank W {a['metadata']} {a['rank']})", PAIR(SDICT(ENTRY), SDICT(ENTRY))
        if n == "sync_execute_write_reqs":
            _, a = self.comp_args(e, n, {"write_reqs": LIST(WREQ), "storage": STORE, "memory_budget_bytes": INT, "rank": INT,
                                         "event_loop": LOOP})
            return [], f"(exec_write_m {a['storage']} {a['write_reqs']} {a['memory_budget_bytes']} {a['rank']})", STORE
        if n == "SnapshotMetadata" and nargs == 0 and sorted(k.arg for k in e.keywords) == ["manifest", "version", "world_size"]:
            kw = {k.arg: k.value for k in e.keywords}
            if not self.glob(kw["version"], "torchsnapshot_version"):
                self.err(e, "version is not torchsnapshot_version")
            ws, tws = self.pure(kw["world_size"])
            m, tm = self.pure(kw["manifest"])
            if tws != INT or not same(tm, SDICT(ENTRY)):
                self.err(e, "unexpected argument types")
            return [], f"(mkMeta {ws} {m})", META
        if n == "url_to_storage_plugin_in_event_loop" and nargs == 0 and sorted(k.arg for k in e.keywords) == ["event_loop", "storage_options", "url_path"]:
            kw = {k.arg: k.value for k in e.keywords}
            ok = (isinstance(kw["url_path"], ast.Attribute) and kw["url_path"].attr == "path"
                  and isinstance(kw["storage_options"], ast.Attribute) and kw["storage_options"].attr == "_storage_options"
                  and isinstance(kw["url_path"].value, ast.Name) and self.env.get(kw["url_path"].value.id) == SNAP
                  and isinstance(kw["storage_options"].value, ast.Name) and kw["storage_options"].value.id == kw["url_path"].value.id)
            _, tl = self.pure(kw["event_loop"])
            if not ok or tl != LOOP:
                self.err(e, "the storage plugin is not opened on the snapshot's own path")
            return [], f"(snap_store {self.v(kw['url_path'].value.id)})", STORE
        self.err(e, "this component is only accepted in statement position, or with other arguments")

    def isinstance_(self, e):
        x, c = e.args
        t, ty = self.pure(x)
        if isinstance(c, ast.Tuple):
            names = sorted(self.dotted(k) or "?" for k in c.elts)
            if names == ["DTensor", "ShardedTensor", "torch.Tensor"]:
                if ty == OBJ:
                    return [], f"(w_is_tensor W {t})", BOOL
                if ty == OPT(OBJ):
                    return [], f"(opt_test (w_is_tensor W) {t})", BOOL
                if ty == NONE:
                    return [], "false", BOOL
            self.err(e, "unsupported isinstance")
        cn = self.dotted(c)
        if cn == "PrimitiveEntry" and ty == ENTRY:
            return [], f"(is_primitive_entry {t})", BOOL
        if cn == "RNGState" and ty == STATEFUL:
            return [], f"(sf_is_rng {t})", BOOL
        if cn == "torch.nn.Module" and ty == STATEFUL:
            return [], f"(sf_is_module {t})", BOOL
        self.err(e, "unsupported isinstance")

    # ------------------------------------------------------------------ statements (continuation style)
    @staticmethod
    def binds(B, ind) -> str:
        return "".join(f"{ind}{n} <- {t} ;;\n" for n, t in B)

    def ret_text(self, value):
        sig = self.sig
        parts = [] if sig.ret is None else [value]
        parts += [self.v(m) for m in sig.mutated]
        base = parts[0] if len(parts) == 1 else ("(" + ", ".join(parts) + ")" if parts else None)
        if sig.effects:
            return f"Some ({base}, fx)" if base else "Some fx"
        return f"Some {base}" if base else "Some tt"

    def ignorable(self, s) -> bool:
        """statements that cannot change what the function computes in the model"""
        if isinstance(s, ast.Pass):
            return True
        if not (isinstance(s, ast.Expr) and isinstance(s.value, ast.Call)):
            return False
        c = s.value
        dn = self.dotted(c.func)
        if dn == "torch._C._log_api_usage_once":
            return all(isinstance(a, ast.Constant) for a in c.args) and not c.keywords
        if dn == "log_event" and len(c.args) == 1 and not c.keywords:
            ev = c.args[0]
            if isinstance(ev, ast.Call) and self.dotted(ev.func) == "Event" and not ev.args:
                for kw in ev.keywords:
                    for n in ast.walk(kw.value):
                        if isinstance(n, (ast.Call, ast.Await, ast.NamedExpr, ast.Lambda)):
                            return False
                return True
            return False
        f = c.func
        if isinstance(f, ast.Attribute) and isinstance(f.value, ast.Name):
            ty = self.env.get(f.value.id)
            if ty in (CLS, SNAP) and f.attr == "_validate_app_state" and len(c.args) == 1 and not c.keywords \
                    and isinstance(c.args[0], ast.Name) and same(self.env.get(c.args[0].id), SDICT(STATEFUL)):
                return True          # raises for values that are not Stateful: every value of the model is one
            if ty == PG and f.attr == "barrier" and not c.args and not c.keywords:
                return True          # the collective sequence is property C12's subject
            if ty == STORE and f.attr == "sync_close" and not c.args and [k.arg for k in c.keywords] == ["event_loop"]:
                return True
            if ty == LOOP and f.attr == "close" and not c.args and not c.keywords:
                return True
        return False

    def has_effects(self, stmts) -> bool:
        for s in stmts:
            for n in ast.walk(s):
                if isinstance(n, ast.Call):
                    f = n.func
                    if isinstance(f, ast.Name) and f.id in EFFECT_CALLS:
                        return True
                    if isinstance(f, ast.Attribute) and f.attr == "load_state_dict":
                        return True
                    if isinstance(f, ast.Attribute) and f.attr in self.sigs and self.sigs[f.attr].effects:
                        return True
        return False

    def define(self, name, B, t, ty, ind) -> str:
        """name = <expression>"""
        self.env[name] = ty
        if ty == NONE or ty in ERASED or ty == ("gatherbuf",):
            return self.binds(B, ind)
        if B and B[-1][0] == t:
            return self.binds(B[:-1], ind) + f"{ind}{self.v(name)} <- {B[-1][1]} ;;\n"
        return self.binds(B, ind) + f"{ind}let {self.v(name)} := {t} in\n"

    def unpack2(self, target, t, ty, ind, node) -> str:
        if not (is_(ty, "pair") and isinstance(target, ast.Tuple) and len(target.elts) == 2
                and all(isinstance(x, ast.Name) for x in target.elts)):
            self.err(node, "unsupported unpacking")
        out = ""
        for x, proj, tx in zip(target.elts, ("fst", "snd"), ty[1:]):
            if x.id == "_":
                continue
            self.env[x.id] = tx
            out += f"{ind}let {self.v(x.id)} := {proj} {t} in\n"
        return out

    def block(self, stmts, ind, cont, later) -> str:
        if not stmts:
            return cont(ind)
        s, rest = stmts[0], list(stmts[1:])
        if isinstance(s, ast.Expr) and isinstance(s.value, ast.Constant) and isinstance(s.value.value, str):
            return self.block(rest, ind, cont, later)
        if self.ignorable(s):
            return self.block(rest, ind, cont, later)
        k = self.split_here(s, cont)
        if k is not None:
            return self.call_continuation(k, s, rest, ind, later)
        c = f"{ind}{comment(s)}\n"

        def nxt():
            return self.block(rest, ind, cont, later)

        if isinstance(s, ast.Raise):
            return c + f"{ind}None"
        if isinstance(s, ast.Continue):
            if not self.loop_conts:
                self.err(s, "continue outside a loop")
            return c + self.loop_conts[-1](ind)
        if isinstance(s, ast.Return):
            if self.loop_conts:
                self.err(s, "return inside a loop")
            if s.value is None:
                if self.sig.ret is not None:
                    self.err(s, "bare return in a function that returns a value")
                return c + f"{ind}{self.ret_text(None)}"
            if self.sig.ret is None:
                self.err(s, "a procedure returns a value")
            B, t, ty = self.ex(s.value, want=self.sig.ret)
            if is_(self.sig.ret, "pair") and is_(ty, "pair"):
                pass
            t = self.coerce(s.value, t, ty, self.sig.ret)
            return c + self.binds(B, ind) + f"{ind}{self.ret_text(t)}"
        if isinstance(s, ast.If):
            return self.if_(s, rest, ind, cont, later)
        if isinstance(s, ast.For):
            return c + self.for_(s, rest, ind, later) + nxt()
        if isinstance(s, ast.Delete) and len(s.targets) == 1 and isinstance(s.targets[0], ast.Subscript) \
                and isinstance(s.targets[0].value, ast.Name):
            d = s.targets[0].value.id
            if not is_(self.env.get(d), "sdict"):
                self.err(s, "del on this is not modelled")
            k, tk = self.pure(s.targets[0].slice)
            if tk != STR:
                self.err(s, "del with a non-str key")
            return c + f"{ind}{self.v(d)} <- sdict_del {k} {self.v(d)} ;;\n" + nxt()
        if isinstance(s, (ast.Assign, ast.AnnAssign)):
            return c + self.assign(s, ind) + nxt()
        if isinstance(s, ast.AugAssign) and isinstance(s.op, ast.Add) and isinstance(s.target, ast.Name):
            d = s.target.id
            dt = self.env.get(d)
            B, t, ty = self.ex(s.value)
            if not (is_(dt, "list") and same(dt, ty)):
                self.err(s, "unsupported augmented assignment")
            if dt[1] is None:
                self.env[d] = ty
            return c + self.binds(B, ind) + f"{ind}let {self.v(d)} := {self.v(d)} ++ {t} in\n" + nxt()
        if isinstance(s, ast.Expr) and isinstance(s.value, ast.Call):
            return c + self.call_stmt(s, s.value, ind) + nxt()
        self.err(s, "unsupported statement")

    def split_here(self, s, cont):
        """the continuation that starts at this statement (a top-level point of the function where the rest of the body is
        emitted once as a definition of its own and called from every branch that reaches it)"""
        if cont is not self.fn_end or self.loop_conts or getattr(self, "in_cont", None) is s:
            return None
        if isinstance(s, ast.Assign) and len(s.targets) == 1 and isinstance(s.targets[0], ast.Name):
            return self.sig.splits.get(s.targets[0].id)
        return None

    def call_continuation(self, k, s, rest, ind, later):
        stmts = [s] + rest
        live = loads(stmts) | later
        names = [n for n, t in self.env.items() if n in live and t not in ERASED and t != NONE and t != ("gatherbuf",)]
        types = [self.env[n] for n in names]
        for n, t in zip(names, types):
            coqty(t)                                  # the type must be known at the split
        if k not in self.conts:
            saved_env, saved_tmp = dict(self.env), self.ntmp
            self.in_cont = s
            body = self.block(stmts, "  ", self.fn_end, later)
            self.in_cont = None
            self.env, self.ntmp = saved_env, saved_tmp
            sig = self.sig
            parts = [] if sig.ret is None else [coqty(sig.ret)]
            parts += [coqty(dict(sig.params)[m]) for m in sig.mutated]
            base = " * ".join(parts)
            ret = (f"({base}) * effects" if base else "effects") if sig.effects else (base or "unit")
            ps = " ".join(f"({self.v(n)} : {coqty(t)})" for n, t in zip(names, types))
            text = (f"(* snapshot.py:{s.lineno}  the rest of {self.fn.name} from this statement on *)\n"
                    f"Definition {k} (W : world) {ps}{' (fx : effects)' if sig.effects else ''} : option ({ret}) :=\n{body}.\n")
            self.conts[k] = (names, types, text)
        else:
            n0, t0, _ = self.conts[k]
            if n0 != names or not all(same(a, b) for a, b in zip(t0, types)):
                self.err(s, f"the continuation {k} is reached with other live variables: {names} vs {n0}")
        args = " ".join(self.v(n) for n in names)
        return f"{ind}(* {s.lineno}: ... continued in {k} *)\n{ind}{k} W {args}{' fx' if self.sig.effects else ''}"

    def if_(self, s, rest, ind, cont, later):
        head = f"{ind}(* {s.lineno}: if {ast.unparse(s.test)[:90].replace(chr(34), chr(39))} *)\n"
        i2 = ind + "  "
        nt = self.is_none_test(s.test)
        if nt is not None:
            name, positive = nt
            ty = self.env[name]
            none_body, some_body = (s.body, s.orelse) if positive else (s.orelse, s.body)
            if ty == NONE:
                return head + self.block(list(none_body) + rest, ind, cont, later)
            if not is_(ty, "opt"):
                return head + self.block(list(some_body) + rest, ind, cont, later)
            join = self.join_if(s, rest, ind, cont, later, head, [], None, narrow=(name, some_body, none_body))
            if join is not None:
                return join
            saved = dict(self.env)
            self.env[name] = ty[1]
            a = self.block(list(some_body) + rest, i2, cont, later)
            self.env = dict(saved)
            self.env[name] = NONE
            b = self.block(list(none_body) + rest, i2, cont, later)
            self.env = saved
            return head + f"{ind}match {self.v(name)} with\n{ind}| Some {self.v(name)} =>\n{a}\n{ind}| None =>\n{b}\n{ind}end"
        B, t, ty = self.ex(s.test)
        if ty != BOOL:
            self.err(s.test, "condition is not a bool")
        if not s.orelse and all(self.ignorable(x) for x in s.body):
            if B:
                self.err(s.test, "the condition of an observer-only `if` can raise")
            return self.block(rest, ind, cont, later)
        saved = dict(self.env)
        join = self.join_if(s, rest, ind, cont, later, head, B, t)
        if join is not None:
            return join
        a = self.block(list(s.body) + rest, i2, cont, later)
        self.env = dict(saved)
        b = self.block(list(s.orelse) + rest, i2, cont, later)
        self.env = saved
        return head + self.binds(B, ind) + f"{ind}if {t} then\n{a}\n{ind}else\n{b}"

    def join_if(self, s, rest, ind, cont, later, head, B, t, narrow=None):
        """an `if` whose branches only rebind variables that exist already, followed by more statements: the branches are
        joined (`x <- (if c then .. Some x else .. Some x) ;;`) instead of translating the rest once per branch"""
        both = list(s.body) + list(s.orelse)
        if not [x for x in rest if not self.ignorable(x)]:
            return None
        for x in both:
            for n in ast.walk(x):
                if isinstance(n, (ast.Return, ast.Raise, ast.Continue, ast.Break)):
                    return None
        live = loads(rest) | later
        touched = stores(both, INPLACE_CALLS)
        if any(n not in self.env and n in live for n in touched):
            return None
        names = [n for n in touched if n in self.env and n in live and self.env[n] not in ERASED and self.env[n] != NONE]
        fxs = self.has_effects(both)
        vs = [self.v(n) for n in names] + (["fx"] if fxs else [])
        if not vs:
            self.err(s, "an `if` without an effect on the variables that are live after it")
        pack = vs[0] if len(vs) == 1 else "(" + ", ".join(vs) + ")"
        saved = dict(self.env)
        i2 = ind + "  "
        ends = []

        def branch_end(i):
            ends.append({n: self.env.get(n) for n in names})
            return f"{i}Some {pack}"

        saved_loops, self.loop_conts = self.loop_conts, []
        try:
            if narrow is None:
                a = self.block(list(s.body), i2, branch_end, live)
                self.env = dict(saved)
                b = self.block(list(s.orelse), i2, branch_end, live)
            else:
                self.env[narrow[0]] = saved[narrow[0]][1]
                a = self.block(list(narrow[1]), i2, branch_end, live)
                self.env = dict(saved)
                self.env[narrow[0]] = NONE
                b = self.block(list(narrow[2]), i2, branch_end, live)
        finally:
            self.loop_conts = saved_loops
            self.env = saved
        for n in names:
            tys = [e[n] for e in ends]
            if narrow is not None and n == narrow[0]:
                if not same(tys[0], tys[1]) or tys[0] == NONE:
                    return None
                self.env[n] = tys[0]
                continue
            for ty in tys:
                if not same(ty, saved[n]):
                    return None
                if (is_(saved[n], "sdict") or is_(saved[n], "list")) and saved[n][1] is None and ty[1] is not None:
                    self.env[n] = ty
        st = f"j{s.lineno}"
        out = head + self.binds(B, ind)
        first = st if len(vs) > 1 else vs[0]
        if narrow is None:
            out += f"{ind}{first} <- (if {t} then\n{a}\n{ind}else\n{b}) ;;\n"
        else:
            x = self.v(narrow[0])
            out += f"{ind}{first} <- (match {x} with\n{ind}| Some {x} =>\n{a}\n{ind}| None =>\n{b}\n{ind}end) ;;\n"
        if len(vs) > 1:
            out += f"{ind}let '{pack} := {st} in\n"
        return out + self.block(rest, ind, cont, later)

    def assign(self, s, ind) -> str:
        if isinstance(s, ast.Assign):
            if len(s.targets) != 1:
                self.err(s, "chained assignment")
            target, value, annot = s.targets[0], s.value, None
        else:
            target, value = s.target, s.value
            annot = ANNOT.get(ast.unparse(s.annotation))
            if value is None:
                self.err(s, "annotation without a value")
        # ---- calls with effects / in-place mutation on the right-hand side
        if self.is_method_call(value):
            B, text, sig, got = self.method_call(value)
            x = self.tmp()
            out = self.binds(B, ind) + f"{ind}{x} <- {text} ;;\n"
            src = x
            if sig.effects:
                out += f"{ind}let fx := snd {x} in\n"
                src = f"(fst {x})"
            if sig.ret is None:
                self.err(s, "assignment from a procedure")
            if sig.mutated:
                for i, m in enumerate(sig.mutated):
                    if len(sig.mutated) != 1:
                        self.err(s, "several mutated parameters")
                    out += f"{ind}let {self.v(got[m].id)} := snd {src} in\n"
                src = f"(fst {src})"
            if isinstance(target, ast.Name):
                self.env[target.id] = sig.ret
                return out + f"{ind}let {self.v(target.id)} := {src} in\n"
            return out + self.unpack2(target, src, sig.ret, ind, s)
        if isinstance(value, ast.Call) and self.glob(value.func, "prepare_write"):
            self.need_fx(s)
            types = {"obj": OBJ, "logical_path": STR, "rank": INT, "replicated": BOOL, "is_async_snapshot": BOOL,
                     "_tensor_prepare_func": OPT(CUSTOM)}
            B, a = self.comp_args(value, "prepare_write", types)
            x = self.tmp()
            call = (f"prepare_write_fx W (mkWcall {a['obj']} {a['logical_path']} {a['rank']} {a['replicated']} "
                    f"{a['is_async_snapshot']} {a['_tensor_prepare_func']}) fx")
            out = self.binds(B, ind) + f"{ind}let {x} := {call} in\n{ind}let fx := snd {x} in\n"
            return out + self.unpack2(target, f"(fst {x})", PAIR(ENTRY, LIST(WREQ)), ind, s)
        if isinstance(value, ast.Call) and self.glob(value.func, "prepare_read"):
            self.need_fx(s)
            types = {"entry": ENTRY, "obj_out": OPT(OBJ), "buffer_size_limit_bytes": OPT(INT)}
            B, a = self.comp_args(value, "prepare_read", types)
            x = self.tmp()
            out = self.binds(B, ind) + (f"{ind}{x} <- prepare_read_fx {a['entry']} {a['obj_out']} {a['buffer_size_limit_bytes']} fx ;;\n"
                                        f"{ind}let fx := snd {x} in\n")
            return out + self.unpack2(target, f"(fst {x})", PAIR(LIST(RREQ), FUT), ind, s)
        if isinstance(value, ast.Call) and self.glob(value.func, "batch_write_requests"):
            # the callee relocates the entry objects IN PLACE: the dict whose values were passed sees the new entries
            names, defaults = self.defs.params("batch_write_requests")
            if names != ["entries", "write_reqs", "slab_size_threshold_bytes"]:
                raise TranslateError(self.where, f"parameters of batch_write_requests are {names}")
            got = normalise_call(value, names, defaults, self.where)
            ent = got["entries"]
            if not (isinstance(got["slab_size_threshold_bytes"], ast.Constant) and got["slab_size_threshold_bytes"].value is None):
                self.err(s, "explicit slab threshold")
            ok = (isinstance(ent, ast.Call) and self.glob(ent.func, "list") and len(ent.args) == 1 and not ent.keywords
                  and isinstance(ent.args[0], ast.Call) and isinstance(ent.args[0].func, ast.Attribute)
                  and ent.args[0].func.attr == "values" and isinstance(ent.args[0].func.value, ast.Name)
                  and not ent.args[0].args and not ent.args[0].keywords)
            if not ok:
                self.err(s, "entries= is not list(<dict>.values()): the in-place relocation cannot be followed")
            d = ent.args[0].func.value.id
            if not same(self.env.get(d), SDICT(ENTRY)):
                self.err(s, "entries= does not come from a dict of entries")
            wr, twr = self.pure(got["write_reqs"])
            if not same(twr, LIST(WREQ)):
                self.err(s, "write_reqs= is not a list of write requests")
            x = self.tmp()
            out = (f"{ind}let {x} := w_batch_write W (sdict_values {self.v(d)}) {wr} in\n"
                   f"{ind}let {self.v(d)} := sdict_with_values {self.v(d)} (fst {x}) in\n")
            if isinstance(target, ast.Name):
                self.env[target.id] = PAIR(LIST(ENTRY), LIST(WREQ))
                return out + f"{ind}let {self.v(target.id)} := {x} in\n"
            return out + self.unpack2(target, x, PAIR(LIST(ENTRY), LIST(WREQ)), ind, s)
        # ---- plain assignments
        if isinstance(target, ast.Name):
            B, t, ty = self.ex(value, want=annot)
            if annot is not None and ty != ("gatherbuf",):
                if not same(ty, annot):
                    self.err(s, f"value of type {ty} annotated {annot}")
                ty = annot if (is_(ty, "sdict") or is_(ty, "list")) and ty[1] is None else ty
            return self.define(target.id, B, t, ty, ind)
        if isinstance(target, ast.Tuple):
            B, t, ty = self.ex(value)
            return self.binds(B, ind) + self.unpack2(target, t, ty, ind, s)
        if isinstance(target, ast.Subscript) and isinstance(target.value, ast.Name):
            d = target.value.id
            dt = self.env.get(d)
            if not is_(dt, "sdict"):
                self.err(s, "item assignment on this is not modelled")
            Bk, k, tk = self.ex(target.slice)
            if tk != STR:
                self.err(s, "non-str key")
            B, t, ty = self.ex(value, want=dt[1])
            if dt[1] is not None:
                t = self.coerce(value, t, ty, dt[1])
            else:
                self.env[d] = SDICT(ty)
            return self.binds(B + Bk, ind) + f"{ind}let {self.v(d)} := sdict_set {k} {t} {self.v(d)} in\n"
        self.err(s, "unsupported assignment target")

    def call_stmt(self, s, e, ind) -> str:
        f = e.func
        if self.is_method_call(e):
            B, text, sig, _ = self.method_call(e)
            if sig.ret is not None or sig.mutated or not sig.effects:
                self.err(s, "the result of this call is dropped")
            return self.binds(B, ind) + f"{ind}fx <- {text} ;;\n"
        if isinstance(f, ast.Attribute) and isinstance(f.value, ast.Name) and f.value.id in self.env:
            d, dt = f.value.id, self.env[f.value.id]
            if f.attr == "update" and is_(dt, "sdict") and len(e.args) == 1 and not e.keywords:
                B, t, ty = self.ex(e.args[0])
                if dt[1] is None and is_(ty, "sdict"):
                    self.env[d] = dt = ty
                t = self.coerce(e.args[0], t, ty, dt)
                return self.binds(B, ind) + f"{ind}let {self.v(d)} := sdict_update {self.v(d)} {t} in\n"
            if f.attr == "append" and is_(dt, "list") and len(e.args) == 1 and not e.keywords:
                B, t, ty = self.ex(e.args[0])
                if dt[1] is None:
                    self.env[d] = LIST(ty)
                elif not same(dt[1], ty):
                    self.err(s, "append of another type")
                return self.binds(B, ind) + f"{ind}let {self.v(d)} := {self.v(d)} ++ [{t}] in\n"
            if f.attr == "load_state_dict" and dt == STATEFUL and len(e.args) == 1:
                self.need_fx(s)
                B, t, ty = self.ex(e.args[0])
                if ty != OBJ:
                    self.err(s, "load_state_dict of a non-object")
                strict = "None"
                if e.keywords:
                    if [k.arg for k in e.keywords] != ["strict"]:
                        self.err(s, "unexpected keyword")
                    st, tst = self.pure(e.keywords[0].value)
                    if tst != BOOL:
                        self.err(s, "strict is not a bool")
                    strict = f"(Some {st})"
                return self.binds(B, ind) + f"{ind}let fx := fx_load fx {self.v(d)} {t} {strict} in\n"
            if f.attr == "all_gather_object" and dt == PG and len(e.args) == 2 and not e.keywords and isinstance(e.args[0], ast.Name):
                out_name = e.args[0].id
                if self.env.get(out_name) != ("gatherbuf",):
                    self.err(s, "the output of all_gather_object is not a fresh [None] * world_size")
                t, ty = self.pure(e.args[1])
                self.env[out_name] = LIST(ty)
                return f"{ind}let {self.v(out_name)} := w_all_gather W _ {t} in\n"
        if self.glob(f, "handle_sharded_tensor_elasticity"):
            types = {"manifest": SDICT(ENTRY), "merged_sd_entries": SDICT(ENTRY), "tensor_requests": LIST(STR)}
            names, defaults = self.defs.params("handle_sharded_tensor_elasticity")
            got = normalise_call(e, names, defaults, self.where)
            if not isinstance(got.get("manifest"), ast.Name):
                self.err(s, "manifest= is mutated in place: only a variable is accepted")
            _, a = self.comp_args(e, "handle_sharded_tensor_elasticity", types)
            m = got["manifest"].id
            return f"{ind}let {self.v(m)} := w_elasticity W {a['manifest']} {a['merged_sd_entries']} {a['tensor_requests']} in\n"
        if self.glob(f, "sync_execute_read_reqs"):
            self.need_fx(s)
            types = {"read_reqs": LIST(RREQ), "storage": STORE, "memory_budget_bytes": INT, "rank": INT, "event_loop": LOOP}
            _, a = self.comp_args(e, "sync_execute_read_reqs", types)
            return f"{ind}let fx := exec_read_fx W fx {a['storage']} {a['read_reqs']} {a['memory_budget_bytes']} {a['rank']} in\n"
        self.err(s, "unsupported call statement")

    def for_(self, s: ast.For, rest, ind, later) -> str:
        if s.orelse:
            self.err(s, "for/else")
        B, items, ity = self.ex(s.iter)
        if not (is_(ity, "list") and ity[1] is not None):
            self.err(s.iter, "loop over a non-list")
        before = dict(self.env)
        touched = stores(s.body, INPLACE_CALLS)
        live = loads(rest) | later | carried(s.body, self.loop_targets(s.target))
        state = [n for n in before if n in touched and n in live and before[n] not in ERASED and before[n] != NONE]
        fxs = self.has_effects(s.body)
        if fxs:
            self.need_fx(s)
        vs = [self.v(n) for n in state] + (["fx"] if fxs else [])
        if not vs:
            self.err(s, "loop without an effect on the variables that are live after it")
        d = len(self.loop_conts)
        st, it = (f"st{d}" if d else "st"), (f"it{d}" if d else "it")
        pack = vs[0] if len(vs) == 1 else "(" + ", ".join(vs) + ")"
        ind2 = ind + "    "
        head = f"{ind2}let '{pack} := {st} in\n" if len(vs) > 1 else ""
        tgt = s.target
        if isinstance(tgt, ast.Name):
            self.env[tgt.id] = ity[1]
            head += f"{ind2}let {self.v(tgt.id)} := {it} in\n"
        elif isinstance(tgt, ast.Tuple) and len(tgt.elts) == 2 and all(isinstance(x, ast.Name) for x in tgt.elts) and is_(ity[1], "pair"):
            a, b = tgt.elts
            self.env[a.id], self.env[b.id] = ity[1][1], ity[1][2]
            head += f"{ind2}let {self.v(a.id)} := fst {it} in\n{ind2}let {self.v(b.id)} := snd {it} in\n"
        else:
            self.err(tgt, "unsupported loop target")
        final = {}

        def body_cont(i2):
            for n in state:
                if before[n] != self.env.get(n) and n not in final:
                    final[n] = self.env.get(n)
            return f"{i2}Some {pack}"

        self.loop_conts.append(body_cont)
        body = self.block(list(s.body), ind2, body_cont, live | loads(s.body))
        self.loop_conts.pop()
        self.env = before
        for n, t in final.items():
            if not same(t, before[n]):
                self.err(s, f"the loop changes the type of {n}")
            self.env[n] = t
        out = self.binds(B, ind)
        first = st if len(vs) > 1 else vs[0]
        out += f"{ind}{first} <- py_for {items} {pack} (fun {first} {it} =>\n{head}{body}) ;;\n"
        if len(vs) > 1:
            out += f"{ind}let '{pack} := {st} in\n"
        return out

    @staticmethod
    def loop_targets(t) -> set:
        return {n.id for n in ast.walk(t) if isinstance(n, ast.Name)}

    # ------------------------------------------------------------------ the definition
    def emit(self) -> str:
        sig = self.sig
        body_stmts = list(self.fn.body)

        def end(ind):
            if sig.ret is not None:
                raise TranslateError(self.where, "control reaches the end of the function without return / raise")
            return f"{ind}{self.ret_text(None)}"

        self.fn_end = end
        body = self.block(body_stmts, "  ", end, set())
        missing = [k for k in sig.splits.values() if k not in self.conts]
        if missing:
            raise TranslateError(self.where, f"the statements at which {missing} start were not found at the top level")
        ps = " ".join(f"({self.v(n)} : {coqty(t)})" for n, t in sig.params if t not in ERASED)
        parts = [] if sig.ret is None else [coqty(sig.ret)]
        parts += [coqty(dict(sig.params)[m]) for m in sig.mutated]
        base = " * ".join(parts)
        if sig.effects:
            ret = f"({base}) * effects" if base else "effects"
        else:
            ret = base or "unit"
        head = f"(* snapshot.py:{self.fn.lineno}  def {self.fn.name}({', '.join(sig.names())}) *)\n"
        pre = "".join(t + "\n" for _, _, t in self.conts.values())
        return pre + head + f"Definition {sig.gname} (W : world) {ps}{' (fx : effects)' if sig.effects else ''} : option ({ret}) :=\n{body}.\n"


def _check_imports(tree: ast.Module):
    found = {}
    for n in tree.body:
        if isinstance(n, ast.ImportFrom) and n.level == 1:
            for a in n.names:
                if a.asname is None:
                    found[a.name] = n.module
    for name, mod in COMPONENT_MODULES.items():
        if found.get(name) != mod:
            raise TranslateError("imports", f"{name} is not imported from .{mod} (found {found.get(name)})")
    plain = {a.name for n in tree.body if isinstance(n, ast.Import) for a in n.names if a.asname is None}
    for m in ("os", "itertools", "functools", "torch"):
        if m not in plain:
            raise TranslateError("imports", f"import {m} not found")
    shadow = {"list", "dict", "str", "int", "len", "set", "sorted", "enumerate", "isinstance", "cast"} - {"cast"}
    tops = {n.name for n in tree.body if isinstance(n, (ast.FunctionDef, ast.ClassDef))} | set(found)
    if tops & shadow:
        raise TranslateError("module", f"builtin shadowed: {sorted(tops & shadow)}")


def _check_is_container_entry():
    """manifest_utils.is_container_entry is exactly isinstance(entry, (ListEntry, DictEntry, OrderedDictEntry))"""
    path = os.path.join(REPO, "torchsnapshot", "manifest_utils.py")
    tree = normalise(ast.parse(open(path).read()))
    fn = next((n for n in tree.body if isinstance(n, ast.FunctionDef) and n.name == "is_container_entry"), None)
    ok = False
    if fn is not None and len(fn.body) == 1 and isinstance(fn.body[0], ast.Return) and len(fn.args.args) == 1:
        c = fn.body[0].value
        if (isinstance(c, ast.Call) and isinstance(c.func, ast.Name) and c.func.id == "isinstance" and len(c.args) == 2
                and isinstance(c.args[0], ast.Name) and c.args[0].id == fn.args.args[0].arg and isinstance(c.args[1], ast.Tuple)
                and sorted(getattr(x, "id", "?") for x in c.args[1].elts) == ["DictEntry", "ListEntry", "OrderedDictEntry"]):
            ok = True
    if not ok:
        raise TranslateError("manifest_utils.is_container_entry", "not `return isinstance(entry, (ListEntry, DictEntry, OrderedDictEntry))`")


DECORATORS = {"_pop_rng_state": "staticmethod", "_gather_keys": "staticmethod", "_gather_manifest": "staticmethod",
              "_take_impl": "classmethod", "_get_state_dict_for_manifest": "staticmethod", "_load_stateful": None,
              "restore": None, "read_object": None}


def generate() -> dict:
    path = os.path.join(REPO, "torchsnapshot", "snapshot.py")
    tree = normalise(ast.parse(open(path).read(), filename=path))
    _check_imports(tree)
    _check_is_container_entry()
    cls = next((n for n in tree.body if isinstance(n, ast.ClassDef) and n.name == "Snapshot"), None)
    if cls is None:
        raise TranslateError("Snapshot", "class not found")
    fns = {}
    for n in cls.body:
        if isinstance(n, ast.FunctionDef):
            if n.name in fns:
                raise TranslateError("Snapshot." + n.name, "defined twice")
            fns[n.name] = n
    sigs = {s.py: s for s in SIGS}
    for s in SIGS:
        if s.py not in fns:
            raise TranslateError("Snapshot." + s.py, "method not found")
        decs = [ast.unparse(d) for d in fns[s.py].decorator_list]
        if decs != ([DECORATORS[s.py]] if DECORATORS[s.py] else []):
            raise TranslateError("Snapshot." + s.py, f"decorators {decs}")
    # effect analysis: least fixed point over the calls between the translated methods
    changed = True
    while changed:
        changed = False
        for s in SIGS:
            if s.effects:
                continue
            for n in ast.walk(fns[s.py]):
                if isinstance(n, ast.Call):
                    f = n.func
                    if (isinstance(f, ast.Name) and f.id in EFFECT_CALLS) or (isinstance(f, ast.Attribute) and (
                            f.attr == "load_state_dict" or (f.attr in sigs and sigs[f.attr].effects))):
                        s.effects = True
                        changed = True
                        break
    defs = Defs()
    out = [Fn(fns[s.py], s, sigs, defs).emit() for s in SIGS]
    text = ("(* generated by translator/gen_glue.py from torchsnapshot/snapshot.py on every run - do not edit.\n"
            "   Statement-by-statement translation of the glue; the number in each comment is the source line.  Vocabulary:\n"
            "   model/Glue.v (entries, requests, the world record, effects), model/FlattenPy.v (Python dicts, option monad). *)\n"
            "From TS Require Import model.Base model.Flatten model.FlattenPy model.StoragePath model.FlattenGenObs model.Glue.\n\n"
            + "\n".join(out))
    return {"GlueGen": text}
