"""T-coll: collective skeletons of Snapshot.take / async_take / restore -> coq/gen/CollGen.v.

Interprocedural and fail closed.  Every function of torchsnapshot from which a PGWrapper collective is reachable is
inlined (as a Scope); every branch / loop on the way to a collective is classified Uniform only when its condition
is on the explicit list below (job-wide knobs, the gathered global key list) or can be decided statically
(`x is None` on a parameter whose argument at the call site is visibly not None); everything else is Local.
Unknown statement shapes, ambiguous call targets, collectives inside exception handlers / comprehensions /
lambdas, and recursion raise TranslateError."""
from __future__ import annotations

import ast
import glob
import json
import os

from lib.core import REPO
from .pyast import TranslateError, normalise, src

OUTPUTS = ["CollGen"]
COLLECTIVES = {"barrier": 0, "broadcast_object_list": 1, "all_gather_object": 2, "scatter_object_list": 3}
EXCLUDE_FILES = {"pg_wrapper.py", "test_utils.py"}

# conditions that evaluate identically on every rank (recorded as assumptions of C12)
UNIFORM_TESTS = {
    "'TORCHSNAPSHOT_PER_RANK_MEMORY_BUDGET_BYTES' in os.environ": "memory-budget override is set identically on all ranks",
    "not is_batching_disabled()": "batching knob identical on all ranks",
    "is_batching_disabled()": "batching knob identical on all ranks",
    "os.environ.get('TORCH_SNAPSHOT_DISABLE_PARTITIONER') is not None": "partitioner knob identical on all ranks",
    "dist.is_initialized()": "torch.distributed initialised on all ranks or on none",
    "store is not None": "a default store exists on all ranks or on none",
    "pg_wrapper.pg in _pg_to_store": "the bootstrap store cache is filled on all ranks or on none",
}
UNIFORM_ITERS = {"global_keys": "global key list gathered with all_gather_object and sorted: identical on all ranks"}


class Fn:
    def __init__(self, module, cls, node):
        self.module, self.cls, self.node = module, cls, node
        self.qual = f"{module}:{cls + '.' if cls else ''}{node.name}"


def load():
    fns, classes = {}, {}
    files = sorted(glob.glob(os.path.join(REPO, "torchsnapshot", "*.py")) + glob.glob(os.path.join(REPO, "torchsnapshot", "io_preparers", "*.py")))
    for f in files:
        base = os.path.basename(f)
        if base in EXCLUDE_FILES:
            continue
        mod = normalise(ast.parse(open(f).read(), filename=f))

        def visit(node, cls):
            for n in ast.iter_child_nodes(node):
                if isinstance(n, ast.ClassDef):
                    classes.setdefault(n.name, []).append((base, n))
                    visit(n, n.name)
                elif isinstance(n, (ast.FunctionDef, ast.AsyncFunctionDef)):
                    fns.setdefault(n.name, []).append(Fn(base, cls, n))
                    visit(n, cls)
                else:
                    visit(n, cls)
        visit(mod, None)
    return fns, classes


def call_name(c: ast.Call):
    f = c.func
    if isinstance(f, ast.Name):
        return f.id, None
    if isinstance(f, ast.Attribute):
        return f.attr, f.value
    return None, None


def is_collective(c: ast.Call):
    name, recv = call_name(c)
    if name in COLLECTIVES and recv is not None:
        if isinstance(recv, ast.Name) and recv.id == "dist":
            raise TranslateError("collectives", f"direct torch.distributed collective outside pg_wrapper.py: {src(c)}")
        return COLLECTIVES[name]
    return None


class Translator:
    def __init__(self):
        self.fns, self.classes = load()
        self.reach = self.compute_reach()
        self.nid = 0
        self.ids = {}          # id -> description
        self.assumptions = set()

    # ---- which functions can reach a collective --------------------------------
    def direct_calls(self, fn: Fn):
        names, has = set(), False
        for n in ast.walk(fn.node):
            if isinstance(n, ast.Call):
                if is_collective(n) is not None:
                    has = True
                nm, _ = call_name(n)
                if nm:
                    names.add(nm)
        return names, has

    def compute_reach(self):
        info = {}
        for name, lst in self.fns.items():
            for fn in lst:
                info[fn.qual] = (fn, *self.direct_calls(fn))
        reach = {q for q, (_, _, has) in info.items() if has}
        changed = True
        while changed:
            changed = False
            for q, (fn, names, _) in info.items():
                if q in reach:
                    continue
                for nm in names:
                    targets = [] if nm.startswith("__") else [t.qual for t in self.fns.get(nm, [])]
                    if nm in self.classes:
                        targets += [t.qual for t in self.fns.get("__init__", []) if t.cls == nm]
                    if any(t in reach for t in targets):
                        reach.add(q)
                        changed = True
                        break
        return reach

    def resolve(self, c: ast.Call, where: str):
        nm, recv = call_name(c)
        if nm is None:
            return None
        cands = [] if nm.startswith("__") else [t for t in self.fns.get(nm, []) if t.qual in self.reach]
        if nm in self.classes:
            cands += [t for t in self.fns.get("__init__", []) if t.cls == nm and t.qual in self.reach]
        if not cands:
            return None
        if len(cands) > 1:
            raise TranslateError(where, f"call {src(c)[:60]} may reach collectives through several functions: {[t.qual for t in cands]}")
        return cands[0]

    # ---- expressions: calls in evaluation order ------------------------------------
    def calls_in(self, e: ast.AST, where: str):
        out = []

        def visit(n):
            if isinstance(n, (ast.Lambda, ast.ListComp, ast.SetComp, ast.DictComp, ast.GeneratorExp)):
                for m in ast.walk(n):
                    if isinstance(m, ast.Call) and (is_collective(m) is not None or self.resolve(m, where) is not None):
                        raise TranslateError(where, f"collective reachable inside a lambda/comprehension: {src(n)[:80]}")
                return
            if isinstance(n, ast.Call):
                for a in n.args:
                    visit(a)
                for k in n.keywords:
                    visit(k.value)
                if isinstance(n.func, ast.Attribute):
                    visit(n.func.value)
                out.append(n)
                return
            for ch in ast.iter_child_nodes(n):
                visit(ch)
        if e is not None:
            visit(e)
        return out

    def expr(self, e, where, nonnull, stack):
        parts = []
        for c in self.calls_in(e, where):
            k = is_collective(c)
            if k is not None:
                parts.append(f"Coll {k}")
                continue
            t = self.resolve(c, where)
            if t is not None:
                parts.append(self.inline(t, c, nonnull, stack))
        return seq(parts)

    # ---- statements ----------------------------------------------------------------
    def fresh(self, desc):
        self.nid += 1
        self.ids[self.nid] = desc
        return self.nid

    def static_none(self, test, nonnull, params):
        """decide `x is None` / `x is not None` for a parameter x with known nullness; else None"""
        if isinstance(test, ast.Compare) and len(test.ops) == 1 and isinstance(test.comparators[0], ast.Constant) and test.comparators[0].value is None \
                and isinstance(test.left, ast.Name) and test.left.id in params:
            st = nonnull.get(test.left.id)
            if st is None:
                return None
            if isinstance(test.ops[0], ast.Is):
                return st == "none"
            if isinstance(test.ops[0], ast.IsNot):
                return st == "nonnull"
        return None

    def block(self, stmts, where, nonnull, stack, params):
        return seq([self.stmt(s, where, nonnull, stack, params) for s in stmts])

    def stmt(self, s, where, nonnull, stack, params):
        if isinstance(s, (ast.Expr, ast.Assign, ast.AnnAssign, ast.AugAssign)):
            r = self.expr(s.value, where, nonnull, stack) if getattr(s, "value", None) is not None else "Skip"
            if isinstance(s, ast.Assign) and len(s.targets) == 1 and isinstance(s.targets[0], ast.Name):
                nonnull[s.targets[0].id] = self.nullness(s.value, nonnull)
            return r
        if isinstance(s, ast.Return):
            return seq([self.expr(s.value, where, nonnull, stack), "Ret"])
        if isinstance(s, ast.If):
            pre = self.expr(s.test, where, nonnull, stack)
            dec = self.static_none(s.test, nonnull, params)
            a = self.block(s.body, where, dict(nonnull), stack, params)
            b = self.block(s.orelse, where, dict(nonnull), stack, params)
            if dec is True:
                return seq([pre, a])
            if dec is False:
                return seq([pre, b])
            if a == "Skip" and b == "Skip":
                return pre
            t = src(s.test)
            if t in UNIFORM_TESTS:
                self.assumptions.add(UNIFORM_TESTS[t])
                return seq([pre, f"IfU {self.fresh('U: ' + where + ': if ' + t)} ({a}) ({b})"])
            return seq([pre, f"IfL {self.fresh('L: ' + where + ': if ' + t)} ({a}) ({b})"])
        if isinstance(s, (ast.For, ast.AsyncFor)):
            pre = self.expr(s.iter, where, nonnull, stack)
            body = self.block(s.body + s.orelse, where, dict(nonnull), stack, params)
            if body == "Skip":
                return pre
            it = src(s.iter)
            if it in UNIFORM_ITERS:
                self.assumptions.add(UNIFORM_ITERS[it])
                return seq([pre, f"LoopU {self.fresh('U: ' + where + ': for ' + src(s.target) + ' in ' + it)} ({body})"])
            return seq([pre, f"LoopL {self.fresh('L: ' + where + ': for ' + src(s.target) + ' in ' + it)} ({body})"])
        if isinstance(s, ast.While):
            body = seq([self.expr(s.test, where, nonnull, stack), self.block(s.body, where, dict(nonnull), stack, params)])
            if body == "Skip":
                return "Skip"
            return f"LoopL {self.fresh('L: ' + where + ': while ' + src(s.test)[:60])} ({body})"
        if isinstance(s, ast.Try):
            for h in s.handlers:
                hb = self.block(h.body, where, dict(nonnull), stack, params)
                if "Coll" in hb:
                    raise TranslateError(where, "collective reachable from an exception handler")
            return seq([self.block(s.body, where, nonnull, stack, params), self.block(s.orelse, where, nonnull, stack, params),
                        self.block(s.finalbody, where, nonnull, stack, params)])
        if isinstance(s, (ast.With, ast.AsyncWith)):
            pre = [self.expr(i.context_expr, where, nonnull, stack) for i in s.items]
            return seq(pre + [self.block(s.body, where, nonnull, stack, params)])
        if isinstance(s, (ast.Raise, ast.Assert, ast.Pass, ast.Delete, ast.Global, ast.Nonlocal, ast.Import, ast.ImportFrom,
                          ast.FunctionDef, ast.AsyncFunctionDef, ast.ClassDef, ast.Break, ast.Continue)):
            if isinstance(s, (ast.Break, ast.Continue)):
                return "Skip"
            if isinstance(s, ast.Raise) and s.exc is not None:
                return self.expr(s.exc, where, nonnull, stack)
            return "Skip"
        raise TranslateError(where, f"unsupported statement {type(s).__name__}: {src(s)[:80]}")

    def nullness(self, e, nonnull):
        if isinstance(e, ast.Constant):
            return "none" if e.value is None else "nonnull"
        if isinstance(e, ast.Name):
            return nonnull.get(e.id)
        if isinstance(e, ast.Call):
            nm, _ = call_name(e)
            for t in self.fns.get(nm, []):
                r = t.node.returns
                if r is not None and isinstance(r, ast.Name) and r.id in ("int", "str", "bool", "float"):
                    return "nonnull"
            if nm in self.classes:
                return "nonnull"
        if isinstance(e, (ast.List, ast.Dict, ast.Tuple, ast.Set, ast.BinOp, ast.JoinedStr)):
            return "nonnull"
        return None

    def inline(self, fn: Fn, call: ast.Call, caller_nonnull, stack):
        if fn.qual in stack:
            raise TranslateError(fn.qual, "recursion on the way to a collective")
        if len(stack) > 14:
            raise TranslateError(fn.qual, "call depth")
        a = fn.node.args
        params = [p.arg for p in a.posonlyargs + a.args + a.kwonlyargs]
        pos = [p.arg for p in a.posonlyargs + a.args]
        if pos and pos[0] in ("self", "cls"):
            pos = pos[1:]
        nn = {}
        ndef = len(a.defaults)
        allpos = [p.arg for p in a.posonlyargs + a.args]
        for i, p in enumerate(allpos):
            j = i - (len(allpos) - ndef)
            if j >= 0:
                nn[p] = self.nullness(a.defaults[j], {})
        for p, d in zip(a.kwonlyargs, a.kw_defaults):
            if d is not None:
                nn[p.arg] = self.nullness(d, {})
        if call is not None:
            for p, arg in zip(pos, call.args):
                nn[p] = self.nullness(arg, caller_nonnull)
            for k in call.keywords:
                if k.arg is not None:
                    nn[k.arg] = self.nullness(k.value, caller_nonnull)
        body = self.block(fn.node.body, fn.qual, nn, stack + [fn.qual], set(params))
        if body == "Skip":
            return "Skip"
        return f"Scope ({body})"

    def entry(self, cls, name):
        cands = [t for t in self.fns.get(name, []) if t.cls == cls and t.module == "snapshot.py"]
        if len(cands) != 1:
            raise TranslateError(f"{cls}.{name}", "entry point not found")
        return self.inline(cands[0], None, {}, [])


def seq(parts):
    parts = [p for p in parts if p and p != "Skip"]
    if not parts:
        return "Skip"
    out = parts[-1]
    for p in reversed(parts[:-1]):
        out = f"Seq ({p}) ({out})"
    return out


def generate() -> dict[str, str]:
    tr = Translator()
    take = tr.entry("Snapshot", "take")
    atake = tr.entry("Snapshot", "async_take")
    restore = tr.entry("Snapshot", "restore")
    bg = [t for t in tr.fns.get("_complete_snapshot", []) if t.cls == "PendingSnapshot"]
    if len(bg) != 1:
        raise TranslateError("PendingSnapshot._complete_snapshot", "not found")
    bg_free = bg[0].qual not in tr.reach
    wait = [t for t in tr.fns.get("wait", []) if t.cls == "PendingSnapshot"]
    wait_free = all(t.qual not in tr.reach for t in wait)
    legend = "\n".join(f"   {i}: {d}" for i, d in sorted(tr.ids.items()))
    text = ("(* GENERATED by translator/gen_coll.py from torchsnapshot/*.py - do not edit.\n"
            "   collective kinds: 0 barrier, 1 broadcast_object_list, 2 all_gather_object, 3 scatter_object_list\n"
            "   condition / loop ids (U = uniform, L = rank-local):\n" + legend.replace("*)", "* )") + "\n*)\n"
            "From TS Require Import model.Base model.Collectives.\n"
            "Local Close Scope Z_scope.\nLocal Open Scope nat_scope.\n"
            f"Definition gen_take_skel : skel := {take}.\n"
            f"Definition gen_async_take_skel : skel := {atake}.\n"
            f"Definition gen_restore_skel : skel := {restore}.\n"
            f"Definition gen_background_completion_coll_free : bool := {'true' if bg_free else 'false'}.\n"
            f"Definition gen_wait_coll_free : bool := {'true' if wait_free else 'false'}.\n")
    side = os.path.join("/verif/coq/gen", "CollGen.json")
    try:
        with open(side, "w") as f:
            json.dump({"ids": tr.ids, "assumptions": sorted(tr.assumptions), "reach": sorted(tr.reach)}, f, indent=1)
    except OSError:
        pass
    return {"CollGen": text}
