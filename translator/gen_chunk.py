"""T-chunk / T-slab (C16): Python ast -> Gallina for the size arithmetic of chunk_tensor, subdivide_shard,
prepare_read_tiled and the slab conditions of batch_write_requests / the range adjustment of batch_read_requests.

Fail closed: any syntax outside the small subset below raises TranslateError (the driver then writes a gen file
that cannot compile, so nothing stale is proved against).

    int literals, + - *, //          ->  Z arithmetic ( // is Z.div: floor division, as in Python )
    math.ceil(a / b)                 ->  cdiv a b         (exact ceiling division, model/Base.v)
    math.floor(a / b)                ->  a / b
    max(a, b) / min(a, b)            ->  Z.max / Z.min
    a >= b, a > b, a <= b, a < b     ->  a >=? b, ...
    not / or / and                   ->  negb / || / &&
    (a, b)                           ->  (a, b)
    a fixed table of attribute/call/subscript forms that denote a model variable (see ATOMS)
"""
from __future__ import annotations

import ast
import os

from lib.core import REPO

OUTPUTS = ["ChunkGen"]


class TranslateError(Exception):
    def __init__(self, msg, where=""):
        super().__init__(msg)
        self.where = where


# source text of an expression (ast.unparse) -> the model variable it denotes
ATOMS = {
    "tensor.numel()": "numel",
    "tensor.nelement()": "numel",
    "tensor.element_size()": "esize",
    "shard.element_size()": "esize",
    "reduce(mul, sizes)": "prod_sizes",
    "sizes[dim]": "sizes_dim",
    "slabs[-1].sz_bytes": "cur_sz",
    "cls.get_tensor_size_from_entry(entry)": "size",
    "byte_range[0]": "br_lo",
    "byte_range[1]": "br_hi",
    "isinstance(wr.buffer_stager, TensorBufferStager)": "is_tbs",
    "is_batchable(buffer_stager=wr.buffer_stager)": "batchable",
}

CMP = {ast.GtE: ">=?", ast.Gt: ">?", ast.LtE: "<=?", ast.Lt: "<?"}
BIN = {ast.Add: "+", ast.Sub: "-", ast.Mult: "*", ast.FloorDiv: "/"}


def tr(e: ast.AST, names: set[str], where: str) -> str:
    src = ast.unparse(e)
    if src in ATOMS:
        return ATOMS[src]
    if isinstance(e, ast.Constant) and isinstance(e.value, int) and not isinstance(e.value, bool):
        return f"({e.value})" if e.value < 0 else str(e.value)
    if isinstance(e, ast.Name):
        if e.id in names:
            return e.id
        raise TranslateError(f"unknown name {e.id!r} in {src!r}", where)
    if isinstance(e, ast.BinOp) and type(e.op) in BIN:
        return f"({tr(e.left, names, where)} {BIN[type(e.op)]} {tr(e.right, names, where)})"
    if isinstance(e, ast.Call):
        f = ast.unparse(e.func)
        if f in ("math.ceil", "math.floor") and len(e.args) == 1 and not e.keywords:
            a = e.args[0]
            if isinstance(a, ast.BinOp) and isinstance(a.op, ast.Div):
                x, y = tr(a.left, names, where), tr(a.right, names, where)
                return f"(cdiv {x} {y})" if f == "math.ceil" else f"({x} / {y})"
            raise TranslateError(f"{f} of something that is not a / b: {src!r}", where)
        if f in ("max", "min") and len(e.args) == 2 and not e.keywords:
            return f"(Z.{f} {tr(e.args[0], names, where)} {tr(e.args[1], names, where)})"
        raise TranslateError(f"unsupported call {src!r}", where)
    if isinstance(e, ast.Compare) and len(e.ops) == 1 and type(e.ops[0]) in CMP:
        return f"({tr(e.left, names, where)} {CMP[type(e.ops[0])]} {tr(e.comparators[0], names, where)})"
    if isinstance(e, ast.UnaryOp) and isinstance(e.op, ast.Not):
        return f"(negb {tr(e.operand, names, where)})"
    if isinstance(e, ast.BoolOp):
        op = " || " if isinstance(e.op, ast.Or) else " && "
        return "(" + op.join(tr(v, names, where) for v in e.values) + ")"
    if isinstance(e, ast.Tuple) and len(e.elts) == 2:
        return f"({tr(e.elts[0], names, where)}, {tr(e.elts[1], names, where)})"
    raise TranslateError(f"unsupported syntax {type(e).__name__}: {src!r}", where)


def find_func(tree: ast.AST, name: str, where: str) -> ast.FunctionDef:
    found = [n for n in ast.walk(tree) if isinstance(n, ast.FunctionDef) and n.name == name]
    if len(found) != 1:
        raise TranslateError(f"expected exactly one def {name}, found {len(found)}", where)
    return found[0]


def assigns(fn: ast.FunctionDef) -> dict[str, list[ast.AST]]:
    out: dict[str, list[ast.AST]] = {}
    for n in ast.walk(fn):
        if isinstance(n, ast.Assign) and len(n.targets) == 1 and isinstance(n.targets[0], ast.Name):
            out.setdefault(n.targets[0].id, []).append(n.value)
    return out


def one(asg, name, where, index=None, count=None):
    vals = asg.get(name, [])
    if count is not None and len(vals) != count:
        raise TranslateError(f"expected {count} assignment(s) to {name}, found {len(vals)}", where)
    if index is None:
        if len(vals) != 1:
            raise TranslateError(f"expected exactly one assignment to {name}, found {len(vals)}", where)
        return vals[0]
    return vals[index]


def parse(rel: str) -> ast.AST:
    from translator.pyast import normalise
    return normalise(ast.parse(open(os.path.join(REPO, "torchsnapshot", rel)).read()))


def generate() -> dict[str, str]:
    defs = []

    def emit(name, params, ty, body, src):
        defs.append(f"(* {src} *)\nDefinition {name} {params} : {ty} := {body}.\n")

    # ---- chunk_tensor
    where = "io_preparers/chunked_tensor.py:chunk_tensor"
    a = assigns(find_func(parse("io_preparers/chunked_tensor.py"), "chunk_tensor", where))
    emit("g_chunk_tensor_sz_bytes", "(numel esize : Z)", "Z", tr(one(a, "tensor_sz_bytes", where), set(), where),
         "tensor_sz_bytes = " + ast.unparse(one(a, "tensor_sz_bytes", where)))
    emit("g_chunk_n_chunks", "(tensor_sz_bytes chunk_sz_bytes : Z)", "Z",
         tr(one(a, "n_chunks", where), {"tensor_sz_bytes", "chunk_sz_bytes"}, where),
         "n_chunks = " + ast.unparse(one(a, "n_chunks", where)))

    # ---- subdivide_shard
    where = "io_preparers/sharded_tensor.py:subdivide_shard"
    a = assigns(find_func(parse("io_preparers/sharded_tensor.py"), "subdivide_shard", where))
    emit("g_sub_slice_sz", "(prod_sizes sizes_dim esize : Z)", "Z", tr(one(a, "slice_sz", where), set(), where),
         "slice_sz = " + ast.unparse(one(a, "slice_sz", where)))
    emit("g_sub_chunk_length", "(max_shard_sz_bytes slice_sz : Z)", "Z",
         tr(one(a, "chunk_length", where), {"max_shard_sz_bytes", "slice_sz"}, where),
         "chunk_length = " + ast.unparse(one(a, "chunk_length", where)))
    emit("g_sub_n_chunks", "(sizes_dim chunk_length : Z)", "Z", tr(one(a, "n_chunks", where), {"chunk_length"}, where),
         "n_chunks = " + ast.unparse(one(a, "n_chunks", where)))
    emit("g_sub_start", "(i chunk_length : Z)", "Z", tr(one(a, "start", where), {"i", "chunk_length"}, where),
         "start = " + ast.unparse(one(a, "start", where)))
    emit("g_sub_length", "(i chunk_length sizes_dim : Z)", "Z", tr(one(a, "length", where), {"i", "chunk_length"}, where),
         "length = " + ast.unparse(one(a, "length", where)))

    # ---- prepare_read_tiled
    where = "io_preparers/tensor.py:prepare_read_tiled"
    a = assigns(find_func(parse("io_preparers/tensor.py"), "prepare_read_tiled", where))
    emit("g_tile_num_chunks", "(size buffer_size_limit_bytes : Z)", "Z",
         tr(one(a, "num_chunks", where), {"buffer_size_limit_bytes"}, where),
         "num_chunks = " + ast.unparse(one(a, "num_chunks", where)))
    emit("g_tile_chunk_sz_bytes", "(nelement element_size : Z)", "Z",
         _tile_chunk_sz(one(a, "chunk_sz_bytes", where), where),
         "chunk_sz_bytes = " + ast.unparse(one(a, "chunk_sz_bytes", where)))
    br = a.get("byte_range", [])
    if len(br) != 3:
        raise TranslateError(f"expected 3 assignments to byte_range, found {len(br)}", where)
    emit("g_tile_range_nobase", "(offset chunk_sz_bytes : Z)", "(Z * Z)", tr(br[1], {"offset", "chunk_sz_bytes"}, where),
         "byte_range = " + ast.unparse(br[1]))
    emit("g_tile_range_base", "(br_lo offset chunk_sz_bytes : Z)", "(Z * Z)", tr(br[2], {"offset", "chunk_sz_bytes"}, where),
         "byte_range = " + ast.unparse(br[2]))

    # ---- batch_write_requests: the three conditions of the grouping loop and the range assignment
    where = "batcher.py:batch_write_requests"
    fn = find_func(parse("batcher.py"), "batch_write_requests", where)
    loops = [n for n in fn.body if isinstance(n, ast.For) and ast.unparse(n.iter) == "write_reqs"]
    if len(loops) != 1:
        raise TranslateError("expected exactly one `for wr in write_reqs` loop", where)
    ifs = [n for n in loops[0].body if isinstance(n, ast.If)]
    tests = [n.test for n in ifs if ast.unparse(n.test) != "tensor.is_cuda"]
    if len(tests) != 3:
        raise TranslateError(f"expected 3 conditions in the grouping loop, found {len(tests)}", where)
    for n in ifs[:2]:
        if [type(x).__name__ for x in n.body] != ["Expr", "Continue"] or n.orelse:
            raise TranslateError("pass-through branch is not `append; continue`", where)
    names = {"tensor_sz_bytes", "slab_size_threshold_bytes"}
    emit("g_bw_cond_not_batchable", "(is_tbs batchable : bool)", "bool", tr(tests[0], set(), where), ast.unparse(tests[0]))
    emit("g_bw_cond_large", "(tensor_sz_bytes slab_size_threshold_bytes : Z)", "bool", tr(tests[1], names, where),
         ast.unparse(tests[1]))
    emit("g_bw_cond_new_slab", "(cur_sz tensor_sz_bytes slab_size_threshold_bytes : Z)", "bool", tr(tests[2], names, where),
         ast.unparse(tests[2]))
    la = {}
    for n in loops[0].body:
        if isinstance(n, ast.Assign) and len(n.targets) == 1 and isinstance(n.targets[0], ast.Name):
            la.setdefault(n.targets[0].id, []).append(n.value)
    emit("g_bw_tensor_sz_bytes", "(numel esize : Z)", "Z", tr(one(la, "tensor_sz_bytes", where), set(), where),
         "tensor_sz_bytes = " + ast.unparse(one(la, "tensor_sz_bytes", where)))
    emit("g_bw_byte_range", "(cur_sz tensor_sz_bytes : Z)", "(Z * Z)", tr(one(la, "byte_range", where), {"tensor_sz_bytes"}, where),
         "byte_range = " + ast.unparse(one(la, "byte_range", where)))

    # ---- batch_read_requests: sub-range relative to the merged request
    where = "batcher.py:batch_read_requests"
    a = assigns(find_func(parse("batcher.py"), "batch_read_requests", where))
    emit("g_br_adjusted", "(br_lo br_hi lower_bound : Z)", "(Z * Z)",
         tr(one(a, "adjusted_byte_range", where), {"lower_bound"}, where),
         "adjusted_byte_range = " + ast.unparse(one(a, "adjusted_byte_range", where)))

    text = ("(* GENERATED by translator/gen_chunk.py from " + REPO + "/torchsnapshot - do not edit. *)\n"
            "From TS Require Import model.Base.\n\n" + "\n".join(defs))
    return {"ChunkGen": text}


def _tile_chunk_sz(e: ast.AST, where: str) -> str:
    # chunk_sz_bytes = chunk.nelement() * element_size
    if (isinstance(e, ast.BinOp) and isinstance(e.op, ast.Mult) and ast.unparse(e.left) == "chunk.nelement()"
            and ast.unparse(e.right) == "element_size"):
        return "(nelement * element_size)"
    raise TranslateError(f"chunk_sz_bytes is not chunk.nelement() * element_size: {ast.unparse(e)!r}", where)
