"""T-mops: torchsnapshot/manifest_ops.py -> coq/gen/ManifestOpsGen.v   (Python ast -> Gallina, fail closed).

Translated (pure decision logic only; everything else of manifest_ops.py is hand-modelled in model/ManifestOps.v and
tied to the code by the differential harness of C07):
  get_manifest_for_rank        the single top-level `if <cond>:` whose two arms return the existing-rank / new-rank
                               manifests; <cond> is a comparison between `rank` and `metadata.world_size`
                               ->  is_existing_rank_gen (W r : Z) : bool
  _get_manifest_for_new_rank   the loop `for p in list(m.keys()): entry = m[p]; if <keep>: continue; _remove_entry(...)`
                               with <keep> built from is_container_entry(entry), is_fully_replicated_entry(entry),
                               not / and / or      ->  keep_for_new_rank_gen (is_cont is_repl : bool) : bool
  handle_sharded_tensor_elasticity   the key appended to a dict parent: `parent.keys.append(<key expr>)` guarded by
                               `if is_dict_entry(parent):`, <key expr> = key | unquote(key) with key = tokens.pop()
                               ->  elastic_key_gen (tok : pystr) : pystr
  _remove_entry                the key compared with str(k): `key = unquote(key)` before the loop `if str(k) == key`
                               ->  removed_key_gen (tok : pystr) : pystr
proofs/ManifestOpsInst.v proves each equal to what model/ManifestOps.v uses.  Any other shape is an error.
"""
from __future__ import annotations

import ast

from .pyast import TranslateError, find_func, parse

OUTPUTS = ["ManifestOpsGen"]


def _strip_doc(body):
    if body and isinstance(body[0], ast.Expr) and isinstance(body[0].value, ast.Constant) \
            and isinstance(body[0].value.value, str):
        return body[1:]
    return body


def _is_name(n, name):
    return isinstance(n, ast.Name) and n.id == name


def _is_attr(n, obj, attr):
    return isinstance(n, ast.Attribute) and n.attr == attr and _is_name(n.value, obj)


def _calls(node, fname):
    return [n for n in ast.walk(node) if isinstance(n, ast.Call) and _is_name(n.func, fname)]


# ----------------------------------------------------------------------------- get_manifest_for_rank
def _branch(fn: ast.FunctionDef) -> str:
    where = "get_manifest_for_rank"
    params = [a.arg for a in fn.args.args]
    if params != ["metadata", "rank"]:
        raise TranslateError(where, f"unexpected parameters {params}")
    ifs = [st for st in _strip_doc(fn.body) if isinstance(st, ast.If)]
    if len(ifs) != 1 or not ifs[0].orelse:
        raise TranslateError(where, "expected exactly one top-level if/else")
    st = ifs[0]
    if any(isinstance(n, (ast.If, ast.For, ast.While, ast.Try)) for s in fn.body if s is not st for n in ast.walk(s)):
        raise TranslateError(where, "unexpected control flow outside the rank test")
    if not (len(st.body) == 1 and isinstance(st.body[0], ast.Return) and len(st.orelse) == 1
            and isinstance(st.orelse[0], ast.Return)):
        raise TranslateError(where, "each arm must be a single return")
    body_existing = bool(_calls(ast.Module(body=st.body, type_ignores=[]), "_get_manifest_for_existing_rank"))
    body_new = bool(_calls(ast.Module(body=st.body, type_ignores=[]), "_get_manifest_for_new_rank"))
    else_existing = bool(_calls(ast.Module(body=st.orelse, type_ignores=[]), "_get_manifest_for_existing_rank"))
    else_new = bool(_calls(ast.Module(body=st.orelse, type_ignores=[]), "_get_manifest_for_new_rank"))
    if (body_existing, body_new, else_existing, else_new) == (True, False, False, True):
        negate = False
    elif (body_existing, body_new, else_existing, else_new) == (False, True, True, False):
        negate = True
    else:
        raise TranslateError(where, "the arms do not call _get_manifest_for_existing_rank / _get_manifest_for_new_rank")
    t = st.test
    if not (isinstance(t, ast.Compare) and len(t.ops) == 1 and len(t.comparators) == 1):
        raise TranslateError(where, f"unrecognised condition {ast.unparse(t)}")

    def leaf(n):
        if _is_name(n, "rank"):
            return "r"
        if _is_attr(n, "metadata", "world_size"):
            return "W"
        raise TranslateError(where, f"unrecognised operand {ast.unparse(n)}")
    ops = {ast.Lt: "<?", ast.LtE: "<=?", ast.Gt: ">?", ast.GtE: ">=?", ast.Eq: "=?"}
    op = ops.get(type(t.ops[0]))
    if op is None:
        raise TranslateError(where, f"unrecognised comparison {ast.unparse(t)}")
    cond = f"({leaf(t.left)} {op} {leaf(t.comparators[0])})"
    if negate:
        cond = f"negb {cond}"
    return f"Definition is_existing_rank_gen (W r : Z) : bool := {cond}.\n"


# ----------------------------------------------------------------------------- _get_manifest_for_new_rank
def _keep_expr(e, entry, where) -> str:
    if isinstance(e, ast.BoolOp):
        op = "||" if isinstance(e.op, ast.Or) else "&&"
        return "(" + f" {op} ".join(_keep_expr(v, entry, where) for v in e.values) + ")"
    if isinstance(e, ast.UnaryOp) and isinstance(e.op, ast.Not):
        return f"(negb {_keep_expr(e.operand, entry, where)})"
    if isinstance(e, ast.Call) and isinstance(e.func, ast.Name) and len(e.args) == 1 and not e.keywords \
            and _is_name(e.args[0], entry):
        if e.func.id == "is_container_entry":
            return "is_cont"
        if e.func.id == "is_fully_replicated_entry":
            return "is_repl"
    raise TranslateError(where, f"unrecognised keep-condition {ast.unparse(e)}")


def _keep(fn: ast.FunctionDef) -> str:
    where = "_get_manifest_for_new_rank"
    loops = [st for st in _strip_doc(fn.body) if isinstance(st, ast.For)]
    if len(loops) != 1:
        raise TranslateError(where, "expected exactly one for loop")
    loop = loops[0]
    if not _is_name(loop.target, "logical_path") or loop.orelse:
        raise TranslateError(where, "unrecognised loop header")
    body = loop.body
    if len(body) != 3:
        raise TranslateError(where, f"expected `entry = ...; if keep: continue; _remove_entry(...)`, got {len(body)} statements")
    a, c, r = body
    if not (isinstance(a, ast.Assign) and len(a.targets) == 1 and isinstance(a.targets[0], ast.Name)
            and isinstance(a.value, ast.Subscript) and _is_name(a.value.slice, "logical_path")):
        raise TranslateError(where, f"unrecognised statement {ast.unparse(a)}")
    entry = a.targets[0].id
    if not (isinstance(c, ast.If) and not c.orelse and len(c.body) == 1 and isinstance(c.body[0], ast.Continue)):
        raise TranslateError(where, f"unrecognised statement {ast.unparse(c)}")
    if not (isinstance(r, ast.Expr) and isinstance(r.value, ast.Call) and _is_name(r.value.func, "_remove_entry")):
        raise TranslateError(where, f"unrecognised statement {ast.unparse(r)}")
    return f"Definition keep_for_new_rank_gen (is_cont is_repl : bool) : bool := {_keep_expr(c.test, entry, where)}.\n"


# ----------------------------------------------------------------------------- the two key expressions
def _key_expr(e, keyvar, where) -> str:
    if _is_name(e, keyvar):
        return "tok"
    if isinstance(e, ast.Call) and _is_name(e.func, "unquote") and len(e.args) == 1 and not e.keywords \
            and _is_name(e.args[0], keyvar):
        return "(decode tok)"
    raise TranslateError(where, f"unrecognised key expression {ast.unparse(e)}")


def _popped_key(fn, where) -> str:
    pops = [st for st in ast.walk(fn) if isinstance(st, ast.Assign) and len(st.targets) == 1
            and isinstance(st.targets[0], ast.Name) and isinstance(st.value, ast.Call)
            and isinstance(st.value.func, ast.Attribute) and st.value.func.attr == "pop" and not st.value.args]
    if len(pops) != 1:
        raise TranslateError(where, "expected exactly one `key = tokens.pop()`")
    return pops[0].targets[0].id


def _elastic_key(fn: ast.FunctionDef) -> str:
    where = "handle_sharded_tensor_elasticity"
    keyvar = _popped_key(fn, where)
    appends = [n for n in ast.walk(fn) if isinstance(n, ast.Call) and isinstance(n.func, ast.Attribute)
               and n.func.attr == "append" and isinstance(n.func.value, ast.Attribute) and n.func.value.attr == "keys"]
    if len(appends) != 1 or len(appends[0].args) != 1:
        raise TranslateError(where, "expected exactly one `<parent>.keys.append(<key>)`")
    guards = [n for n in ast.walk(fn) if isinstance(n, ast.If) and appends[0] in list(ast.walk(n))
              and isinstance(n.test, ast.Call) and _is_name(n.test.func, "is_dict_entry")]
    if len(guards) != 1:
        raise TranslateError(where, "the append is not guarded by `if is_dict_entry(parent):`")
    return f"Definition elastic_key_gen (tok : pystr) : pystr := {_key_expr(appends[0].args[0], keyvar, where)}.\n"


def _removed_key(fn: ast.FunctionDef) -> str:
    where = "_remove_entry"
    keyvar = _popped_key(fn, where)
    cmps = [n for n in ast.walk(fn) if isinstance(n, ast.Compare) and len(n.ops) == 1 and isinstance(n.ops[0], ast.Eq)
            and isinstance(n.left, ast.Call) and _is_name(n.left.func, "str") and _is_name(n.comparators[0], keyvar)]
    if len(cmps) != 1:
        raise TranslateError(where, "expected exactly one `str(k) == key`")
    reassign = [st for st in ast.walk(fn) if isinstance(st, ast.Assign) and len(st.targets) == 1
                and _is_name(st.targets[0], keyvar) and not (isinstance(st.value, ast.Call)
                                                             and isinstance(st.value.func, ast.Attribute))]
    if len(reassign) > 1:
        raise TranslateError(where, "the key is reassigned more than once")
    expr = _key_expr(reassign[0].value, keyvar, where) if reassign else "tok"
    return f"Definition removed_key_gen (tok : pystr) : pystr := {expr}.\n"


def generate() -> dict:
    mod = parse("torchsnapshot/manifest_ops.py")
    imported = any(isinstance(n, ast.ImportFrom) and n.module == "urllib.parse"
                   and any(a.name == "unquote" and a.asname is None for a in n.names) for n in mod.body)
    uses_unquote = any(isinstance(n, ast.Name) and n.id == "unquote" for n in ast.walk(mod))
    if uses_unquote and not imported:
        raise TranslateError("manifest_ops", "unquote is not urllib.parse.unquote")
    text = ("(* generated by translator/gen_manifest_ops.py from torchsnapshot/manifest_ops.py on every run - do not edit *)\n"
            "From TS Require Import model.Base model.Flatten.\n\n"
            + _branch(find_func(mod, "get_manifest_for_rank")) + "\n"
            + _keep(find_func(mod, "_get_manifest_for_new_rank")) + "\n"
            + _elastic_key(find_func(mod, "handle_sharded_tensor_elasticity")) + "\n"
            + _removed_key(find_func(mod, "_remove_entry")))
    return {"ManifestOpsGen": text}
