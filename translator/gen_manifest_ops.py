"""T-mops: torchsnapshot/manifest_ops.py + manifest_utils.py (+ the entry classes of manifest.py)
-> coq/gen/ManifestOpsGen.v   (Python ast -> Gallina, fail closed).

Part A - decision fragments (the first version of this translator; kept, proofs/ManifestOpsInst.v):
  get_manifest_for_rank        the single top-level `if <cond>:` whose two arms return the existing-rank / new-rank
                               manifests; <cond> is a (possibly negated) comparison between `rank` and `metadata.world_size`
                               ->  is_existing_rank_gen (W r : Z) : bool
  _get_manifest_for_new_rank   the loop `for p in list(m.keys()): entry = m[p]; if <keep>: continue; _remove_entry(...)`
                               with <keep> built from is_container_entry(entry), is_fully_replicated_entry(entry),
                               not / and / or      ->  keep_for_new_rank_gen (is_cont is_repl : bool) : bool
  handle_sharded_tensor_elasticity   the key appended to a dict parent: `parent.keys.append(<key expr>)` guarded by
                               `if is_dict_entry(parent):`, <key expr> = key | unquote(key) with key = tokens.pop()
                               ->  elastic_key_gen (tok : pystr) : pystr
  _remove_entry                the key compared with str(k): `key = unquote(key)` before the loop `if str(k) == key`
                               ->  removed_key_gen (tok : pystr) : pystr

Part B - every function, statement by statement (class Tr below; vocabulary coq/model/ManifestPy.v; obligations
proofs/ManifestOpsGenInst.v):
  manifest.py        for each entry class, which of keys / replicated / shards / dim_map / mesh its __init__ sets
                     ->  g_has_attr (hasattr, AttributeError of attribute reads); classes must derive from Entry directly
  manifest_utils.py  is_dict_entry, is_container_entry, is_fully_replicated_entry, is_partially_replicated_entry,
                     is_replicated_entry, is_sharded_entry   ->  g_is_... : addr -> M bool
                     (isinstance against the class hierarchy g_entry_parent of gen/DispatchGen.v via Dispatch.is_a)
  manifest_ops.py    _remove_entry, _get_rank_to_manifest (incl. copy.deepcopy), _get_merged_sharded_tensor_entries,
                     _get_merged_dtensor_entries, _get_manifest_for_existing_rank, _get_manifest_for_new_rank,
                     get_manifest_for_rank, handle_sharded_tensor_elasticity   ->  g_...
  NOT translated (hand-modelled in ManifestPy.v, their source text is pinned below and any change fails closed):
                     manifest_utils._get_replicated_ranks (numpy mesh slicing), dtensor_utils._ReplicatedShards.
Any statement / expression / type outside what class Tr documents raises TranslateError.
"""
from __future__ import annotations

import ast

from .pyast import TranslateError, find_func, parse

OUTPUTS = ["ManifestOpsGen"]


def _strip_doc(body):
    if body and isinstance(body[0], ast.Expr) and isinstance(body[0].value, ast.Constant) \
            and isinstance(body[0].value.value, str):
        return body[1:]
    return body


def _is_name(n, name):
    return isinstance(n, ast.Name) and n.id == name


def _is_attr(n, obj, attr):
    return isinstance(n, ast.Attribute) and n.attr == attr and _is_name(n.value, obj)


def _calls(node, fname):
    return [n for n in ast.walk(node) if isinstance(n, ast.Call) and _is_name(n.func, fname)]


# ----------------------------------------------------------------------------- get_manifest_for_rank
def _branch(fn: ast.FunctionDef) -> str:
    where = "get_manifest_for_rank"
    params = [a.arg for a in fn.args.args]
    if params != ["metadata", "rank"]:
        raise TranslateError(where, f"unexpected parameters {params}")
    ifs = [st for st in _strip_doc(fn.body) if isinstance(st, ast.If)]
    if len(ifs) != 1 or not ifs[0].orelse:
        raise TranslateError(where, "expected exactly one top-level if/else")
    st = ifs[0]
    if any(isinstance(n, (ast.If, ast.For, ast.While, ast.Try)) for s in fn.body if s is not st for n in ast.walk(s)):
        raise TranslateError(where, "unexpected control flow outside the rank test")
    if not (len(st.body) == 1 and isinstance(st.body[0], ast.Return) and len(st.orelse) == 1
            and isinstance(st.orelse[0], ast.Return)):
        raise TranslateError(where, "each arm must be a single return")
    body_existing = bool(_calls(ast.Module(body=st.body, type_ignores=[]), "_get_manifest_for_existing_rank"))
    body_new = bool(_calls(ast.Module(body=st.body, type_ignores=[]), "_get_manifest_for_new_rank"))
    else_existing = bool(_calls(ast.Module(body=st.orelse, type_ignores=[]), "_get_manifest_for_existing_rank"))
    else_new = bool(_calls(ast.Module(body=st.orelse, type_ignores=[]), "_get_manifest_for_new_rank"))
    if (body_existing, body_new, else_existing, else_new) == (True, False, False, True):
        negate = False
    elif (body_existing, body_new, else_existing, else_new) == (False, True, True, False):
        negate = True
    else:
        raise TranslateError(where, "the arms do not call _get_manifest_for_existing_rank / _get_manifest_for_new_rank")
    t = st.test
    while isinstance(t, ast.UnaryOp) and isinstance(t.op, ast.Not):          # `not rank >= W`
        t = t.operand
        negate = not negate
    if not (isinstance(t, ast.Compare) and len(t.ops) == 1 and len(t.comparators) == 1):
        raise TranslateError(where, f"unrecognised condition {ast.unparse(t)}")

    def leaf(n):
        if _is_name(n, "rank"):
            return "r"
        if _is_attr(n, "metadata", "world_size"):
            return "W"
        raise TranslateError(where, f"unrecognised operand {ast.unparse(n)}")
    ops = {ast.Lt: "<?", ast.LtE: "<=?", ast.Gt: ">?", ast.GtE: ">=?", ast.Eq: "=?"}
    op = ops.get(type(t.ops[0]))
    if op is None:
        raise TranslateError(where, f"unrecognised comparison {ast.unparse(t)}")
    cond = f"({leaf(t.left)} {op} {leaf(t.comparators[0])})"
    if negate:
        cond = f"negb {cond}"
    return f"Definition is_existing_rank_gen (W r : Z) : bool := {cond}.\n"


# ----------------------------------------------------------------------------- _get_manifest_for_new_rank
def _keep_expr(e, entry, where) -> str:
    if isinstance(e, ast.BoolOp):
        op = "||" if isinstance(e.op, ast.Or) else "&&"
        return "(" + f" {op} ".join(_keep_expr(v, entry, where) for v in e.values) + ")"
    if isinstance(e, ast.UnaryOp) and isinstance(e.op, ast.Not):
        return f"(negb {_keep_expr(e.operand, entry, where)})"
    if isinstance(e, ast.Call) and isinstance(e.func, ast.Name) and len(e.args) == 1 and not e.keywords \
            and _is_name(e.args[0], entry):
        if e.func.id == "is_container_entry":
            return "is_cont"
        if e.func.id == "is_fully_replicated_entry":
            return "is_repl"
    raise TranslateError(where, f"unrecognised keep-condition {ast.unparse(e)}")


def _keep(fn: ast.FunctionDef) -> str:
    where = "_get_manifest_for_new_rank"
    loops = [st for st in _strip_doc(fn.body) if isinstance(st, ast.For)]
    if len(loops) != 1:
        raise TranslateError(where, "expected exactly one for loop")
    loop = loops[0]
    if not _is_name(loop.target, "logical_path") or loop.orelse:
        raise TranslateError(where, "unrecognised loop header")
    body = loop.body
    if len(body) != 3:
        raise TranslateError(where, f"expected `entry = ...; if keep: continue; _remove_entry(...)`, got {len(body)} statements")
    a, c, r = body
    if not (isinstance(a, ast.Assign) and len(a.targets) == 1 and isinstance(a.targets[0], ast.Name)
            and isinstance(a.value, ast.Subscript) and _is_name(a.value.slice, "logical_path")):
        raise TranslateError(where, f"unrecognised statement {ast.unparse(a)}")
    entry = a.targets[0].id
    if not (isinstance(c, ast.If) and not c.orelse and len(c.body) == 1 and isinstance(c.body[0], ast.Continue)):
        raise TranslateError(where, f"unrecognised statement {ast.unparse(c)}")
    if not (isinstance(r, ast.Expr) and isinstance(r.value, ast.Call) and _is_name(r.value.func, "_remove_entry")):
        raise TranslateError(where, f"unrecognised statement {ast.unparse(r)}")
    return f"Definition keep_for_new_rank_gen (is_cont is_repl : bool) : bool := {_keep_expr(c.test, entry, where)}.\n"


# ----------------------------------------------------------------------------- the two key expressions
def _key_expr(e, keyvar, where) -> str:
    if _is_name(e, keyvar):
        return "tok"
    if isinstance(e, ast.Call) and _is_name(e.func, "unquote") and len(e.args) == 1 and not e.keywords \
            and _is_name(e.args[0], keyvar):
        return "(decode tok)"
    raise TranslateError(where, f"unrecognised key expression {ast.unparse(e)}")


def _popped_key(fn, where) -> str:
    pops = [st for st in ast.walk(fn) if isinstance(st, ast.Assign) and len(st.targets) == 1
            and isinstance(st.targets[0], ast.Name) and isinstance(st.value, ast.Call)
            and isinstance(st.value.func, ast.Attribute) and st.value.func.attr == "pop" and not st.value.args]
    if len(pops) != 1:
        raise TranslateError(where, "expected exactly one `key = tokens.pop()`")
    return pops[0].targets[0].id


def _elastic_key(fn: ast.FunctionDef) -> str:
    where = "handle_sharded_tensor_elasticity"
    keyvar = _popped_key(fn, where)
    appends = [n for n in ast.walk(fn) if isinstance(n, ast.Call) and isinstance(n.func, ast.Attribute)
               and n.func.attr == "append" and isinstance(n.func.value, ast.Attribute) and n.func.value.attr == "keys"]
    if len(appends) != 1 or len(appends[0].args) != 1:
        raise TranslateError(where, "expected exactly one `<parent>.keys.append(<key>)`")
    guards = [n for n in ast.walk(fn) if isinstance(n, ast.If) and appends[0] in list(ast.walk(n))
              and isinstance(n.test, ast.Call) and _is_name(n.test.func, "is_dict_entry")]
    if len(guards) != 1:
        raise TranslateError(where, "the append is not guarded by `if is_dict_entry(parent):`")
    return f"Definition elastic_key_gen (tok : pystr) : pystr := {_key_expr(appends[0].args[0], keyvar, where)}.\n"


def _removed_key(fn: ast.FunctionDef) -> str:
    where = "_remove_entry"
    keyvar = _popped_key(fn, where)
    cmps = [n for n in ast.walk(fn) if isinstance(n, ast.Compare) and len(n.ops) == 1 and isinstance(n.ops[0], ast.Eq)
            and isinstance(n.left, ast.Call) and _is_name(n.left.func, "str") and _is_name(n.comparators[0], keyvar)]
    if len(cmps) != 1:
        raise TranslateError(where, "expected exactly one `str(k) == key`")
    reassign = [st for st in ast.walk(fn) if isinstance(st, ast.Assign) and len(st.targets) == 1
                and _is_name(st.targets[0], keyvar) and not (isinstance(st.value, ast.Call)
                                                             and isinstance(st.value.func, ast.Attribute))]
    if len(reassign) > 1:
        raise TranslateError(where, "the key is reassigned more than once")
    expr = _key_expr(reassign[0].value, keyvar, where) if reassign else "tok"
    return f"Definition removed_key_gen (tok : pystr) : pystr := {expr}.\n"



# =============================================================================================================
# Statement-by-statement translation of manifest_ops.py and of the predicates of manifest_utils.py
# =============================================================================================================
# Target vocabulary: coq/model/ManifestPy.v (heap of entry objects, insertion-ordered dicts, computations M A).
# Every Python function  f(p1: T1, ...) -> R  becomes   Definition g_f (v_p1 : T1') ... : M R'.
#   * a function that mutates a dict parameter in place (del m[k], m[k] = v, or passing it to such a function) returns the
#     final value of that parameter (after its Python result, if any); call sites rebind the argument variable;
#   * entry objects are addresses; reading an attribute, isinstance, hasattr read the heap; entry.keys.remove / .append
#     write it; constructors allocate; copy.deepcopy allocates copies of every reachable entry;
#   * is_sharded_tensor_elasticity_enabled_at_root_only() (an environment read) is the extra first parameter
#     `knob_root_only : bool` of every function that reaches it;
#   * Python locals are prefixed v_, temporaries are t<n>.
# Statement forms: x = e; x: T = e; d[k] = v; l[i][k] = v; del d[k]; if/else; for ... in (list | d.items() | list(d.keys()) |
# enumerate(l) | entry.keys); continue; break (loop level only); return; expression statements that are calls of
# translated functions / d.update(e) / dd[k].append(v) / dd[k].update(s) / entry.keys.append(k) / entry.keys.remove(k).
# Anything else raises TranslateError.

from .gen_dispatch import ECLASS  # noqa: E402  (class name -> eclass constructor, shared with T-dispatch)

ATTRS = {"keys": ("AKeys", "pe_keys"), "replicated": ("AReplicated", "pe_repl"), "shards": ("AShards", "pe_shards"),
         "dim_map": ("ADimMap", "pe_dim_map"), "mesh": ("AMesh", "pe_mesh")}
MUTATORS = {"append", "update", "pop", "extend", "remove", "insert", "clear", "add", "discard", "setdefault", "popitem", "sort",
            "reverse"}

# the two pieces that stay hand-modelled (ManifestPy.np_replicated_ranks, ManifestPy.rs_lookup): their source is pinned
PINNED_GET_REPLICATED_RANKS = """def _get_replicated_ranks(entry: DTensorEntry) -> List[Set[int]]:
    mesh = entry.mesh
    mesh_shape = np.array(entry.mesh).shape
    dim_map = entry.dim_map
    shard_dims = []
    for dims in dim_map:
        if dims[0] != -1:
            shard_dims.extend(dims)
    replicate_dims = set(range(len(mesh_shape))) - set(shard_dims)
    slices_for_dims = []
    mesh_shape = np.array(mesh).shape
    for dim, size in enumerate(mesh_shape):
        if dim in replicate_dims:
            slices_for_dims.append([slice(None)])
        elif dim in shard_dims:
            slices_for_dims.append([slice(i, i + 1) for i in range(size)])
    slice_combinations = list(itertools.product(*slices_for_dims))
    return [set(np.array(mesh)[s].flatten()) for s in slice_combinations]"""
PINNED_REPLICATED_SHARDS = """class _ReplicatedShards:

    def __init__(self, replicated_ranks_for_shards: List[Set[int]]) -> None:
        self.repranks = replicated_ranks_for_shards
        self.lookup: Dict[int, Set[int]] = {}
        for rankset in self.repranks:
            for rank in rankset:
                self.lookup[rank] = rankset

    def get_all_replicated_ranks(self, rank: int) -> Set[int]:
        return self.lookup.get(rank, set())

    def __iter__(self) -> Iterator[Set[int]]:
        return iter(self.repranks)"""


class Ty:
    """a (possibly not yet known: None) type of a Python value"""

    def __init__(self, kind, *args):
        self.kind, self.a = kind, list(args)

    def __repr__(self):
        return self.kind + ("[" + ",".join(map(repr, self.a)) + "]" if self.a else "")

    def coq(self):
        k = self.kind
        base = {"int": "Z", "bool": "bool", "str": "pystr", "entry": "addr", "key": "key", "shard": "shard", "meta": "pmeta",
                "mesh": "mesh", "unit": "unit"}
        if k in base:
            return base[k]
        sub = [(x.coq() if x is not None else "_") for x in self.a]
        if k == "list":
            return f"list ({sub[0]})"
        if k == "dict":
            return f"pdict ({sub[0]})"
        if k == "ddict":
            return f"pdict (list ({sub[0]}))"
        if k == "tuple":
            return "(" + " * ".join(sub) + ")"
        raise TranslateError("types", f"no Coq type for {self!r}")


def T(kind, *a):
    return Ty(kind, *a)


def same(a, b):
    if a is None or b is None:
        return True
    return a.kind == b.kind and len(a.a) == len(b.a) and all(same(x, y) for x, y in zip(a.a, b.a))


def unify(a, b, where):
    """fill the unknown parts of a from b (and of b from a); error on a clash"""
    if a is None:
        return b
    if b is None:
        return a
    if a.kind != b.kind or len(a.a) != len(b.a):
        raise TranslateError(where, f"type clash {a!r} / {b!r}")
    for i in range(len(a.a)):
        u = unify(a.a[i], b.a[i], where)
        a.a[i] = u
        b.a[i] = u
    return a


class E:
    """a translated expression: monadic bindings to run first (in order), a pure Gallina text, a type"""

    def __init__(self, text, ty, binds=None, fresh=False):
        self.text, self.ty, self.binds, self.fresh = text, ty, list(binds or []), fresh


class FnSig:
    def __init__(self, name, gname, params, ret):
        self.name, self.gname, self.params, self.ret = name, gname, params, ret
        self.mutated: list[str] = []
        self.knob = False

    def result_ty(self):
        parts = ([] if self.ret.kind == "unit" else [self.ret]) + [dict(self.params)[m] for m in self.mutated]
        if not parts:
            return T("unit")
        return parts[0] if len(parts) == 1 else T("tuple", *parts)


class Ctx:
    def __init__(self, fall, live, ret=None, cont=None, brk=None):
        self.fall, self.live, self.ret, self.cont, self.brk = fall, set(live), ret, cont, brk


def lit(s: str) -> str:
    return "[" + "; ".join(str(ord(c)) for c in s) + "]"


def tup(names):
    names = list(names)
    if not names:
        return "tt", "_"
    if len(names) == 1:
        return names[0], names[0]
    inner = ", ".join(names)
    return f"({inner})", f"'({inner})"


def wrap(binds, inner):
    for pat, m in reversed(binds):
        inner = f"bind ({m}) (fun {pat} =>\n{inner})"
    return inner


class Tr:
    """translator of one module's functions (shares the table of already translated functions)"""

    def __init__(self, fns, imports_ok):
        self.fns: dict[str, FnSig] = fns
        self.ok = imports_ok          # names with a fixed meaning that were checked against the module's imports
        self.n = 0
        self.env: dict[str, Ty] = {}
        self.where = ""
        self.uses_knob = False

    # ------------------------------------------------------------------ helpers
    def err(self, msg):
        raise TranslateError(self.where, msg)

    def tmp(self):
        self.n += 1
        return f"t{self.n}"

    def ann(self, a) -> Ty:
        s = ast.unparse(a) if a is not None else "None"
        table = {"int": T("int"), "str": T("str"), "bool": T("bool"), "None": T("unit"), "Entry": T("entry"),
                 "DTensorEntry": T("entry"), "Manifest": T("dict", T("entry")), "Dict[str, Entry]": T("dict", T("entry")),
                 "List[Dict[str, Entry]]": T("list", T("dict", T("entry"))), "List[str]": T("list", T("str")),
                 "SnapshotMetadata": T("meta"), "Tuple[Manifest, Dict[str, Entry]]": T("tuple", T("dict", T("entry")), T("dict", T("entry"))),
                 "List[Set[int]]": T("list", T("list", T("int"))),
                 "Dict[str, _ReplicatedShards]": T("dict", T("list", T("list", T("int"))))}
        if s not in table:
            self.err(f"unsupported annotation {s}")
        t = table[s]
        return Ty(t.kind, *[Ty(x.kind, *x.a) if x is not None else None for x in t.a]) if t.a else Ty(t.kind)

    @staticmethod
    def base_name(n, through_attr=False):
        """the local variable a store / mutator call goes to: x, x[k], x[i][k]; None when it goes through an attribute
        (an entry object: a heap effect, not a variable)"""
        while isinstance(n, ast.Subscript):
            n = n.value
        if isinstance(n, ast.Name):
            return n.id
        return None

    def assigned(self, stmts, inplace_only=False):
        out = set()
        for st in stmts:
            for n in ast.walk(st):
                if isinstance(n, (ast.Assign, ast.AnnAssign, ast.AugAssign)):
                    targets = n.targets if isinstance(n, ast.Assign) else [n.target]
                    for t in targets:
                        for leaf in (t.elts if isinstance(t, ast.Tuple) else [t]):
                            if isinstance(leaf, ast.Name):
                                if not inplace_only:
                                    out.add(leaf.id)
                            elif isinstance(leaf, ast.Subscript):
                                b = self.base_name(leaf)
                                if b:
                                    out.add(b)
                elif isinstance(n, ast.For) and not inplace_only:
                    for leaf in (n.target.elts if isinstance(n.target, ast.Tuple) else [n.target]):
                        if isinstance(leaf, ast.Name):
                            out.add(leaf.id)
                elif isinstance(n, ast.Delete):
                    for t in n.targets:
                        b = self.base_name(t)
                        if b:
                            out.add(b)
                elif isinstance(n, ast.Call):
                    if isinstance(n.func, ast.Attribute) and n.func.attr in MUTATORS:
                        b = self.base_name(n.func.value)
                        if b:
                            out.add(b)
                    if isinstance(n.func, ast.Name) and n.func.id in self.fns and self.fns[n.func.id].mutated:
                        sig = self.fns[n.func.id]
                        for pname, arg in self.call_args(n, sig).items():
                            if pname in sig.mutated and isinstance(arg, ast.Name):
                                out.add(arg.id)
        return out

    @staticmethod
    def used(stmts):
        return {n.id for st in stmts for n in ast.walk(st) if isinstance(n, ast.Name)}

    @staticmethod
    def has_exit(stmts):
        """a return anywhere, or a continue / break that belongs to the enclosing loop"""
        def walk(n, in_loop):
            if isinstance(n, ast.Return):
                return True
            if isinstance(n, (ast.Continue, ast.Break)) and not in_loop:
                return True
            if isinstance(n, (ast.For, ast.While)):
                return any(walk(c, True) for c in n.body + n.orelse)
            return any(walk(c, in_loop) for c in ast.iter_child_nodes(n))
        return any(walk(s, False) for s in stmts)

    def call_args(self, call, sig):
        names = [p for p, _ in sig.params]
        if len(call.args) > len(names):
            self.err(f"too many arguments in {ast.unparse(call)}")
        out = dict(zip(names, call.args))
        for kw in call.keywords:
            if kw.arg is None or kw.arg not in names or kw.arg in out:
                self.err(f"unexpected keyword in {ast.unparse(call)}")
            out[kw.arg] = kw.value
        if set(out) != set(names):
            self.err(f"missing arguments in {ast.unparse(call)}")
        return out

    def classes(self, n):
        elts = n.elts if isinstance(n, ast.Tuple) else [n]
        out = []
        for c in elts:
            if not (isinstance(c, ast.Name) and c.id in ECLASS and c.id in self.ok):
                self.err(f"isinstance against an unknown class {ast.unparse(c)}")
            out.append("Dispatch." + ECLASS[c.id])
        return "[" + "; ".join(out) + "]"

    def as_key(self, e: E) -> str:
        if e.ty.kind == "key":
            return e.text
        if e.ty.kind == "str":
            return f"(KStr {e.text})"
        if e.ty.kind == "int":
            return f"(KInt {e.text})"
        self.err(f"a value of type {e.ty!r} used as a dict key of an entry")

    def pure(self, node) -> E:
        e = self.ex(node)
        if e.binds:
            self.err(f"an expression that reads the heap / may raise inside a comprehension or lambda: {ast.unparse(node)}")
        return e

    def mon(self, node) -> tuple[str, Ty]:
        """the expression as a computation"""
        e = self.ex(node)
        if e.binds and e.binds[-1][0] == e.text:
            return wrap(e.binds[:-1], e.binds[-1][1]), e.ty
        return wrap(e.binds, f"ret {e.text}"), e.ty

    # ------------------------------------------------------------------ expressions
    def ex(self, n) -> E:
        if isinstance(n, ast.Name):
            if n.id not in self.env:
                self.err(f"unknown name {n.id}")
            return E("v_" + n.id, self.env[n.id])
        if isinstance(n, ast.Constant):
            if isinstance(n.value, bool):
                return E("true" if n.value else "false", T("bool"))
            if isinstance(n.value, int):
                return E(f"({n.value})" if n.value < 0 else str(n.value), T("int"))
            if isinstance(n.value, str):
                return E(lit(n.value), T("str"))
            self.err(f"unsupported constant {n.value!r}")
        if isinstance(n, ast.UnaryOp) and isinstance(n.op, ast.USub) and isinstance(n.operand, ast.Constant) \
                and isinstance(n.operand.value, int):
            return E(f"(-{n.operand.value})", T("int"))
        if isinstance(n, ast.UnaryOp) and isinstance(n.op, ast.Not):
            e = self.ex(n.operand)
            if e.ty.kind != "bool":
                self.err(f"`not` of a non-boolean {ast.unparse(n.operand)}")
            return E(f"(negb {e.text})", T("bool"), e.binds)
        if isinstance(n, ast.BoolOp):
            return self.boolop(n)
        if isinstance(n, ast.Compare):
            return self.compare(n)
        if isinstance(n, ast.Tuple):
            es = [self.ex(x) for x in n.elts]
            return E("(" + ", ".join(e.text for e in es) + ")", T("tuple", *[e.ty for e in es]), [b for e in es for b in e.binds])
        if isinstance(n, ast.Dict) and not n.keys:
            return E("[]", T("dict", None), fresh=True)
        if isinstance(n, ast.Attribute):
            return self.attribute(n)
        if isinstance(n, ast.Subscript):
            return self.subscript(n)
        if isinstance(n, ast.Call):
            return self.call(n)
        if isinstance(n, ast.ListComp):
            if len(n.generators) == 2:
                return self.shard_source(n)
            return self.comp(n.elt, n.generators)
        self.err(f"unsupported expression {ast.unparse(n)}")

    def boolop(self, n) -> E:
        es = [self.ex(v) for v in n.values]
        for e, v in zip(es, n.values):
            if e.ty.kind != "bool":
                self.err(f"non-boolean operand {ast.unparse(v)}")
        is_or = isinstance(n.op, ast.Or)
        if all(not e.binds for e in es[1:]):
            return E("(" + (" || " if is_or else " && ").join(e.text for e in es) + ")", T("bool"), es[0].binds)
        # short circuit: the later operands are evaluated only when needed

        def chain(i):
            e = es[i]
            if i == len(es) - 1:
                return wrap(e.binds, f"ret {e.text}") if not (e.binds and e.binds[-1][0] == e.text) \
                    else wrap(e.binds[:-1], e.binds[-1][1])
            rest = chain(i + 1)
            body = f"if {e.text} then ret true else {rest}" if is_or else f"if {e.text} then {rest} else ret false"
            return wrap(e.binds, body)
        t = self.tmp()
        return E(t, T("bool"), [(t, chain(0))])

    def compare(self, n) -> E:
        nodes = [n.left] + n.comparators
        operands = [self.ex(x) for x in nodes]
        text = ast.unparse(n)
        if len(n.ops) == 1 or not any(e.binds for e in operands[2:]):
            binds = [b for e in operands for b in e.binds]
            parts = [self.cmp1(op, a, b, text) for op, a, b in zip(n.ops, operands, operands[1:])]
            return E(parts[0] if len(parts) == 1 else "(" + " && ".join(parts) + ")", T("bool"), binds)
        # a < b < c: c is evaluated only when a < b holds

        def chain(i):
            c = self.cmp1(n.ops[i], operands[i], operands[i + 1], text)
            if i == len(n.ops) - 1:
                return f"ret {c}"
            return f"if {c} then {wrap(operands[i + 2].binds, chain(i + 1))} else ret false"
        t = self.tmp()
        return E(t, T("bool"), operands[0].binds + operands[1].binds + [(t, chain(0))])

    def cmp1(self, op, a: E, b: E, text) -> str:
        ka, kb = a.ty.kind, b.ty.kind
        if isinstance(op, (ast.In, ast.NotIn)):
            if ka == "str" and kb in ("dict", "ddict"):
                r = f"(dhas {b.text} {a.text})"
            elif ka == "str" and kb == "list" and b.ty.a[0] is not None and b.ty.a[0].kind == "str":
                r = f"(str_memb {a.text} {b.text})"
            elif ka == "int" and kb == "list" and b.ty.a[0] is not None and b.ty.a[0].kind == "int":
                r = f"(Zmemb {a.text} {b.text})"
            elif ka in ("str", "int", "key") and kb == "list" and b.ty.a[0] is not None and b.ty.a[0].kind == "key":
                r = f"(key_in {self.as_key(a)} {b.text})"
            else:
                self.err(f"unsupported membership test {text} ({a.ty!r} in {b.ty!r})")
            return f"(negb {r})" if isinstance(op, ast.NotIn) else r
        if ka == "int" and kb == "int":
            table = {ast.Eq: "=?", ast.Lt: "<?", ast.LtE: "<=?", ast.Gt: ">?", ast.GtE: ">=?"}
            if type(op) in table:
                return f"({a.text} {table[type(op)]} {b.text})"
            if isinstance(op, ast.NotEq):
                return f"(negb ({a.text} =? {b.text}))"
        if ka == "str" and kb == "str" and isinstance(op, (ast.Eq, ast.NotEq)):
            r = f"(str_eqb {a.text} {b.text})"
            return r if isinstance(op, ast.Eq) else f"(negb {r})"
        self.err(f"unsupported comparison {text} ({a.ty!r} vs {b.ty!r})")

    def attribute(self, n) -> E:
        v = self.ex(n.value)
        if v.ty.kind == "meta":
            if n.attr == "world_size":
                return E(f"(pm_world_size {v.text})", T("int"), v.binds)
            if n.attr == "manifest":
                return E(f"(pm_manifest {v.text})", T("dict", T("entry")), v.binds)
        if v.ty.kind == "shard" and n.attr == "offsets":
            return E(f"(fst {v.text})", T("list", T("int")), v.binds)
        if v.ty.kind == "entry" and n.attr in ATTRS:
            a, proj = ATTRS[n.attr]
            ty = {"keys": T("list", T("key")), "replicated": T("bool"), "shards": T("list", T("shard")),
                  "dim_map": T("list", T("list", T("int"))), "mesh": T("mesh")}[n.attr]
            t = self.tmp()
            return E(t, ty, v.binds + [(t, f"attr_of g_has_attr {a} {proj} {v.text}")])
        self.err(f"unsupported attribute {ast.unparse(n)} on {v.ty!r}")

    def subscript(self, n) -> E:
        v = self.ex(n.value)
        i = self.ex(n.slice)
        binds = v.binds + i.binds
        if v.ty.kind == "dict" and i.ty.kind == "str":
            t = self.tmp()
            return E(t, v.ty.a[0], binds + [(t, f"dget_m {v.text} {i.text}")])
        if v.ty.kind == "ddict" and i.ty.kind == "str":
            return E(f"(dd_get {v.text} {i.text})", T("list", v.ty.a[0]), binds)
        if v.ty.kind == "list" and i.ty.kind == "int":
            el = v.ty.a[0]
            if el is not None and el.kind == "int" and i.text == "0":
                return E(f"(zhd {v.text})", T("int"), binds)            # dims[0]: see ManifestPy.v, NOT modelled
            t = self.tmp()
            return E(t, el, binds + [(t, f"list_get {v.text} {i.text}")])
        self.err(f"unsupported subscript {ast.unparse(n)} ({v.ty!r}[{i.ty!r}])")

    def comp_parts(self, generators):
        if len(generators) != 1 or generators[0].is_async:
            self.err("unsupported comprehension (one generator expected)")
        g = generators[0]
        ibinds, it, el = self.iter_expr(g.iter)          # the outermost iterable is evaluated first, once
        if not isinstance(g.target, ast.Name):
            self.err("unsupported comprehension target")
        saved = dict(self.env)
        self.env[g.target.id] = el
        conds = [self.pure(c) for c in g.ifs]
        return g, ibinds, it, el, conds, saved

    def comp(self, elt, generators) -> E:
        """[elt for x in it if c]"""
        g, ibinds, it, el, conds, saved = self.comp_parts(generators)
        v = "v_" + g.target.id
        src_ = it
        if conds:
            src_ = f"(filter (fun {v} => {' && '.join(c.text for c in conds)}) {it})"
        if isinstance(elt, ast.Name) and elt.id == g.target.id:
            self.env = saved
            return E(src_, T("list", el), ibinds, fresh=True)
        e = self.pure(elt)
        self.env = saved
        return E(f"(map (fun {v} => {e.text}) {src_})", T("list", e.ty), ibinds, fresh=True)

    def iter_expr(self, n, pure=False):
        """what a for statement / comprehension iterates over: (binds, list text, element type); with pure=True the
        list text alone (no bindings allowed)"""
        binds = []
        if isinstance(n, ast.Call) and isinstance(n.func, ast.Attribute) and n.func.attr == "items" and not n.args:
            d = self.ex(n.func.value)
            if d.ty.kind == "dict":
                r = (d.text, T("tuple", T("str"), d.ty.a[0]))
            elif d.ty.kind == "ddict":
                r = (d.text, T("tuple", T("str"), T("list", d.ty.a[0])))
            else:
                self.err(f".items() of a non-dict {ast.unparse(n)}")
            binds = d.binds
        elif isinstance(n, ast.Call) and isinstance(n.func, ast.Name) and n.func.id == "list" and len(n.args) == 1 \
                and isinstance(n.args[0], ast.Call) and isinstance(n.args[0].func, ast.Attribute) \
                and n.args[0].func.attr == "keys" and not n.args[0].args:
            d = self.ex(n.args[0].func.value)
            if d.ty.kind not in ("dict", "ddict"):
                self.err(f".keys() of a non-dict {ast.unparse(n)}")
            r = (f"(dkeys {d.text})", T("str"))
            binds = d.binds
        elif isinstance(n, ast.Call) and isinstance(n.func, ast.Name) and n.func.id == "enumerate" and len(n.args) == 1:
            l = self.ex(n.args[0])
            if l.ty.kind != "list":
                self.err(f"enumerate of a non-list {ast.unparse(n)}")
            r = (f"(enumerate {l.text})", T("tuple", T("int"), l.ty.a[0]))
            binds = l.binds
        elif isinstance(n, ast.Call) and isinstance(n.func, ast.Name) and n.func.id == "range" and len(n.args) == 1:
            a = self.ex(n.args[0])
            if a.ty.kind != "int":
                self.err(f"range of a non-int {ast.unparse(n)}")
            r = (f"(py_range {a.text})", T("int"))
            binds = a.binds
        else:
            e = self.ex(n)
            binds = e.binds
            if e.ty.kind == "list":
                r = (e.text, e.ty.a[0])
            elif e.ty.kind in ("dict", "ddict"):
                r = (f"(dkeys {e.text})", T("str"))
            else:
                self.err(f"cannot iterate over {ast.unparse(n)} ({e.ty!r})")
        if pure:
            if binds:
                self.err(f"an iterable that reads the heap / may raise inside a comprehension: {ast.unparse(n)}")
            return r
        return binds, r[0], r[1]

    def call(self, n) -> E:
        f = n.func
        text = ast.unparse(n)
        if isinstance(f, ast.Name):
            name = f.id
            if name in self.fns:
                sig = self.fns[name]
                if sig.mutated:
                    self.err(f"{name} mutates its argument; it may only be called as a statement: {text}")
                return self.call_fn(n, sig)[0]
            if name == "len" and len(n.args) == 1 and not n.keywords:
                a = self.ex(n.args[0])
                if a.ty.kind not in ("list", "str", "dict", "ddict"):
                    self.err(f"len of {a.ty!r}")
                return E(f"(zlen {a.text})", T("int"), a.binds)
            if name == "int" and len(n.args) == 1 and not n.keywords:
                a = self.ex(n.args[0])
                if a.ty.kind != "str":
                    self.err(f"int() of {a.ty!r}")
                t = self.tmp()
                return E(t, T("int"), a.binds + [(t, f"py_int {a.text}")])
            if name == "str" and len(n.args) == 1 and not n.keywords:
                a = self.ex(n.args[0])
                if a.ty.kind != "key":
                    self.err(f"str() of {a.ty!r}")
                return E(f"(key_str {a.text})", T("str"), a.binds)
            if name == "unquote" and "unquote" in self.ok and len(n.args) == 1 and not n.keywords:
                a = self.ex(n.args[0])
                if a.ty.kind != "str":
                    self.err(f"unquote of {a.ty!r}")
                return E(f"(decode {a.text})", T("str"), a.binds)
            if name == "isinstance" and len(n.args) == 2 and not n.keywords:
                a = self.ex(n.args[0])
                if a.ty.kind != "entry":
                    self.err(f"isinstance of {a.ty!r}")
                t = self.tmp()
                return E(t, T("bool"), a.binds + [(t, f"isinstance_of g_entry_parent {a.text} {self.classes(n.args[1])}")])
            if name == "hasattr" and len(n.args) == 2 and not n.keywords and isinstance(n.args[1], ast.Constant) \
                    and isinstance(n.args[1].value, str):
                a = self.ex(n.args[0])
                if a.ty.kind != "entry":
                    self.err(f"hasattr of {a.ty!r}")
                at = ATTRS.get(n.args[1].value, ("AOther", None))[0]
                t = self.tmp()
                return E(t, T("bool"), a.binds + [(t, f"hasattr_of g_has_attr {a.text} {at}")])
            if name in ("all", "any") and len(n.args) == 1 and isinstance(n.args[0], ast.GeneratorExp) and not n.keywords:
                g, ibinds, it, el, conds, saved = self.comp_parts(n.args[0].generators)
                if conds:
                    self.err(f"filtered generator in {text}")
                b = self.pure(n.args[0].elt)
                self.env = saved
                if b.ty.kind != "bool":
                    self.err(f"non-boolean generator in {text}")
                return E(f"({'forallb' if name == 'all' else 'existsb'} (fun v_{g.target.id} => {b.text}) {it})", T("bool"), ibinds)
            if name == "sum" and len(n.args) == 1 and isinstance(n.args[0], ast.GeneratorExp) and not n.keywords \
                    and isinstance(n.args[0].elt, ast.Constant) and n.args[0].elt.value == 1:
                g, ibinds, it, el, conds, saved = self.comp_parts(n.args[0].generators)
                self.env = saved
                src_ = it if not conds else f"(filter (fun v_{g.target.id} => {' && '.join(c.text for c in conds)}) {it})"
                return E(f"(zlen {src_})", T("int"), ibinds)
            if name == "sorted":
                return self.sorted_call(n)
            if name == "list" and len(n.args) == 1 and not n.keywords and isinstance(n.args[0], (ast.GeneratorExp, ast.ListComp)) \
                    and len(n.args[0].generators) == 2:
                return self.shard_source(n.args[0])          # the shards of a group, in group order (unsorted)
            if name == "defaultdict" and "defaultdict" in self.ok and len(n.args) == 1 and isinstance(n.args[0], ast.Name) \
                    and n.args[0].id in ("list", "set") and not n.keywords:
                # defaultdict(set): only sets of ranks (ints) are modelled
                return E("[]", T("ddict", None if n.args[0].id == "list" else T("int")), fresh=True)
            if name in ("ShardedTensorEntry", "DTensorEntry") and name in self.ok and not n.args:
                kw = {k.arg: self.ex(k.value) for k in n.keywords}
                want = {"ShardedTensorEntry": ["shards"], "DTensorEntry": ["mesh", "dim_map", "shards"]}[name]
                if sorted(kw) != sorted(want):
                    self.err(f"unexpected constructor arguments {text}")
                tys = {"shards": T("list", T("shard")), "mesh": T("mesh"), "dim_map": T("list", T("list", T("int")))}
                for k in want:
                    if not same(kw[k].ty, tys[k]):
                        self.err(f"constructor argument {k} has type {kw[k].ty!r}")
                t = self.tmp()
                ctor = "mk_sharded" if name == "ShardedTensorEntry" else "mk_dtensor"
                return E(t, T("entry"), [b for k in want for b in kw[k].binds] +
                         [(t, f"new_entry ({ctor} {' '.join(kw[k].text for k in want)})")], fresh=True)
            if name == "_ReplicatedShards" and name in self.ok and not n.args and len(n.keywords) == 1 \
                    and n.keywords[0].arg == "replicated_ranks_for_shards":
                a = self.ex(n.keywords[0].value)
                if not same(a.ty, T("list", T("list", T("int")))):
                    self.err(f"unexpected argument type in {text}")
                return E(a.text, a.ty, a.binds, fresh=True)
            if name == "_get_replicated_ranks" and name in self.ok:
                args = n.args + [k.value for k in n.keywords if k.arg == "entry"]
                if len(args) != 1 or len(n.args) + len(n.keywords) != 1:
                    self.err(f"unexpected arguments in {text}")
                a = self.ex(args[0])
                if a.ty.kind != "entry":
                    self.err(f"unexpected argument type in {text}")
                t = self.tmp()
                return E(t, T("list", T("list", T("int"))), a.binds + [(t, f"get_replicated_ranks_of g_has_attr {a.text}")], fresh=True)
            if name == "is_sharded_tensor_elasticity_enabled_at_root_only" and name in self.ok and not n.args and not n.keywords:
                self.uses_knob = True
                return E("knob_root_only", T("bool"))
            self.err(f"unknown function {text}")
        if isinstance(f, ast.Attribute):
            if isinstance(f.value, ast.Constant) and f.value.value == "/" and f.attr == "join" and len(n.args) == 1 and not n.keywords:
                a = self.ex(n.args[0])
                if not same(a.ty, T("list", T("str"))):
                    self.err(f"join of {a.ty!r}")
                return E(f"(join {a.text})", T("str"), a.binds)
            if ast.unparse(f) == "copy.deepcopy" and "copy" in self.ok and len(n.args) == 1 and not n.keywords:
                a = self.ex(n.args[0])
                t = self.tmp()
                if same(a.ty, T("list", T("dict", T("entry")))):
                    return E(t, a.ty, a.binds + [(t, f"deepcopy_dicts {a.text}")], fresh=True)
                if same(a.ty, T("dict", T("entry"))):
                    return E(t, a.ty, a.binds + [(t, f"deepcopy_dict {a.text}")], fresh=True)
                self.err(f"deepcopy of {a.ty!r}")
            v = self.ex(f.value)
            if f.attr == "split" and v.ty.kind == "str" and len(n.args) == 1 and isinstance(n.args[0], ast.Constant) \
                    and n.args[0].value == "/" and not n.keywords:
                return E(f"(split {v.text})", T("list", T("str")), v.binds, fresh=True)
            if f.attr == "copy" and v.ty.kind == "dict" and not n.args and not n.keywords:
                return E(v.text, v.ty, v.binds, fresh=True)                 # a new dict holding the same entry objects
            if f.attr == "pop" and same(v.ty, T("list", T("str"))) and isinstance(f.value, ast.Name) and not n.keywords:
                t = self.tmp()
                if not n.args:
                    return E(t, T("str"), v.binds + [(f"'({t}, {v.text})", f"pop_last {v.text}")])
                if len(n.args) == 1 and isinstance(n.args[0], ast.Constant) and n.args[0].value == 0:
                    return E(t, T("str"), v.binds + [(f"'({t}, {v.text})", f"pop_first {v.text}")])
            if f.attr == "get_all_replicated_ranks" and same(v.ty, T("list", T("list", T("int")))) and len(n.args) == 1 and not n.keywords:
                a = self.ex(n.args[0])
                if a.ty.kind != "int":
                    self.err(f"unexpected argument in {text}")
                return E(f"(rs_lookup {v.text} {a.text})", T("list", T("int")), v.binds + a.binds)
            self.err(f"unsupported method call {text} on {v.ty!r}")
        self.err(f"unsupported call {text}")

    def sorted_call(self, n) -> E:
        text = ast.unparse(n)
        if len(n.args) != 1:
            self.err(f"unsupported sorted() {text}")
        src_ = self.shard_source(n.args[0])
        if not n.keywords:
            self.err(f"sorted() of Shard objects without a key (Shard defines no ordering): {text}")
        if len(n.keywords) != 1 or n.keywords[0].arg != "key":
            self.err(f"unsupported sorted() {text}")
        k = n.keywords[0].value
        if not (isinstance(k, ast.Lambda) and len(k.args.args) == 1 and isinstance(k.body, ast.Attribute)
                and isinstance(k.body.value, ast.Name) and k.body.value.id == k.args.args[0].arg and k.body.attr == "offsets"):
            self.err(f"unsupported sort key {ast.unparse(k)}")
        return E(f"(sort_shards {src_.text})", T("list", T("shard")), src_.binds, fresh=True)

    def shard_source(self, g) -> E:
        """(shard for entry in group for shard in entry.shards), possibly inside list(..)"""
        if isinstance(g, ast.Call) and isinstance(g.func, ast.Name) and g.func.id == "list" and len(g.args) == 1 and not g.keywords:
            g = g.args[0]
        if not (isinstance(g, (ast.GeneratorExp, ast.ListComp)) and len(g.generators) == 2
                and all(not x.ifs and not x.is_async and isinstance(x.target, ast.Name) for x in g.generators)
                and isinstance(g.elt, ast.Name) and g.elt.id == g.generators[1].target.id):
            self.err(f"unsupported shard source {ast.unparse(g)}")
        g1, g2 = g.generators
        binds, it, el = self.iter_expr(g1.iter)
        if el is None or el.kind != "entry":
            self.err(f"unsupported shard source {ast.unparse(g)}")
        saved = dict(self.env)
        self.env[g1.target.id] = el
        m, ty = self.mon(g2.iter)
        self.env = saved
        if not same(ty, T("list", T("shard"))):
            self.err(f"unsupported shard source {ast.unparse(g)}: inner iterable has type {ty!r}")
        t = self.tmp()
        return E(t, T("list", T("shard")), binds + [(t, f"concat_mapM (fun v_{g1.target.id} => {m}) {it}")], fresh=True)

    def call_fn(self, n, sig):
        """call of a translated function: (E for its Python result, [(param, arg variable)] for the mutated parameters)"""
        args = self.call_args(n, sig)
        es = []
        for pname, pty in sig.params:
            e = self.ex(args[pname])
            if not same(e.ty, pty):
                self.err(f"argument {pname} of {sig.name} has type {e.ty!r}, expected {pty!r}")
            unify(e.ty, pty, self.where)
            es.append(e)
        if sig.knob:
            self.uses_knob = True
        head = sig.gname + (" knob_root_only" if sig.knob else "")
        m = head + "".join(" " + e.text for e in es)
        binds = [b for e in es for b in e.binds]
        muts = []
        for pname in sig.mutated:
            a = args[pname]
            if not isinstance(a, ast.Name):
                self.err(f"{sig.name} mutates its parameter {pname}; the argument must be a plain variable: {ast.unparse(n)}")
            muts.append("v_" + a.id)
        t = self.tmp()
        parts = ([t] if sig.ret.kind != "unit" else []) + muts
        _, pat = tup(parts)
        binds.append((pat, m))
        return E(t if sig.ret.kind != "unit" else "tt", sig.ret, binds, fresh=True), muts

    # ------------------------------------------------------------------ statements
    def check_alias(self, value_node, e: E, what):
        """a dict / list of dicts is a mutable object: binding a second name to it would need aliasing in the model"""
        def mutable(t):
            return t is not None and (t.kind in ("dict", "ddict") or (t.kind == "list" and mutable(t.a[0])))
        if mutable(e.ty) and not e.fresh:
            self.err(f"{what}: a second reference to a mutable container ({ast.unparse(value_node)}); only .copy(), "
                     f"copy.deepcopy() and freshly built values are modelled")

    def block(self, stmts, ctx: Ctx) -> str:
        if not stmts:
            return ctx.fall()
        st, rest = stmts[0], stmts[1:]
        if isinstance(st, ast.Pass):
            return self.block(rest, ctx)
        if isinstance(st, ast.Return):
            if ctx.ret is None:
                self.err("return inside a loop is not supported")
            return ctx.ret(st.value)
        if isinstance(st, ast.Continue):
            if ctx.cont is None:
                self.err("continue outside a loop")
            return ctx.cont()
        if isinstance(st, ast.Break):
            if ctx.brk is None:
                self.err("break outside a loop")
            return ctx.brk()
        if isinstance(st, (ast.Assign, ast.AnnAssign)):
            return self.assign(st, rest, ctx)
        if isinstance(st, ast.Delete):
            if len(st.targets) != 1 or not (isinstance(st.targets[0], ast.Subscript) and isinstance(st.targets[0].value, ast.Name)):
                self.err(f"unsupported statement {ast.unparse(st)}")
            d = self.ex(st.targets[0].value)
            k = self.ex(st.targets[0].slice)
            if d.ty.kind != "dict" or k.ty.kind != "str":
                self.err(f"unsupported del {ast.unparse(st)}")
            return wrap(k.binds + [(d.text, f"ddel_m {d.text} {k.text}")], self.block(rest, ctx))
        if isinstance(st, ast.Expr) and isinstance(st.value, ast.Call):
            return self.expr_stmt(st.value, rest, ctx)
        if isinstance(st, ast.If):
            return self.if_stmt(st, rest, ctx)
        if isinstance(st, ast.For):
            return self.for_stmt(st, rest, ctx)
        self.err(f"unsupported statement {ast.unparse(st)[:80]}")

    def assign(self, st, rest, ctx):
        if isinstance(st, ast.AnnAssign):
            if st.value is None:
                self.err(f"unsupported statement {ast.unparse(st)}")
            target, value, declared = st.target, st.value, self.ann(st.annotation)
        else:
            if len(st.targets) != 1:
                self.err(f"unsupported statement {ast.unparse(st)}")
            target, value, declared = st.targets[0], st.value, None
        if isinstance(target, ast.Name):
            if isinstance(value, ast.ListComp) and isinstance(value.elt, ast.Dict) and not value.elt.keys \
                    and len(value.generators) == 1 and not value.generators[0].ifs:
                # [{} for _ in range(n)]
                it, _ = self.iter_expr(value.generators[0].iter, pure=True)
                e = E(f"(map (fun _ => []) {it})", T("list", T("dict", None)), fresh=True)
            else:
                e = self.ex(value)
            self.check_alias(value, e, ast.unparse(st))
            ty = e.ty
            if declared is not None:
                if not same(ty, declared):
                    self.err(f"{ast.unparse(st)}: value of type {ty!r} for a variable declared {declared!r}")
                ty = unify(ty, declared, self.where)
            self.env[target.id] = ty
            annot = ""
            if e.text == "[]" or e.text.startswith("(map (fun _ => [])"):
                annot = f" : {ty.coq()}" if "_" not in ty.coq() else ""
            if annot == "" and (e.text == "[]"):
                # the element type becomes known at the first use; emit the let after translating the rest
                v = "v_" + target.id
                inner = self.block(rest, ctx)
                return wrap(e.binds, f"let {v} : {self.env[target.id].coq()} := {e.text} in\n{inner}")
            return wrap(e.binds, f"let v_{target.id}{annot} := {e.text} in\n{self.block(rest, ctx)}")
        if isinstance(target, ast.Subscript):
            v = self.ex(value)
            k = self.ex(target.slice)
            if isinstance(target.value, ast.Name):
                d = self.ex(target.value)
                if d.ty.kind == "dict" and k.ty.kind == "str":
                    d.ty.a[0] = unify(d.ty.a[0], v.ty, self.where)
                    self.check_alias(value, v, ast.unparse(st))
                    return wrap(k.binds + v.binds, f"let {d.text} := dset {d.text} {k.text} {v.text} in\n{self.block(rest, ctx)}")
            elif isinstance(target.value, ast.Subscript) and isinstance(target.value.value, ast.Name):
                l = self.ex(target.value.value)
                i = self.ex(target.value.slice)
                if same(l.ty, T("list", T("dict", None))) and i.ty.kind == "int" and k.ty.kind == "str":
                    l.ty.a[0].a[0] = unify(l.ty.a[0].a[0], v.ty, self.where)
                    t = self.tmp()
                    binds = i.binds + k.binds + v.binds + [(t, f"list_get {l.text} {i.text}"),
                                                           (l.text, f"list_set {l.text} {i.text} (dset {t} {k.text} {v.text})")]
                    return wrap(binds, self.block(rest, ctx))
        self.err(f"unsupported assignment {ast.unparse(st)}")

    def expr_stmt(self, c, rest, ctx):
        text = ast.unparse(c)
        f = c.func
        if isinstance(f, ast.Name) and f.id in self.fns:
            e, _ = self.call_fn(c, self.fns[f.id])
            return wrap(e.binds, self.block(rest, ctx))
        if isinstance(f, ast.Attribute) and len(c.args) == 1 and not c.keywords:
            # entry.keys.append(k) / entry.keys.remove(k): heap writes
            if isinstance(f.value, ast.Attribute) and f.value.attr == "keys" and f.attr in ("append", "remove"):
                o = self.ex(f.value.value)
                if o.ty.kind == "entry":
                    a = self.ex(c.args[0])
                    op = "keys_append" if f.attr == "append" else "keys_remove"
                    return wrap(o.binds + a.binds + [("_", f"{op} g_has_attr {o.text} {self.as_key(a)}")], self.block(rest, ctx))
            # dd[k].append(v) / dd[k].update(s)
            if isinstance(f.value, ast.Subscript) and isinstance(f.value.value, ast.Name) and f.attr in ("append", "update"):
                d = self.ex(f.value.value)
                k = self.ex(f.value.slice)
                a = self.ex(c.args[0])
                if d.ty.kind == "ddict" and k.ty.kind == "str":
                    if f.attr == "append":
                        d.ty.a[0] = unify(d.ty.a[0], a.ty, self.where)
                        return wrap(k.binds + a.binds, f"let {d.text} := dd_append {d.text} {k.text} {a.text} in\n{self.block(rest, ctx)}")
                    if same(a.ty, T("list", T("int"))):
                        d.ty.a[0] = unify(d.ty.a[0], T("int"), self.where)
                        return wrap(k.binds + a.binds, f"let {d.text} := dd_update {d.text} {k.text} {a.text} in\n{self.block(rest, ctx)}")
            # d.update(other)
            if isinstance(f.value, ast.Name) and f.attr == "update":
                d = self.ex(f.value)
                a = self.ex(c.args[0])
                if d.ty.kind == "dict" and same(d.ty, a.ty):
                    unify(d.ty, a.ty, self.where)
                    return wrap(a.binds, f"let {d.text} := dupdate {d.text} {a.text} in\n{self.block(rest, ctx)}")
        self.err(f"unsupported statement {text}")

    def if_stmt(self, st, rest, ctx):
        c = self.ex(st.test)
        if c.ty.kind != "bool":
            self.err(f"non-boolean condition {ast.unparse(st.test)}")
        saved = dict(self.env)
        if not self.has_exit(st.body) and not self.has_exit(st.orelse):
            live = self.used(rest) | ctx.live
            merged = sorted(v for v in self.assigned([st]) if v in saved and v in live)
            text, pat = tup(["v_" + v for v in merged])
            inner = Ctx(lambda: f"ret {text}", set(merged) | ctx.live)
            a = self.block(st.body, inner)
            self.env = dict(saved)
            b = self.block(st.orelse, inner)
            self.env = dict(saved)
            return wrap(c.binds, f"bind (if {c.text} then {a} else {b}) (fun {pat} =>\n{self.block(rest, ctx)})")
        a = self.block(st.body + rest, ctx)
        self.env = dict(saved)
        b = self.block(st.orelse + rest, ctx)
        self.env = dict(saved)
        return wrap(c.binds, f"if {c.text} then {a}\nelse {b}")

    def for_stmt(self, st, rest, ctx):
        if st.orelse:
            self.err("for ... else is not supported")
        binds, it, el = self.iter_expr(st.iter)
        if el is None:
            self.err(f"cannot type the elements of {ast.unparse(st.iter)}")
        self.check_iteration(st)
        state = sorted(v for v in self.assigned(st.body) if v in self.env)
        text, pat = tup(["v_" + v for v in state])
        saved = dict(self.env)
        if isinstance(st.target, ast.Name):
            self.env[st.target.id] = el
            tpat = "v_" + st.target.id
        elif isinstance(st.target, ast.Tuple) and all(isinstance(x, ast.Name) for x in st.target.elts) and el.kind == "tuple" \
                and len(el.a) == len(st.target.elts):
            for x, t in zip(st.target.elts, el.a):
                self.env[x.id] = t
            tpat = "'(" + ", ".join("v_" + x.id for x in st.target.elts) + ")"
        else:
            self.err(f"unsupported loop target {ast.unparse(st.target)}")
        loop_ctx = Ctx(lambda: f"ret (LNext {text})", set(state), ret=None, cont=lambda: f"ret (LNext {text})",
                       brk=lambda: f"ret (LBreak {text})")
        body = self.block(st.body, loop_ctx)
        for k in list(self.env):
            if k not in saved:
                del self.env[k]
        return wrap(binds, f"bind (for_each {it} (fun {tpat} {pat} =>\n{body}) {text}) (fun {pat} =>\n{self.block(rest, ctx)})")

    def check_iteration(self, st):
        """what the body may do to the object it iterates over"""
        it = st.iter
        src_name = None
        if isinstance(it, ast.Name):
            src_name = it.id
        elif isinstance(it, ast.Call) and isinstance(it.func, ast.Attribute) and it.func.attr in ("items", "keys", "values") \
                and isinstance(it.func.value, ast.Name):
            src_name = it.func.value.id
        if src_name is not None and src_name in self.assigned(st.body):
            first = st.target.elts[0] if isinstance(st.target, ast.Tuple) else st.target
            for n in [x for b in st.body for x in ast.walk(b)]:
                ok = True
                if isinstance(n, (ast.Delete, ast.AugAssign)):
                    ok = not any(self.base_name(t) == src_name for t in (n.targets if isinstance(n, ast.Delete) else [n.target]))
                elif isinstance(n, ast.Assign):
                    for t in n.targets:
                        if isinstance(t, ast.Name) and t.id == src_name:
                            ok = False
                        if isinstance(t, ast.Subscript) and self.base_name(t) == src_name:
                            ok = ok and isinstance(t.value, ast.Name) and isinstance(t.slice, ast.Name) \
                                and isinstance(first, ast.Name) and t.slice.id == first.id
                elif isinstance(n, ast.Call) and isinstance(n.func, ast.Attribute) and n.func.attr in MUTATORS \
                        and self.base_name(n.func.value) == src_name:
                    ok = False
                elif isinstance(n, ast.Call) and isinstance(n.func, ast.Name) and n.func.id in self.fns and self.fns[n.func.id].mutated:
                    ok = not any(isinstance(a, ast.Name) and a.id == src_name for a in list(n.args) + [k.value for k in n.keywords])
                if not ok:
                    self.err(f"the loop over {ast.unparse(it)} changes the keys of the dict it iterates over: {ast.unparse(n)[:80]}")
        if isinstance(it, ast.Attribute):
            # for k in entry.keys: a write to the same list must be followed by break at once
            def scan(body):
                for i, s in enumerate(body):
                    if isinstance(s, ast.Expr) and isinstance(s.value, ast.Call) and isinstance(s.value.func, ast.Attribute) \
                            and ast.unparse(s.value.func.value) == ast.unparse(it) and s.value.func.attr in MUTATORS:
                        if not (i + 1 < len(body) and isinstance(body[i + 1], ast.Break)):
                            self.err(f"{ast.unparse(s)} inside the loop over {ast.unparse(it)} is not followed by break")
                    for sub in ("body", "orelse"):
                        if isinstance(getattr(s, sub, None), list):
                            scan(getattr(s, sub))
            scan(st.body)

    # ------------------------------------------------------------------ one function
    def function(self, fn: ast.FunctionDef) -> str:
        self.where = fn.name
        self.n = 0
        self.uses_knob = False
        if fn.decorator_list or fn.args.vararg or fn.args.kwarg or fn.args.kwonlyargs or fn.args.defaults or fn.args.posonlyargs:
            self.err("unsupported signature (decorator / default / *args)")
        params = [(a.arg, self.ann(a.annotation)) for a in fn.args.args]
        ret = self.ann(fn.returns)
        sig = FnSig(fn.name, "g_" + fn.name.lstrip("_"), params, ret)
        self.env = {p: t for p, t in params}
        inplace = self.assigned(fn.body, inplace_only=True)
        sig.mutated = [p for p, t in params if p in inplace and t.kind in ("dict", "ddict", "list")]
        rty = sig.result_ty()

        def result(value_node):
            binds, parts = [], []
            if ret.kind != "unit":
                if value_node is None:
                    self.err("return without a value in a function that returns one")
                e = self.ex(value_node)
                if not same(e.ty, ret):
                    self.err(f"return value of type {e.ty!r}, declared {ret!r}")
                binds, parts = e.binds, [e.text]
                if e.binds and e.binds[-1][0] == e.text and not sig.mutated:
                    return wrap(e.binds[:-1], e.binds[-1][1])
            elif value_node is not None and not (isinstance(value_node, ast.Constant) and value_node.value is None):
                self.err("return with a value in a function declared -> None")
            text, _ = tup(parts + ["v_" + m for m in sig.mutated])
            return wrap(binds, f"ret {text}")
        ctx = Ctx(lambda: result(None), set(sig.mutated), ret=result)
        body = self.block(fn.body, ctx)
        sig.knob = self.uses_knob
        self.fns[fn.name] = sig
        ps = "".join(f" (v_{p} : {t.coq()})" for p, t in params)
        knob = " (knob_root_only : bool)" if sig.knob else ""
        muts = f"   returns the final value of: {', '.join(sig.mutated)}" if sig.mutated else ""
        return (f"(* {fn.name}{muts} *)\nDefinition {sig.gname}{knob}{ps} : M ({rty.coq()}) :=\n{body}.\n")


def _imports_ok(mod: ast.Module, wanted: dict) -> set:
    """names whose meaning the translation relies on, checked against the module's import statements"""
    got = {}
    for n in mod.body:
        if isinstance(n, ast.ImportFrom):
            for a in n.names:
                got[a.asname or a.name] = ((n.module or "").split(".")[-1], a.name)
        elif isinstance(n, ast.Import):
            for a in n.names:
                got[a.asname or a.name] = (a.name, None)
    ok = set()
    for name, origin in wanted.items():
        if name in got and got[name] == origin:
            ok.add(name)
    # a local definition shadowing an imported name changes its meaning
    for n in ast.walk(mod):
        if isinstance(n, (ast.FunctionDef, ast.ClassDef)) and n.name in ok:
            ok.discard(n.name)
    return ok


def _attr_table() -> str:
    """hasattr / attribute reads: the attributes each entry class's __init__ sets (manifest.py)"""
    mod = parse("torchsnapshot/manifest.py")
    arms = []
    for n in mod.body:
        if not (isinstance(n, ast.ClassDef) and n.name in ECLASS and n.name != "Entry"):
            continue
        if [ast.unparse(b) for b in n.bases] != ["Entry"]:
            raise TranslateError("manifest.py", f"{n.name} does not derive from Entry directly: inherited attributes are not modelled")
        inits = [f for f in n.body if isinstance(f, ast.FunctionDef) and f.name == "__init__"]
        if len(inits) != 1:
            raise TranslateError("manifest.py", f"{n.name} has no __init__ of its own")
        attrs = set()
        for s in ast.walk(inits[0]):
            if isinstance(s, (ast.Assign, ast.AnnAssign)):
                for t in (s.targets if isinstance(s, ast.Assign) else [s.target]):
                    if isinstance(t, ast.Attribute) and isinstance(t.value, ast.Name) and t.value.id == "self":
                        attrs.add(t.attr)
        # properties / class attributes with the same names would also satisfy hasattr
        for f in n.body:
            name = f.name if isinstance(f, ast.FunctionDef) else (f.target.id if isinstance(f, ast.AnnAssign) and isinstance(f.target, ast.Name) and f.value is not None else None)
            if name in ATTRS and name not in attrs:
                raise TranslateError("manifest.py", f"{n.name}.{name} is defined outside __init__")
        for a in sorted(attrs):
            if a in ATTRS:
                arms.append(f"  | Dispatch.{ECLASS[n.name]}, {ATTRS[a][0]} => true")
    return ("(* manifest.py: the attributes (of those the translated code reads) that each entry class's __init__ sets *)\n"
            "Definition g_has_attr (c : eclass) (a : attr) : bool :=\n  match c, a with\n" + "\n".join(arms) +
            "\n  | _, _ => false\n  end.\n")


def _check_pinned():
    mu = parse("torchsnapshot/manifest_utils.py")
    got = ast.unparse(find_func(mu, "_get_replicated_ranks"))
    if got != PINNED_GET_REPLICATED_RANKS:
        raise TranslateError("_get_replicated_ranks", "the source differs from the text the hand model ManifestPy.np_replicated_ranks "
                             "was written for")
    du = parse("torchsnapshot/dtensor_utils.py")
    got = ast.unparse([n for n in du.body if isinstance(n, ast.ClassDef) and n.name == "_ReplicatedShards"][0])
    if got != PINNED_REPLICATED_SHARDS:
        raise TranslateError("_ReplicatedShards", "the source differs from the text the hand model ManifestPy.rs_lookup was written for")


UTILS_FUNCS = ["is_dict_entry", "is_container_entry", "is_fully_replicated_entry", "is_partially_replicated_entry",
               "is_replicated_entry", "is_sharded_entry"]
OPS_FUNCS = ["_remove_entry", "_get_rank_to_manifest", "_get_merged_sharded_tensor_entries", "_get_merged_dtensor_entries",
             "_get_manifest_for_existing_rank", "_get_manifest_for_new_rank", "get_manifest_for_rank",
             "handle_sharded_tensor_elasticity"]


def _functions() -> str:
    _check_pinned()
    fns: dict[str, FnSig] = {}
    out = []
    mu = parse("torchsnapshot/manifest_utils.py")
    ok = _imports_ok(mu, {c: ("manifest", c) for c in ECLASS})
    tr = Tr(fns, ok)
    defined = {n.name for n in mu.body if isinstance(n, ast.FunctionDef)}
    if defined != set(UTILS_FUNCS) | {"_get_replicated_ranks"}:
        raise TranslateError("manifest_utils", f"the set of functions changed: {sorted(defined)}")
    for name in UTILS_FUNCS:
        out.append(tr.function(find_func(mu, name)))
    mo = parse("torchsnapshot/manifest_ops.py")
    wanted = {c: ("manifest", c) for c in ECLASS}
    wanted.update({"unquote": ("parse", "unquote"), "defaultdict": ("collections", "defaultdict"), "copy": ("copy", None),
                   "_ReplicatedShards": ("dtensor_utils", "_ReplicatedShards"),
                   "_get_replicated_ranks": ("manifest_utils", "_get_replicated_ranks"),
                   "is_sharded_tensor_elasticity_enabled_at_root_only": ("knobs", "is_sharded_tensor_elasticity_enabled_at_root_only")})
    ok = _imports_ok(mo, wanted)
    # the predicates manifest_ops uses must be the translated ones
    imported = {}
    for n in mo.body:
        if isinstance(n, ast.ImportFrom):
            for a in n.names:
                imported[a.asname or a.name] = ((n.module or "").split(".")[-1], a.name)
    for name in UTILS_FUNCS:
        if name in imported and imported[name] != ("manifest_utils", name):
            raise TranslateError("manifest_ops", f"{name} is not manifest_utils.{name}")
    defined = {n.name for n in mo.body if isinstance(n, ast.FunctionDef)}
    if defined != set(OPS_FUNCS):
        raise TranslateError("manifest_ops", f"the set of functions changed: {sorted(defined)}")
    visible = {k: v for k, v in fns.items() if k in imported}
    tr = Tr(visible, ok)
    for name in OPS_FUNCS:
        out.append(tr.function(find_func(mo, name)))
    return "\n".join(out)


def generate() -> dict:
    mod = parse("torchsnapshot/manifest_ops.py")
    imported = any(isinstance(n, ast.ImportFrom) and n.module == "urllib.parse"
                   and any(a.name == "unquote" and a.asname is None for a in n.names) for n in mod.body)
    uses_unquote = any(isinstance(n, ast.Name) and n.id == "unquote" for n in ast.walk(mod))
    if uses_unquote and not imported:
        raise TranslateError("manifest_ops", "unquote is not urllib.parse.unquote")
    text = ("(* generated by translator/gen_manifest_ops.py from torchsnapshot/manifest_ops.py, manifest_utils.py and manifest.py "
            "on every run - do not edit *)\n"
            "From TS Require Import model.Base model.Flatten model.ManifestOps model.Dispatch model.ManifestPy gen.DispatchGen.\n\n"
            "(* ---- decision fragments (kept from the first version of this translator) ---- *)\n"
            + _branch(find_func(mod, "get_manifest_for_rank")) + "\n"
            + _keep(find_func(mod, "_get_manifest_for_new_rank")) + "\n"
            + _elastic_key(find_func(mod, "handle_sharded_tensor_elasticity")) + "\n"
            + _removed_key(find_func(mod, "_remove_entry")) + "\n"
            "(* ---- the functions, statement by statement (vocabulary: model/ManifestPy.v) ---- *)\n"
            + _attr_table() + "\n" + _functions())
    return {"ManifestOpsGen": text}
