"""T-rng: the order of RNG capture / application code / RNG re-apply in Snapshot._take_impl, take, async_take and of the
loads in Snapshot.restore (with _load_stateful inlined) -> coq/gen/RngGen.v (statement type in coq/model/Rng.v).

What is generated
  gen_take_impl_skel, gen_take_skel, gen_async_take_skel, gen_restore_skel : list rstmt
        one constructor per top-level statement, in source order:
          RPopRng / RCaptureRng / RGatherKeys / RLoopKeys [..] / RReapplyRng / RBudget / RLoadRng  the recognised shapes,
          RBarrier   pg_wrapper.barrier(),
          RLocal     any other statement that contains no `.state_dict(` / `.load_state_dict(` call and no torch RNG call,
          RAppCall   a statement that calls `.state_dict()` / `.load_state_dict()` in an unrecognised place,
          RTorchRng  a statement that contains a torch RNG call (blacklist below);
  gen_take_draws_torch_rng, gen_restore_draws_torch_rng : bool
        does any function body REACHABLE (by identifier, over all of torchsnapshot/**.py except test_utils.py) from
        take / async_take / _take_impl / PendingSnapshot.* (resp. restore) contain a blacklisted torch RNG call;
        `.state_dict` / `.load_state_dict` are not followed (application code: modelled by the skeleton);
  gen_take_uses_python_random : bool   Python's `random` module is used on that path (not torch RNG: reported only);
  gen_take_copies_app_state, gen_restore_copies_app_state : bool
        `app_state = app_state.copy()` immediately precedes _pop_rng_state (which deletes the RNGState key).

Fail closed: _pop_rng_state, _gather_keys, RNGState.state_dict/load_state_dict must have exactly the known bodies; only
Assign/AnnAssign/AugAssign/Expr/If/For/Return(last)/Raise statements are accepted; an early `return` anywhere else raises."""
from __future__ import annotations

import ast
import glob
import os

from lib.core import REPO

from .pyast import TranslateError, find_class, find_func, normalise, parse, src

OUTPUTS = ["RngGen"]
SNAPSHOT = "torchsnapshot/snapshot.py"
RNGSTATE = "torchsnapshot/rng_state.py"

APP_METHODS = ("state_dict", "load_state_dict")
TORCH_RNG_FUNCS = {
    "rand", "randn", "randint", "randperm", "rand_like", "randn_like", "randint_like", "manual_seed", "manual_seed_all",
    "seed", "seed_all", "set_rng_state", "set_rng_state_all", "bernoulli", "multinomial", "normal", "poisson", "dropout",
    "alpha_dropout", "feature_alpha_dropout", "rrelu", "binomial", "fork_rng", "native_dropout", "dropout1d", "dropout2d",
    "dropout3d", "gumbel_softmax",
}
INPLACE_RNG = {"random_", "uniform_", "normal_", "bernoulli_", "exponential_", "geometric_", "cauchy_", "log_normal_",
               "kaiming_uniform_", "kaiming_normal_", "xavier_uniform_", "xavier_normal_", "trunc_normal_", "orthogonal_",
               "sparse_"}


# --------------------------------------------------------------------------- predicates on ast nodes
def torch_rng_calls(node: ast.AST) -> list[str]:
    out = []
    for n in ast.walk(node):
        if not isinstance(n, ast.Call):
            continue
        f = n.func
        if isinstance(f, ast.Attribute):
            full = src(f)
            if full.startswith("torch.") and f.attr in TORCH_RNG_FUNCS:
                out.append(full)
            elif f.attr in INPLACE_RNG:
                out.append(full)
            elif full.startswith("torch.nn.init."):
                out.append(full)
            elif full.startswith("torch.nn.") and f.attr[:1].isupper():
                out.append(full)                       # constructing a module initialises parameters randomly
            elif full.startswith("torch.Generator"):
                out.append(full)
    return out


def python_random_calls(node: ast.AST) -> list[str]:
    out = []
    for n in ast.walk(node):
        if isinstance(n, ast.Call) and isinstance(n.func, ast.Attribute) and isinstance(n.func.value, ast.Name) \
                and n.func.value.id == "random":
            out.append(src(n.func))
    return out


def app_calls(node: ast.AST) -> list[ast.Call]:
    return [n for n in ast.walk(node) if isinstance(n, ast.Call) and isinstance(n.func, ast.Attribute)
            and n.func.attr in APP_METHODS]


def usrc(node: ast.AST) -> str:
    """ast.unparse, with the tuple-target parentheses of older Python versions removed."""
    return src(node).replace("(key, stateful)", "key, stateful").replace("(_, stateful)", "_, stateful")


def body_of(fn) -> list[ast.stmt]:
    b = list(fn.body)
    if b and isinstance(b[0], ast.Expr) and isinstance(b[0].value, ast.Constant) and isinstance(b[0].value.value, str):
        b = b[1:]
    return b


def check_stmt_kinds(stmts, where, allow_last_return=True):
    """Only simple statements and If/For; no early return, no while/try/with."""
    for i, s in enumerate(stmts):
        last = i == len(stmts) - 1
        if isinstance(s, ast.Return):
            if not (last and allow_last_return):
                raise TranslateError(where, f"early return: {src(s)[:80]}")
        elif isinstance(s, (ast.Assign, ast.AnnAssign, ast.AugAssign, ast.Expr, ast.Raise, ast.Pass, ast.Delete)):
            pass
        elif isinstance(s, ast.If):
            check_stmt_kinds(s.body, where, allow_last_return=False)
            check_stmt_kinds(s.orelse, where, allow_last_return=False)
        elif isinstance(s, ast.For):
            if s.orelse:
                raise TranslateError(where, "for/else")
            check_stmt_kinds(s.body, where, allow_last_return=False)
        else:
            raise TranslateError(where, f"unsupported statement {type(s).__name__}: {src(s)[:80]}")
        for n in ast.walk(s):
            if isinstance(n, (ast.FunctionDef, ast.AsyncFunctionDef, ast.Await, ast.Yield, ast.YieldFrom)):
                raise TranslateError(where, f"nested definition / await in {src(s)[:80]}")


def generic(s: ast.stmt, loop: bool) -> str:
    p = "B" if loop else "R"
    if torch_rng_calls(s):
        return p + "TorchRng"
    if app_calls(s):
        return p + "AppCall"
    if src(s) in ("pg_wrapper.barrier()", "pg.barrier()"):
        return p + "Barrier"
    return p + "Local"


# --------------------------------------------------------------------------- recognised shapes
def is_not_none_test(t: ast.AST, name: str) -> bool:
    return src(t) == f"{name} is not None"


def strip_cast(e: ast.AST) -> ast.AST:
    while isinstance(e, ast.Call) and isinstance(e.func, ast.Name) and e.func.id == "cast" and len(e.args) == 2:
        e = e.args[1]
    return e


def capture_shape(s: ast.stmt, where: str) -> bool:
    """if rng_state_item is not None: key, stateful = rng_state_item; rng_state_dict = stateful.state_dict(); <no app code>"""
    if not (isinstance(s, ast.If) and is_not_none_test(s.test, "rng_state_item") and not s.orelse):
        return False
    calls = app_calls(s)
    if len(calls) != 1 or calls[0].func.attr != "state_dict":
        return False
    b = s.body
    if len(b) < 2 or usrc(b[0]) != "key, stateful = rng_state_item" or usrc(b[1]) != "rng_state_dict = stateful.state_dict()":
        raise TranslateError(where, f"RNG capture block has an unexpected shape: {src(s)[:200]}")
    for x in b[2:]:
        if generic(x, False) != "RLocal":
            raise TranslateError(where, f"RNG capture block does more than capture: {src(x)[:120]}")
    return True


def reapply_shape(s: ast.stmt, where: str) -> bool:
    """if rng_state_item is not None: _, stateful = rng_state_item; stateful.load_state_dict(rng_state_dict)"""
    if not (isinstance(s, ast.If) and is_not_none_test(s.test, "rng_state_item") and not s.orelse):
        return False
    calls = app_calls(s)
    if len(calls) != 1 or calls[0].func.attr != "load_state_dict":
        return False
    b = s.body
    ok = (len(b) == 2 and usrc(b[0]) in ("_, stateful = rng_state_item", "key, stateful = rng_state_item")
          and isinstance(b[1], ast.Expr) and b[1].value is calls[0] and src(calls[0].func) == "stateful.load_state_dict"
          and len(calls[0].args) + len(calls[0].keywords) == 1)
    if ok:
        arg = calls[0].args[0] if calls[0].args else calls[0].keywords[0].value
        ok = src(strip_cast(arg)) == "rng_state_dict"
    if not ok:
        raise TranslateError(where, f"RNG re-apply block has an unexpected shape: {src(s)[:200]}")
    return True


def take_loop(s: ast.For, where: str) -> list[str]:
    out = []
    for x in s.body:
        calls = app_calls(x)
        if not calls:
            out.append(generic(x, True))
            continue
        ok = (isinstance(x, ast.If) and src(x.test) == "key in app_state" and not x.orelse and len(calls) == 1
              and src(calls[0]) == "app_state[key].state_dict()" and isinstance(x.body[0], ast.Assign)
              and x.body[0].value is calls[0] and not torch_rng_calls(x))
        out.append("BStateDict" if ok else "BAppCall")
    return out


def load_stateful_skel(mod) -> list[str]:
    """_load_stateful as a list over {LGuard, LStateDict, LLoad, LLocal, LAppCall, LTorchRng}."""
    where = "Snapshot._load_stateful"
    fn = find_func(find_class(mod, "Snapshot"), "_load_stateful")
    b = body_of(fn)
    params = [a.arg for a in fn.args.args]
    if params[:3] != ["self", "stateful_key", "stateful"]:
        raise TranslateError(where, f"unexpected parameters {params}")
    if not (b and isinstance(b[0], ast.If) and src(b[0].test) == "stateful is None" and len(b[0].body) == 1
            and isinstance(b[0].body[0], ast.Return) and b[0].body[0].value is None and not b[0].orelse):
        raise TranslateError(where, "does not start with `if stateful is None: return`")
    check_stmt_kinds(b[1:], where)
    out = ["LGuard"]
    for s in b[1:]:
        calls = app_calls(s)
        if torch_rng_calls(s):
            out.append("LTorchRng")
        elif not calls:
            out.append("LLocal")
        elif (isinstance(s, ast.Assign) and len(calls) == 1 and src(calls[0]) == "stateful.state_dict()"):
            out.append("LStateDict")
        elif (isinstance(s, ast.If) and all(c.func.attr == "load_state_dict" and src(c.func.value) == "stateful" for c in calls)
              and len(s.body) == 1 and len(s.orelse) == 1 and isinstance(s.body[0], ast.Expr) and isinstance(s.orelse[0], ast.Expr)
              and s.body[0].value in calls and s.orelse[0].value in calls and len(calls) == 2
              and all(src(c.args[0]) == "state_dict" for c in calls if c.args)):
            out.append("LLoad")
        elif (isinstance(s, ast.Expr) and len(calls) == 1 and s.value is calls[0] and src(calls[0].func) == "stateful.load_state_dict"):
            out.append("LLoad")
        else:
            out.append("LAppCall")
    return out


def is_load_stateful_call(s: ast.stmt, stateful_expr: str) -> bool:
    if not (isinstance(s, ast.Expr) and isinstance(s.value, ast.Call) and src(s.value.func) == "self._load_stateful"):
        return False
    kw = {k.arg: src(k.value) for k in s.value.keywords}
    return not s.value.args and kw.get("stateful_key") == "key" and kw.get("stateful") == stateful_expr


# --------------------------------------------------------------------------- exact-body checks
def expect(fn, expected: list[str], where: str):
    got = [src(s) for s in body_of(fn)]
    if got != expected:
        raise TranslateError(where, f"body differs from the known one: {got}")


def check_fixed_bodies(mod):
    snap = find_class(mod, "Snapshot")
    pop = find_func(snap, "_pop_rng_state")
    b = body_of(pop)
    where = "Snapshot._pop_rng_state"
    ok = (len(b) == 2 and usrc(b[0]) == "rng_state_items = {key: stateful for key, stateful in app_state.items() if isinstance(stateful, RNGState)}"
          and isinstance(b[1], ast.If) and src(b[1].test) == "len(rng_state_items) > 1" and len(b[1].body) == 1
          and isinstance(b[1].body[0], ast.Raise) and len(b[1].orelse) == 1 and isinstance(b[1].orelse[0], ast.If))
    if ok:
        e = b[1].orelse[0]
        ok = (src(e.test) == "len(rng_state_items) == 1"
              and [usrc(x) for x in e.body] == ["key, stateful = list(rng_state_items.items())[0]", "del app_state[key]",
                                                "return key, stateful"]
              and [src(x) for x in e.orelse] == ["return None"])
    if not ok:
        raise TranslateError(where, "body differs from the known one")
    expect(find_func(snap, "_gather_keys"),
           ["gathered_keys: List[List[str]] = [None] * pg_wrapper.get_world_size()",
            "pg_wrapper.all_gather_object(gathered_keys, keys)",
            "return sorted(set(itertools.chain.from_iterable(gathered_keys)))"], "Snapshot._gather_keys")
    rmod = parse(RNGSTATE)
    rcls = find_class(rmod, "RNGState")
    meths = [n.name for n in rcls.body if isinstance(n, (ast.FunctionDef, ast.AsyncFunctionDef))]
    if sorted(meths) != ["load_state_dict", "state_dict"]:
        raise TranslateError("RNGState", f"unexpected methods {meths}")
    expect(find_func(rcls, "state_dict"), ["return {'rng_state': torch.get_rng_state()}"], "RNGState.state_dict")
    expect(find_func(rcls, "load_state_dict"), ["torch.set_rng_state(state_dict['rng_state'])"], "RNGState.load_state_dict")


# --------------------------------------------------------------------------- _take_impl / take / async_take / restore
def take_impl_skel(mod):
    where = "Snapshot._take_impl"
    fn = find_func(find_class(mod, "Snapshot"), "_take_impl")
    b = body_of(fn)
    check_stmt_kinds(b, where)
    out, copies = [], False
    for i, s in enumerate(b):
        t = src(s)
        if t in ("rng_state_item = cls._pop_rng_state(app_state=app_state)", "rng_state_item = cls._pop_rng_state(app_state)"):
            copies = i > 0 and src(b[i - 1]) == "app_state = app_state.copy()"
            out.append("RPopRng")
        elif isinstance(s, ast.Assign) and src(s.targets[0]) == "global_keys" and src(s.value.func if isinstance(s.value, ast.Call) else s.value) == "cls._gather_keys":
            kw = {k.arg: src(k.value) for k in s.value.keywords}
            if kw.get("keys") != "list(app_state.keys())":
                raise TranslateError(where, f"_gather_keys is not given list(app_state.keys()): {t[:120]}")
            out.append("RGatherKeys")
        elif capture_shape(s, where):
            out.append("RCaptureRng")
        elif reapply_shape(s, where):
            out.append("RReapplyRng")
        elif isinstance(s, ast.For) and src(s.iter) == "global_keys" and src(s.target) == "key":
            out.append("RLoopKeys [" + "; ".join(take_loop(s, where)) + "]")
        else:
            if "_pop_rng_state" in t or "rng_state_item" in t and not isinstance(s, ast.If):
                raise TranslateError(where, f"unrecognised use of the RNG state item: {t[:120]}")
            out.append(generic(s, False))
    return out, copies


def outer_skel(mod, name: str):
    """take / async_take: statements around the call of _take_impl."""
    where = f"Snapshot.{name}"
    fn = find_func(find_class(mod, "Snapshot"), name)
    b = body_of(fn)
    check_stmt_kinds(b, where)
    pre, post, seen = [], [], False
    for s in b:
        if isinstance(s, ast.Assign) and "cls._take_impl(" in src(s.value):
            kw = {k.arg: src(k.value) for k in s.value.keywords}
            if kw.get("app_state") != "app_state":
                raise TranslateError(where, "_take_impl is not given app_state")
            if seen:
                raise TranslateError(where, "_take_impl called twice")
            seen = True
            continue
        (post if seen else pre).append(generic(s, False))
    if not seen:
        raise TranslateError(where, "call of _take_impl not found")
    return pre, post


def restore_skel(mod):
    where = "Snapshot.restore"
    fn = find_func(find_class(mod, "Snapshot"), "restore")
    b = body_of(fn)
    check_stmt_kinds(b, where)
    ls = load_stateful_skel(mod)
    lmap_loop = {"LGuard": None, "LStateDict": "BStateDict", "LLoad": "BLoadStateDict", "LLocal": "BLocal",
                 "LAppCall": "BAppCall", "LTorchRng": "BTorchRng"}
    # for the RNGState: state_dict() is torch.get_rng_state() (no effect), load_state_dict is torch.set_rng_state(saved)
    lmap_rng = {"LGuard": None, "LStateDict": "RLocal", "LLoad": "RLoadRng", "LLocal": "RLocal", "LAppCall": "RAppCall",
                "LTorchRng": "RTorchRng"}
    out, copies = [], False
    for i, s in enumerate(b):
        t = src(s)
        if t in ("rng_state_item = self._pop_rng_state(app_state=app_state)", "rng_state_item = self._pop_rng_state(app_state)"):
            copies = i > 0 and src(b[i - 1]) == "app_state = app_state.copy()"
            out.append("RPopRng")
        elif isinstance(s, ast.Assign) and src(s.targets[0]) == "global_keys" and isinstance(s.value, ast.Call) and src(s.value.func) == "self._gather_keys":
            kw = {k.arg: src(k.value) for k in s.value.keywords}
            if kw.get("keys") != "list(app_state.keys())":
                raise TranslateError(where, f"_gather_keys is not given list(app_state.keys()): {t[:120]}")
            out.append("RGatherKeys")
        elif t == "memory_budget_bytes = get_process_memory_budget_bytes(pg=pg_wrapper)":
            out.append("RBudget")
        elif isinstance(s, ast.For) and src(s.iter) == "global_keys" and src(s.target) == "key":
            body = []
            for x in s.body:
                if is_load_stateful_call(x, "app_state.get(key)"):
                    body += [lmap_loop[l] for l in ls if lmap_loop[l]]
                elif "_load_stateful" in src(x):
                    raise TranslateError(where, f"unrecognised call of _load_stateful: {src(x)[:120]}")
                else:
                    body.append(generic(x, True))
            out.append("RLoopKeys [" + "; ".join(body) + "]")
        elif isinstance(s, ast.If) and is_not_none_test(s.test, "rng_state_item") and "_load_stateful" in t:
            ok = (not s.orelse and len(s.body) == 2 and usrc(s.body[0]) == "key, stateful = rng_state_item"
                  and is_load_stateful_call(s.body[1], "stateful"))
            if not ok:
                raise TranslateError(where, f"RNG load block has an unexpected shape: {t[:200]}")
            out += [lmap_rng[l] for l in ls if lmap_rng[l]]
        else:
            if "_load_stateful" in t or "_pop_rng_state" in t:
                raise TranslateError(where, f"unrecognised statement touching stateful loading: {t[:120]}")
            out.append(generic(s, False))
    return out, copies


# --------------------------------------------------------------------------- reachability scan
def package_index():
    """identifier -> [(file, qualified name, FunctionDef)] over torchsnapshot/**.py (test_utils.py and tests excluded)."""
    root = os.path.join(REPO, "torchsnapshot")
    idx: dict[str, list] = {}
    for path in sorted(glob.glob(os.path.join(root, "**", "*.py"), recursive=True)):
        rel = os.path.relpath(path, root)
        if rel == "test_utils.py" or rel.split(os.sep)[0] in ("tests", "test"):
            continue
        tree = normalise(ast.parse(open(path).read(), filename=path))

        def visit(node, prefix):
            for n in ast.iter_child_nodes(node):
                if isinstance(n, (ast.FunctionDef, ast.AsyncFunctionDef)):
                    idx.setdefault(n.name, []).append((rel, prefix + n.name, n))
                    visit(n, prefix + n.name + ".")
                elif isinstance(n, ast.ClassDef):
                    for m in n.body:
                        if isinstance(m, (ast.FunctionDef, ast.AsyncFunctionDef)) and m.name in ("__init__", "__post_init__", "__new__"):
                            idx.setdefault(n.name, []).append((rel, f"{n.name}.{m.name}", m))
                    visit(n, prefix + n.name + ".")
                else:
                    visit(n, prefix)
        visit(tree, "")
    return idx


def reachable(idx, roots):
    seen, todo, out = set(), list(roots), []
    while todo:
        item = todo.pop()
        key = (item[0], item[1])
        if key in seen:
            continue
        seen.add(key)
        out.append(item)
        for n in ast.walk(item[2]):
            name = n.id if isinstance(n, ast.Name) else n.attr if isinstance(n, ast.Attribute) else None
            if name is None or name in APP_METHODS:
                continue
            for tgt in idx.get(name, []):
                if (tgt[0], tgt[1]) not in seen:
                    todo.append(tgt)
    return out


def scan(idx, root_names):
    roots = []
    for cls, meth in root_names:
        found = [t for t in idx.get(meth, []) if t[1] == f"{cls}.{meth}"]
        if not found:
            raise TranslateError(f"{cls}.{meth}", "root function not found")
        roots += found
    fns = reachable(idx, roots)
    rng, pyr = [], []
    for rel, qn, node in fns:
        # nested defs are separate index entries but also part of the parent's body: harmless double count
        for c in torch_rng_calls(node):
            rng.append(f"{rel}:{qn}:{c}")
        for c in python_random_calls(node):
            pyr.append(f"{rel}:{qn}:{c}")
    return fns, sorted(set(rng)), sorted(set(pyr))


# --------------------------------------------------------------------------- output
def lst(xs):
    return "[" + "; ".join(xs) + "]"


def generate() -> dict[str, str]:
    mod = parse(SNAPSHOT)
    check_fixed_bodies(mod)
    impl, copies_t = take_impl_skel(mod)
    pre_t, post_t = outer_skel(mod, "take")
    pre_a, post_a = outer_skel(mod, "async_take")
    rest, copies_r = restore_skel(mod)
    idx = package_index()
    fns_t, rng_t, pyr_t = scan(idx, [("Snapshot", "take"), ("Snapshot", "async_take"), ("Snapshot", "_take_impl"),
                                     ("PendingSnapshot", "__init__"), ("PendingSnapshot", "_complete_snapshot"),
                                     ("PendingSnapshot", "wait"), ("PendingSnapshot", "done")])
    fns_r, rng_r, pyr_r = scan(idx, [("Snapshot", "restore")])
    b = lambda x: "true" if x else "false"
    text = (
        "(* GENERATED by translator/gen_rng.py from torchsnapshot/snapshot.py, rng_state.py and a reachability scan of the "
        "package - do not edit *)\n"
        "From TS Require Import model.Base model.Rng.\n\n"
        f"Definition gen_take_impl_skel : list rstmt := {lst(impl)}.\n"
        f"Definition gen_take_skel : list rstmt := {lst(pre_t)} ++ gen_take_impl_skel ++ {lst(post_t)}.\n"
        f"Definition gen_async_take_skel : list rstmt := {lst(pre_a)} ++ gen_take_impl_skel ++ {lst(post_a)}.\n"
        f"Definition gen_restore_skel : list rstmt := {lst(rest)}.\n\n"
        f"(* {len(fns_t)} function bodies reachable from take/async_take/PendingSnapshot; torch RNG calls found: {rng_t or 'none'} *)\n"
        f"Definition gen_take_draws_torch_rng : bool := {b(rng_t)}.\n"
        f"(* {len(fns_r)} function bodies reachable from restore; torch RNG calls found: {rng_r or 'none'} *)\n"
        f"Definition gen_restore_draws_torch_rng : bool := {b(rng_r)}.\n"
        f"(* Python `random` module (not torch RNG): {pyr_t or 'none'} *)\n"
        f"Definition gen_take_uses_python_random : bool := {b(pyr_t)}.\n"
        f"Definition gen_take_copies_app_state : bool := {b(copies_t)}.\n"
        f"Definition gen_restore_copies_app_state : bool := {b(copies_r)}.\n")
    return {"RngGen": text}
