"""T-stream (C20): Python ast -> Gallina for MemoryviewStream.read/seek/tell (memoryview_stream.py) and for the file
operations of FSStoragePlugin.read/write (storage_plugins/fs.py).

Fail closed: any statement or expression outside the subset below raises TranslateError.

MemoryviewStream methods become functions of (data : bytes) (self_pos : Z) (closed : bool) and their arguments,
returning `sres`:  SRet out newpos | SRaise kind   (kind 2 = ValueError, 4 = TypeError).  Statement forms:

    if self.closed: raise ValueError(..)          if c: A [else: B]   (the rest of the body is continued in both arms)
    if x is None: A else: B                       ->  match x with None => A;rest | Some x => B;rest end   (x : option Z)
    try: t = x.__index__ / except AttributeError: raise TypeError / else: x = t()
                                                  ->  nothing: arguments are integers in the model (the TypeError
                                                      outcome for non-integers is outside the model; recorded)
    x = e     self._pos = e     b = self._mv[a:c]     return e     raise ValueError(..)
    len(self._mv) -> zlen data;  min/max;  + - ;  comparisons;  memoryview(b"") -> []

FSStoragePlugin.read/write become straight-line programs over a modelled POSIX file handle (model/FsStream.v:
fh_open, fh_seek, fh_read, fh_write); the open mode string is mapped to a constructor, unknown modes fail closed.
"""
from __future__ import annotations

import ast

from translator.pyast import TranslateError, find_class, find_func, parse, src

OUTPUTS = ["StreamGen"]

CMP = {ast.Eq: "=?", ast.Lt: "<?", ast.LtE: "<=?", ast.Gt: ">?", ast.GtE: ">=?"}
EXC = {"ValueError": 2, "TypeError": 4}


class M:
    """translation of one MemoryviewStream method"""

    def __init__(self, fn: ast.FunctionDef, opt_params: set[str]):
        self.fn = fn
        self.where = f"MemoryviewStream.{fn.name}"
        self.opt = set(opt_params)          # names currently of type option Z
        self.bytes_vars: set[str] = set()
        self.ints: set[str] = {a.arg for a in fn.args.args[1:]} - self.opt
        self.notes: list[str] = []

    # ---- expressions
    def z(self, e: ast.AST) -> str:
        s = src(e)
        if s == "self._pos":
            return "self_pos"
        if s == "len(self._mv)":
            return "(zlen data)"
        if isinstance(e, ast.Name) and e.id in self.ints:
            return e.id
        if isinstance(e, ast.Constant) and isinstance(e.value, int) and not isinstance(e.value, bool):
            return f"({e.value})" if e.value < 0 else str(e.value)
        if isinstance(e, ast.UnaryOp) and isinstance(e.op, ast.USub):
            return f"(- {self.z(e.operand)})"
        if isinstance(e, ast.BinOp) and isinstance(e.op, (ast.Add, ast.Sub)):
            return f"({self.z(e.left)} {'+' if isinstance(e.op, ast.Add) else '-'} {self.z(e.right)})"
        if isinstance(e, ast.Call) and isinstance(e.func, ast.Name) and e.func.id in ("min", "max") and len(e.args) == 2 and not e.keywords:
            return f"(Z.{e.func.id} {self.z(e.args[0])} {self.z(e.args[1])})"
        raise TranslateError(self.where, f"unsupported integer expression: {s}")

    def b(self, e: ast.AST) -> str:
        s = src(e)
        if s == "self.closed":
            return "closed"
        if isinstance(e, ast.Compare) and len(e.ops) == 1 and type(e.ops[0]) in CMP:
            return f"({self.z(e.left)} {CMP[type(e.ops[0])]} {self.z(e.comparators[0])})"
        if isinstance(e, ast.UnaryOp) and isinstance(e.op, ast.Not):
            return f"(negb {self.b(e.operand)})"
        if isinstance(e, ast.BoolOp):
            return "(" + (" || " if isinstance(e.op, ast.Or) else " && ").join(self.b(v) for v in e.values) + ")"
        raise TranslateError(self.where, f"unsupported condition: {s}")

    def bytes_(self, e: ast.AST) -> str:
        s = src(e)
        if s in ("memoryview(b'')", 'memoryview(b"")'):
            return "[]"
        if isinstance(e, ast.Name) and e.id in self.bytes_vars:
            return e.id
        if (isinstance(e, ast.Subscript) and src(e.value) == "self._mv" and isinstance(e.slice, ast.Slice)
                and e.slice.step is None and e.slice.lower is not None and e.slice.upper is not None):
            return f"(slice data {self.z(e.slice.lower)} {self.z(e.slice.upper)})"
        raise TranslateError(self.where, f"unsupported bytes expression: {s}")

    def ret(self, e) -> str:
        if e is None:
            return "SRet ONone self_pos"
        s = src(e)
        if isinstance(e, ast.Constant) and isinstance(e.value, bool):
            return f"SRet (OInt {1 if e.value else 0}) self_pos"
        try:
            return f"SRet (OBytes {self.bytes_(e)}) self_pos"
        except TranslateError:
            pass
        return f"SRet (OInt {self.z(e)}) self_pos"

    # ---- statements (continuation style: the rest of the body is translated in every arm that falls through)
    def is_index_try(self, st) -> str | None:
        """the `x = operator.index(x)` idiom spelled with __index__; returns the variable name"""
        if not (isinstance(st, ast.Try) and len(st.body) == 1 and len(st.handlers) == 1 and len(st.orelse) == 1 and not st.finalbody):
            return None
        b, h, o = st.body[0], st.handlers[0], st.orelse[0]
        if not (isinstance(b, ast.Assign) and isinstance(b.value, ast.Attribute) and b.value.attr == "__index__" and isinstance(b.value.value, ast.Name)):
            return None
        x, t = b.value.value.id, src(b.targets[0])
        if not (src(h.type) == "AttributeError" and len(h.body) == 1 and isinstance(h.body[0], ast.Raise) and src(h.body[0].exc).startswith("TypeError(")):
            return None
        if not (isinstance(o, ast.Assign) and src(o.targets[0]) == x and src(o.value) == f"{t}()"):
            return None
        return x

    def stmts(self, body: list[ast.stmt], ind: str) -> str:
        if not body:
            return f"{ind}SRet ONone self_pos"
        st, rest = body[0], body[1:]
        if isinstance(st, ast.Expr) and isinstance(st.value, ast.Constant) and isinstance(st.value.value, str):
            return self.stmts(rest, ind)                                   # docstring
        if isinstance(st, ast.Raise):
            if isinstance(st.exc, ast.Call) and isinstance(st.exc.func, ast.Name) and st.exc.func.id in EXC:
                return f"{ind}SRaise {EXC[st.exc.func.id]}"
            raise TranslateError(self.where, f"unsupported raise: {src(st)}")
        if isinstance(st, ast.Return):
            return f"{ind}{self.ret(st.value)}"
        x = self.is_index_try(st)
        if x is not None:
            if x in self.opt:
                raise TranslateError(self.where, f"__index__ of possibly-None {x}")
            if x not in self.ints:
                raise TranslateError(self.where, f"__index__ of unknown {x}")
            self.notes.append(f"{x} = {x}.__index__() : identity on integers (TypeError for non-integers is outside the model)")
            return self.stmts(rest, ind)
        if isinstance(st, ast.Assign) and len(st.targets) == 1:
            t = src(st.targets[0])
            if t == "self._pos":
                return f"{ind}let self_pos := {self.z(st.value)} in\n" + self.stmts(rest, ind)
            if isinstance(st.targets[0], ast.Name):
                try:
                    v = self.bytes_(st.value)
                    self.bytes_vars.add(t)
                    self.ints.discard(t)
                except TranslateError:
                    v = self.z(st.value)
                    if t in self.opt:
                        raise TranslateError(self.where, f"assignment to possibly-None {t} outside an `is None` test")
                    self.ints.add(t)
                    self.bytes_vars.discard(t)
                return f"{ind}let {t} := {v} in\n" + self.stmts(rest, ind)
        if isinstance(st, ast.If):
            c = st.test
            if (isinstance(c, ast.Compare) and len(c.ops) == 1 and isinstance(c.ops[0], ast.Is) and isinstance(c.left, ast.Name)
                    and isinstance(c.comparators[0], ast.Constant) and c.comparators[0].value is None):
                x = c.left.id
                if x not in self.opt:
                    raise TranslateError(self.where, f"`{x} is None` on a non-optional")
                saved = (set(self.opt), set(self.ints), set(self.bytes_vars))
                # None arm: x stays untyped until assigned
                self.opt.discard(x)
                none_arm = self.stmts(list(st.body) + rest, ind + "    ")
                self.opt, self.ints, self.bytes_vars = (set(s) for s in saved)
                self.opt.discard(x); self.ints.add(x)
                some_arm = self.stmts(list(st.orelse) + rest, ind + "    ")
                self.opt, self.ints, self.bytes_vars = (set(s) for s in saved)
                self.opt.discard(x); self.ints.add(x)
                return f"{ind}match {x} with\n{ind}| None =>\n{none_arm}\n{ind}| Some {x} =>\n{some_arm}\n{ind}end"
            saved = (set(self.opt), set(self.ints), set(self.bytes_vars))
            cond = self.b(c)
            a = self.stmts(list(st.body) + rest, ind + "  ")
            self.opt, self.ints, self.bytes_vars = (set(s) for s in saved)
            bb = self.stmts(list(st.orelse) + rest, ind + "  ")
            return f"{ind}if {cond} then\n{a}\n{ind}else\n{bb}"
        raise TranslateError(self.where, f"unsupported statement: {src(st)[:120]}")

    def emit(self) -> str:
        params = []
        for a in self.fn.args.args[1:]:
            params.append(f"({a.arg} : option Z)" if a.arg in self.opt else f"({a.arg} : Z)")
        body = self.stmts(list(self.fn.body), "  ")
        notes = "".join(f"(* note: {n} *)\n" for n in self.notes)
        return (f"(* {self.where}: translated statement by statement *)\n{notes}"
                f"Definition g_mvs_{self.fn.name} (data : bytes) (self_pos : Z) (closed : bool) {' '.join(params)} : sres :=\n{body}.\n")


def gen_stream() -> str:
    mod = parse("torchsnapshot/memoryview_stream.py")
    cls = find_class(mod, "MemoryviewStream")
    if [src(b) for b in cls.bases] != ["io.IOBase"]:
        raise TranslateError("MemoryviewStream", f"bases changed: {[src(b) for b in cls.bases]} (close()/closed are io.IOBase's)")
    methods = {n.name: n for n in cls.body if isinstance(n, ast.FunctionDef)}
    expected = {"__init__", "read", "read1", "seek", "tell", "readable", "writable", "seekable"}
    if set(methods) != expected:
        raise TranslateError("MemoryviewStream", f"method set changed: {sorted(methods)} (expected {sorted(expected)})")
    init = [src(s) for s in methods["__init__"].body]
    if init != ["self._mv: memoryview = mv.cast('b')", "self._pos = 0"]:
        raise TranslateError("MemoryviewStream.__init__", f"unexpected body {init}")
    r1 = [s for s in methods["read1"].body if not (isinstance(s, ast.Expr) and isinstance(s.value, ast.Constant))]
    if [src(s) for s in r1] != ["return self.read(size)"]:
        raise TranslateError("MemoryviewStream.read1", "is no longer `return self.read(size)`")
    out = []
    read = methods["read"]
    if [a.arg for a in read.args.args] != ["self", "size"] or [src(d) for d in read.args.defaults] != ["-1"]:
        raise TranslateError("MemoryviewStream.read", "signature changed")
    out.append(M(read, {"size"}).emit())
    seek = methods["seek"]
    if [a.arg for a in seek.args.args] != ["self", "pos", "whence"] or [src(d) for d in seek.args.defaults] != ["0"]:
        raise TranslateError("MemoryviewStream.seek", "signature changed")
    out.append(M(seek, set()).emit())
    out.append(M(methods["tell"], set()).emit())
    for name in ("readable", "writable", "seekable"):
        out.append(M(methods[name], set()).emit())
    return "\n".join(out)


# ------------------------------------------------------------------------------- FS plugin
MODES = {"wb": "MTrunc", "wb+": "MTrunc", "w+b": "MTrunc", "ab": "MAppend", "ab+": "MAppend", "rb+": "MUpdate", "r+b": "MUpdate", "rb": "MRead"}


def open_mode(w: ast.AsyncWith, where: str) -> tuple[str, str, str]:
    if len(w.items) != 1:
        raise TranslateError(where, "expected one context manager")
    it = w.items[0]
    c = it.context_expr
    if not (isinstance(c, ast.Call) and src(c.func) == "aiofiles.open" and len(c.args) == 2 and not c.keywords
            and isinstance(c.args[1], ast.Constant) and isinstance(c.args[1].value, str) and isinstance(it.optional_vars, ast.Name)):
        raise TranslateError(where, f"unsupported open: {src(c)}")
    mode = c.args[1].value
    if mode not in MODES:
        raise TranslateError(where, f"unknown open mode {mode!r}")
    return src(c.args[0]), MODES[mode], it.optional_vars.id


def gen_fs() -> str:
    mod = parse("torchsnapshot/storage_plugins/fs.py")
    cls = find_class(mod, "FSStoragePlugin")
    out = []
    # ---- write
    w = find_func(cls, "write")
    where = "FSStoragePlugin.write"
    body = list(w.body)
    if src(body[0]) != "path = os.path.join(self.root, write_io.path)":
        raise TranslateError(where, f"path computation changed: {src(body[0])}")
    withs = [s for s in body if isinstance(s, ast.AsyncWith)]
    others = [s for s in body[1:] if not isinstance(s, ast.AsyncWith)]
    for s in others:                       # directory creation only
        t = src(s)
        if not (t.startswith("dir_path = pathlib.Path(path).parent") or (isinstance(s, ast.If) and src(s.test) == "dir_path not in self._dir_cache"
                and [src(x) for x in s.body] == ["dir_path.mkdir(parents=True, exist_ok=True)", "self._dir_cache.add(dir_path)"])):
            raise TranslateError(where, f"unexpected statement: {t[:100]}")
    if len(withs) != 1 or body[-1] is not withs[0]:
        raise TranslateError(where, "expected one `async with aiofiles.open(...)` as the last statement")
    p, mode, f = open_mode(withs[0], where)
    if p != "path":
        raise TranslateError(where, f"opens {p}, not path")
    ops = [src(s) for s in withs[0].body]
    if ops != [f"await {f}.write(write_io.buf)"]:
        raise TranslateError(where, f"file operations changed: {ops}")
    out.append(f"(* FSStoragePlugin.write: open(path, mode -> {mode}); f.write(write_io.buf) *)\n"
               f"Definition g_fs_write (old : option bytes) (buf : bytes) : bytes :=\n"
               f"  let f := fh_open {mode} old in\n  let f := fh_write f buf in\n  fh_content f.\n")
    # ---- read
    r = find_func(cls, "read")
    where = "FSStoragePlugin.read"
    body = list(r.body)
    if [src(s) for s in body[:2]] != ["path = os.path.join(self.root, read_io.path)", "byte_range = read_io.byte_range"]:
        raise TranslateError(where, f"prologue changed: {[src(s) for s in body[:2]]}")
    if len(body) != 3 or not isinstance(body[2], ast.AsyncWith):
        raise TranslateError(where, "expected prologue + one async with")
    p, mode, f = open_mode(body[2], where)
    if p != "path" or mode != "MRead":
        raise TranslateError(where, f"opens {p} with {mode}")
    inner = body[2].body
    if not (len(inner) == 1 and isinstance(inner[0], ast.If) and src(inner[0].test) == "byte_range is None"):
        raise TranslateError(where, "expected `if byte_range is None:` inside the with")

    def arm(stmts, ind):
        env = {"byte_range[0]": "(fst byte_range)", "byte_range[1]": "(snd byte_range)"}
        lines = []
        names: set[str] = set()

        def z(e):
            s = src(e)
            if s in env:
                return env[s]
            if isinstance(e, ast.Name) and e.id in names:
                return e.id
            if isinstance(e, ast.Constant) and isinstance(e.value, int) and not isinstance(e.value, bool):
                return f"({e.value})" if e.value < 0 else str(e.value)
            if isinstance(e, ast.BinOp) and isinstance(e.op, (ast.Add, ast.Sub)):
                return f"({z(e.left)} {'+' if isinstance(e.op, ast.Add) else '-'} {z(e.right)})"
            raise TranslateError(where, f"unsupported expression {s}")
        result = None
        for s in stmts:
            t = src(s)
            if isinstance(s, ast.Assign) and isinstance(s.targets[0], ast.Name) and not t.startswith("read_io"):
                lines.append(f"{ind}let {s.targets[0].id} := {z(s.value)} in")
                names.add(s.targets[0].id)
            elif isinstance(s, ast.Expr) and isinstance(s.value, ast.Await) and isinstance(s.value.value, ast.Call) and src(s.value.value.func) == f"{f}.seek" and len(s.value.value.args) == 1:
                lines.append(f"{ind}let f := fh_seek f {z(s.value.value.args[0])} in")
            elif (isinstance(s, ast.Assign) and src(s.targets[0]) == "read_io.buf" and isinstance(s.value, ast.Call) and src(s.value.func) == "io.BytesIO"
                  and len(s.value.args) == 1 and isinstance(s.value.args[0], ast.Await) and isinstance(s.value.args[0].value, ast.Call)
                  and src(s.value.args[0].value.func) == f"{f}.read" and len(s.value.args[0].value.args) <= 1):
                a = s.value.args[0].value.args
                n = f"(Some {z(a[0])})" if a else "None"
                lines.append(f"{ind}let '(f, buf) := fh_read f {n} in")
                result = "buf"
            else:
                raise TranslateError(where, f"unsupported statement {t[:100]}")
        if result is None or not src(stmts[-1]).startswith("read_io.buf"):
            raise TranslateError(where, "read_io.buf is not assigned last")
        lines.append(f"{ind}{result}")
        return "\n".join(lines)
    out.append("(* FSStoragePlugin.read: open(path, 'rb'); whole read, or seek + read(size) *)\n"
               "Definition g_fs_read (d : bytes) (byte_range : option (Z * Z)) : bytes :=\n"
               "  let f := fh_open MRead (Some d) in\n  match byte_range with\n  | None =>\n" + arm(inner[0].body, "    ") +
               "\n  | Some byte_range =>\n" + arm(inner[0].orelse, "    ") + "\n  end.\n")
    return "\n".join(out)


def generate() -> dict[str, str]:
    text = ("(* GENERATED by translator/gen_stream.py from /repo/torchsnapshot/memoryview_stream.py and storage_plugins/fs.py - do not edit. *)\n"
            "From TS Require Import model.Base model.FsStream.\n\n" + gen_stream() + "\n" + gen_fs())
    return {"StreamGen": text}
