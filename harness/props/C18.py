"""C18 - read_object returns what restore would, under any memory budget."""
from __future__ import annotations

import os
import shutil

from lib import coqrun
from lib.core import Ctx, Failure, Mismatch, Result
from lib.tocoq import term, val
from lib.world import safe_gc
from props import state_gen as sg
from props.C01 import Knobs

PROP = "C18"
PROPS_FILE = "props/C18.v"
GEN: list[str] = []
CORRESPONDENCES = ["read_object-tile-ranges~model"]
RULE = ("real Snapshot.read_object over every non-container manifest path of generated snapshots (plain / chunked / "
        "torch_save tensors of 12 dtypes, scalar / zero-length / odd shapes, objects, primitives; batching on/off, small "
        "chunk and slab knobs) x obj_out in {None, matching tensor, mismatching tensor} x memory_budget_bytes in "
        "{None, 1, esize-1, esize, esize+1, size/2, size, size+1}; storage reads and consumer lifetimes are recorded to "
        "measure in-flight buffer bytes; unknown paths must raise. Non-trivial = a tensor with > 0 elements read under a "
        "budget; distinct by (entry, obj_out kind, budget, batching).")
TRUSTED = [
    "Coq 8.16.1 kernel and vm_compute; theorems closed under the global context",
    "tile model coq/model/Chunk.v (validated against torch.chunk every run under C16) and the read scheduler model of C10",
    "measurement seam: torchsnapshot.snapshot.sync_execute_read_reqs is wrapped to log each consumer's begin/end; the "
    "FS plugin's read is wrapped to log read sizes",
]
ASSUMPTIONS = [
    "sharded entries: the dense result of read_object is C08's reshard_dense theorem; here they are exercised end to end in a "
    "world-size-1 gloo group (several pieces of one ShardedTensor per rank, subdivided and batched)",
    "a destination tensor that cannot be viewed flat is tiled along dim 0 (tiles may exceed the budget and then run alone)",
]
IMPORTS = "From TS Require Import model.Chunk.\n"


class Recorder:
    """wraps the FS plugin's read and the consumers handed to the read pipeline"""
    def __init__(self):
        self.events = []      # ("read", path, range, nbytes) / ("cbegin", id, nbytes) / ("cend", id)

    def __enter__(self):
        import torchsnapshot.snapshot as snapmod
        import torchsnapshot.storage_plugin as spmod
        from torchsnapshot.storage_plugins.fs import FSStoragePlugin
        rec = self
        self._fs, self._exec = spmod.FSStoragePlugin, snapmod.sync_execute_read_reqs

        class RecFS(FSStoragePlugin):
            async def read(self, read_io):
                await super().read(read_io)
                if read_io.path != ".snapshot_metadata":
                    rec.events.append(("read", read_io.path, read_io.byte_range, len(read_io.buf.getvalue())))

        def wrapped(read_reqs, storage, memory_budget_bytes, rank, event_loop):
            for k, rr in enumerate(read_reqs):
                c = rr.buffer_consumer
                orig = c.consume_buffer

                async def consume(buf, executor=None, _orig=orig, _k=k):
                    rec.events.append(("cbegin", _k, len(buf)))
                    try:
                        return await _orig(buf, executor)
                    finally:
                        rec.events.append(("cend", _k))
                c.consume_buffer = consume
            rec.budget_passed = memory_budget_bytes
            return rec._exec(read_reqs=read_reqs, storage=storage, memory_budget_bytes=memory_budget_bytes, rank=rank, event_loop=event_loop)

        spmod.FSStoragePlugin = RecFS
        snapmod.sync_execute_read_reqs = wrapped
        # the copy of a deserialised buffer into the destination (run in the executor): slowed down a little and logged,
        # so that a buffer counts as alive until its bytes have really been copied - also when consume_buffer returns early
        import time
        import torchsnapshot.io_preparers.sharded_tensor as stmod
        import torchsnapshot.io_preparers.tensor as tmod
        self._copy = tmod.tensor_copy

        def slow_copy(dst, src, _orig=self._copy):
            time.sleep(0.001)
            _orig(dst, src)
            rec.events.append(("copied", int(src.nelement() * src.element_size())))
        tmod.tensor_copy = slow_copy
        stmod.tensor_copy = slow_copy
        return self

    def __exit__(self, *a):
        import torchsnapshot.snapshot as snapmod
        import torchsnapshot.storage_plugin as spmod
        spmod.FSStoragePlugin, snapmod.sync_execute_read_reqs = self._fs, self._exec
        import torchsnapshot.io_preparers.sharded_tensor as stmod
        import torchsnapshot.io_preparers.tensor as tmod
        tmod.tensor_copy = self._copy
        stmod.tensor_copy = self._copy

    def uncopied(self):
        """trace of (bytes handed to consumers and not yet copied into the destination, number of such buffers)"""
        tot, n, trace = 0, 0, []
        for e in list(self.events):
            if e[0] == "cbegin":
                tot += e[2]; n += 1
            elif e[0] == "copied":
                tot -= e[1]; n -= 1
            trace.append((tot, n))
        return trace

    def max_alive(self):
        """(max total bytes of buffers alive at once, max number alive when the total exceeded a given bound is computed by caller)"""
        alive, best, trace = {}, 0, []
        for e in self.events:
            if e[0] == "cbegin":
                alive[e[1]] = e[2]
            elif e[0] == "cend":
                alive.pop(e[1], None)
            tot = sum(alive.values())
            trace.append((tot, len(alive)))
        return trace


def matching_view(want):
    """a destination of the entry's dtype and shape that CANNOT be flattened without a copy: a reversed-dims permutation
    of a contiguous buffer (for a 2-d tensor: the transpose of a buffer of the transposed shape)"""
    import torch
    perm = list(range(want.dim()))[::-1]
    return torch.zeros([want.shape[p] for p in perm], dtype=want.dtype).permute(perm)


def entry_kind(entry):
    return type(entry).__name__


def correspond(ctx: Ctx) -> Result:
    import torch
    from torchsnapshot import Snapshot, StateDict
    from torchsnapshot.manifest import ChunkedTensorEntry, ObjectEntry, PrimitiveEntry, TensorEntry
    from torchsnapshot.manifest_utils import is_container_entry
    import logging
    logging.disable(logging.CRITICAL)
    res = Result(rule=RULE)
    rng = ctx.rng
    coq, meta = [], []
    for i in range(ctx.n(10, 80)):
        knobs = {"chunk": rng.choice([None, 16, 40]), "slab": rng.choice([None, 9, 64]), "nobatch": rng.random() < 0.5,
                 "budget": 100000000, "conc": rng.choice([1, 16])}
        leaves = {}
        for j in range(rng.randint(3, 6)):
            leaves[f"k{j}"] = sg.gen_leaf(rng, kinds=("tensor", "tensor", "tensor", "tensor", "prim", "obj"))
        leaves["big"] = ("tensor", rng.choice(["float32", "int16", "float64", "bfloat16"]), [rng.choice([6, 9, 17]), 3], "contiguous", rng.getrandbits(32))
        # designed leaves (every state has them; all destination kinds are tried under a mid-range budget, not one drawn kind):
        # 'big' has its largest dim first, 'wide' its largest dim LAST (a tiled read along dim 0 is not a read along the largest dim)
        leaves["wide"] = ("tensor", rng.choice(["float32", "int64", "float64"]), [3, rng.choice([7, 10, 17])], "contiguous", rng.getrandbits(32))
        state = {k: sg.build(s, None) for k, s in leaves.items()}
        expect = {k: sg.build(s, None) for k, s in leaves.items()}
        root = ctx.scratch("c18")
        path = os.path.join(root, "snap")
        with Knobs(knobs), safe_gc():
            Snapshot.take(path, {"m": StateDict(state)})
            snap = Snapshot(path)
            manifest = snap.get_manifest()
            for mpath, entry in manifest.items():
                if is_container_entry(entry):
                    continue
                key = mpath.split("/")[-1]
                want = expect[key]
                is_t = isinstance(want, torch.Tensor)
                if is_t:
                    esize = sg.ESIZE[str(want.dtype).replace("torch.", "")]
                    size = esize * want.numel()
                    cand = sorted({1, max(esize - 1, 1), esize, esize + 1, max(size // 2, 1), max(size, 1), size + 1})
                    budgets = [None] + rng.sample(cand, min(3 if not ctx.thorough else 9, len(cand)))
                    designed_leaf = key in ("big", "wide")
                    if designed_leaf:
                        budgets = [None] + sorted(set(budgets[1:3] + [max(size // 2, 1), esize * int(want.shape[-1])]))
                    outs = ["none", "match", "mismatch"] + (["match-view"] if want.dim() >= 2 else [])
                else:
                    budgets, outs, designed_leaf = [None, 1], ["none"], False
                for b in budgets:
                    for ok in (outs if (ctx.thorough or b is None or designed_leaf) else [rng.choice(outs)]):
                        if ok == "match":
                            obj_out = torch.zeros(list(want.shape), dtype=want.dtype)
                        elif ok == "match-view":
                            obj_out = matching_view(want)
                        elif ok == "mismatch":
                            obj_out = torch.ones([2] + list(want.shape), dtype=torch.float32)
                        else:
                            obj_out = None
                        replay = {"leaves": leaves, "knobs": knobs, "path": mpath, "budget": b, "obj_out": ok}
                        res.case({"entry": entry_kind(entry), "path": mpath, "budget": b, "obj_out": ok, "nobatch": knobs["nobatch"],
                                  "shape": list(want.shape) if is_t else None},
                                 nontrivial=is_t and want.numel() > 0 and b is not None)
                        res.count("entry", entry_kind(entry)); res.count("budget_class", "none" if b is None else ("<=esize" if is_t and b <= esize else (">=size" if is_t and b >= size else "mid")))
                        res.count("obj_out", ok)
                        with Recorder() as rec:
                            try:
                                got = snap.read_object(mpath, obj_out=obj_out, memory_budget_bytes=b)
                            except Exception as e:  # noqa
                                res.failures.append(Failure(f"C18:read_object-raised:{entry_kind(entry)}:{type(e).__name__}",
                                                            f"read_object({mpath!r}, obj_out={ok}, budget={b}) raised {type(e).__name__}: {str(e)[:160]}", replay))
                                continue
                        d = sg.equal_exact(got, want, mpath)
                        if d:
                            res.failures.append(Failure(f"C18:value-differs:{entry_kind(entry)}:{ok}", f"read_object({mpath!r}, obj_out={ok}, budget={b}): {d}", replay))
                        if ok in ("match", "match-view") and is_t and sg.tensor_bytes(obj_out) != sg.tensor_bytes(want):
                            res.failures.append(Failure("C18:matching-obj_out-not-filled", f"read_object({mpath!r}) did not fill the matching obj_out (budget={b})", replay))
                        ser = getattr(entry, "serializer", None) or (entry.chunks[0].tensor.serializer if getattr(entry, "chunks", None) else "buffer_protocol")
                        if b is not None and is_t:
                            for tot, n in rec.max_alive():
                                if tot > b and n > 1:
                                    res.failures.append(Failure("C18:inflight-buffers-exceed-budget" if ser == "buffer_protocol" else "C18:inflight-buffers-exceed-budget:torch_save-archive-larger-than-declared-cost",
                                                                f"read_object({mpath!r}, budget={b}): {tot} buffer bytes alive in {n} buffers [{entry_kind(entry)} nobatch={knobs['nobatch']}]", replay))
                                    break
                            if ser == "buffer_protocol" and not isinstance(entry, ObjectEntry):
                                for tot, n in rec.uncopied():
                                    if tot > b and n > 1:
                                        res.failures.append(Failure("C18:inflight-buffers-exceed-budget:copy-pending",
                                                                    f"read_object({mpath!r}, budget={b}): {tot} bytes in {n} buffers had been handed to consumers and not yet copied into the destination [{entry_kind(entry)}]", replay))
                                        break
                            reads = [e for e in rec.events if e[0] == "read"]
                            if isinstance(entry, TensorEntry) and entry.serializer == "buffer_protocol" and reads:
                                # a flattenable destination: the single oversized request would be the whole tensor
                                worst = max(e[3] for e in reads)
                                if worst >= b + esize and size > worst - 1 and len(reads) == 1 and size > b + esize:
                                    res.failures.append(Failure("C18:budget-ignored-single-read-of-whole-tensor",
                                                                f"read_object({mpath!r}, budget={b}) issued one read of {worst} bytes for a {size}-byte tensor", replay))
                                # correspondence: the ranges read are the model's tiles
                                base = entry.byte_range[0] if entry.byte_range else 0
                                got_ranges = sorted([list(e[2]) for e in reads if e[2] is not None and e[2][0] != e[2][1]])
                                shape = list(want.shape)
                                # flat: can the destination the library tiles be viewed as 1-d?  (none / match / mismatch -> a
                                # freshly allocated or contiguous tensor; match-view -> not flattenable, tiled along dim 0)
                                flat = "false" if (ok == "match-view" and not obj_out.is_contiguous()) else "true"
                                exp_term = f"({term(shape)}, {flat}, {term(esize)}, {term(b)}, {term(base)})"
                                coq.append((exp_term, got_ranges))
                                meta.append(replay)
            # paths not in the manifest raise
            for bad in ("0/m/nope", "0/nope/x", "7/m/k0", "0/m"):
                try:
                    with Recorder():
                        snap.read_object(bad)
                    if bad != "0/m":
                        res.failures.append(Failure("C18:unknown-path-did-not-raise", f"read_object({bad!r}) returned normally", {"path": bad}))
                except Exception:
                    pass
                res.case({"unknown_path": bad}, nontrivial=False)
        shutil.rmtree(root, ignore_errors=True)
    check_sharded(ctx, res)
    # model tiles: compare only the ranges (lo, hi)
    cases = [(t, val([[[lo, hi] for lo, hi in r]])) for t, r in coq]
    bad, errs = coqrun.run_cases("C18_tiles", IMPORTS + "Definition obs_tile_ranges (x : list Z * bool * Z * Z * Z) : val :=\n"
                                 "  let '(shape, flat, esize, limit, base) := x in\n"
                                 "  vopt (fun ts => VL (map (fun t : tile_t => VL [VZ (fst (fst t)); VZ (snd (fst t))]) (filter (fun t : tile_t => negb (fst (fst t) =? snd (fst t))) ts))) (tile shape flat esize limit base).\n",
                                 "obs_tile_ranges", cases, shard=300, in_type="list Z * bool * Z * Z * Z")
    for e in errs:
        res.mismatches.append(Mismatch(CORRESPONDENCES[0], "coqc error", None, e))
    for i in bad:
        res.mismatches.append(Mismatch(CORRESPONDENCES[0], {k: meta[i][k] for k in ("path", "budget", "obj_out")}, str(coq[i])[:300], None))
    res.traces_validated += len(cases)
    return res


def check_sharded(ctx: Ctx, res: Result):
    """sharded entries: read_object returns the full dense tensor (world-size-1 gloo group; several pieces of one
    ShardedTensor per rank, subdivided and batched into one slab, so that pieces share a storage location)"""
    import torch
    from torchsnapshot import Snapshot, StateDict
    from props.C08 import C08Group, C08_make_sharded
    rng = ctx.rng
    with C08Group(ctx):
        for i in range(ctx.n(6, 40)):
            rows, cols = rng.choice([(8, 4), (6, 3), (9, 2), (4, 4)])
            dtype = rng.choice([torch.float32, torch.int64, torch.int16])
            G = torch.arange(rows * cols).reshape(rows, cols).to(dtype)
            if cols >= 2 and rng.random() < 0.5:
                # an irregular partition: a left column split in two above one another, next to a full-height right block
                # (the shard reaching the far corner is NOT the last one in offset order)
                r1, c1 = rng.randint(1, rows - 1), rng.randint(1, cols - 1)
                boxes = [([0, 0], [r1, c1]), ([r1, 0], [rows - r1, c1]), ([0, c1], [rows, cols - c1])]
            else:
                cuts = sorted(rng.sample(range(1, rows), rng.randint(1, min(3, rows - 1))))
                bounds = [0] + cuts + [rows]
                boxes = [([a, 0], [b - a, cols]) for a, b in zip(bounds, bounds[1:])]
            sharded = C08_make_sharded(boxes, [rows, cols], [G[o[0]:o[0] + z[0], o[1]:o[1] + z[1]].clone() for o, z in boxes])
            knobs = {"chunk": None, "slab": rng.choice([None, 64]), "nobatch": rng.random() < 0.3, "budget": 100000000, "conc": rng.choice([1, 16])}
            maxshard = rng.choice([None, G.element_size() * cols, G.element_size() * cols * 2])
            root = ctx.scratch("c18s")
            path = os.path.join(root, "snap")
            env_old = os.environ.get("TORCHSNAPSHOT_MAX_SHARD_SIZE_BYTES_OVERRIDE")
            if maxshard:
                os.environ["TORCHSNAPSHOT_MAX_SHARD_SIZE_BYTES_OVERRIDE"] = str(maxshard)
            try:
                with Knobs(knobs), safe_gc():
                    Snapshot.take(path, {"state": StateDict({"foo": sharded, "n": 3})})
                    snap = Snapshot(path)
                    for b in [None, 1, G.element_size() * cols, 4096]:
                        for ok in ("none", "match"):
                            obj_out = torch.zeros(rows, cols, dtype=dtype) if ok == "match" else None
                            replay = {"sharded": True, "rows": rows, "cols": cols, "boxes": boxes, "maxshard": maxshard, "knobs": knobs, "budget": b, "obj_out": ok}
                            res.case({"entry": "ShardedTensorEntry", "shape": [rows, cols], "shards": len(boxes), "max_shard": maxshard,
                                      "budget": b, "obj_out": ok, "nobatch": knobs["nobatch"]}, nontrivial=True)
                            res.count("entry", "ShardedTensorEntry")
                            try:
                                got = snap.read_object("0/state/foo", obj_out=obj_out, memory_budget_bytes=b)
                            except Exception as e:  # noqa
                                res.failures.append(Failure(f"C18:read_object-raised:ShardedTensorEntry:{type(e).__name__}",
                                                            f"read_object(sharded, obj_out={ok}, budget={b}) raised {type(e).__name__}: {str(e)[:160]}", replay))
                                continue
                            d = sg.equal_exact(got, G, "0/state/foo")
                            if d:
                                res.failures.append(Failure(f"C18:value-differs:ShardedTensorEntry:{ok}",
                                                            f"read_object(sharded {rows}x{cols} in {len(boxes)} shards, max_shard={maxshard}, obj_out={ok}, budget={b}, nobatch={knobs['nobatch']}): {d}", replay))
            finally:
                if env_old is None:
                    os.environ.pop("TORCHSNAPSHOT_MAX_SHARD_SIZE_BYTES_OVERRIDE", None)
                else:
                    os.environ["TORCHSNAPSHOT_MAX_SHARD_SIZE_BYTES_OVERRIDE"] = env_old
                shutil.rmtree(root, ignore_errors=True)


def replay(ctx: Ctx, data):
    """re-run one read_object of a replay file: rebuild the snapshot from the leaf specs, read the path, compare"""
    import torch
    from torchsnapshot import Snapshot, StateDict
    if "leaves" not in data:
        return None

    def fix(sp):
        return tuple(sp) if isinstance(sp, list) and sp and sp[0] in ("tensor", "prim", "obj") else sp
    leaves = {k: fix(v) for k, v in data["leaves"].items()}
    state = {k: sg.build(sp, None) for k, sp in leaves.items()}
    expect = {k: sg.build(sp, None) for k, sp in leaves.items()}
    root = ctx.scratch("c18r")
    path = os.path.join(root, "snap")
    out = None
    try:
        with Knobs(data["knobs"]), safe_gc():
            Snapshot.take(path, {"m": StateDict(state)})
            want = expect[data["path"].split("/")[-1]]
            ok, b = data["obj_out"], data["budget"]
            obj_out = None
            if isinstance(want, torch.Tensor) and ok == "match":
                obj_out = torch.zeros(list(want.shape), dtype=want.dtype)
            elif isinstance(want, torch.Tensor) and ok == "match-view":
                obj_out = matching_view(want)
            elif isinstance(want, torch.Tensor) and ok == "mismatch":
                obj_out = torch.ones([2] + list(want.shape), dtype=torch.float32)
            with Recorder() as rec:
                try:
                    got = Snapshot(path).read_object(data["path"], obj_out=obj_out, memory_budget_bytes=b)
                except Exception as e:  # noqa
                    return Failure(f"C18:read_object-raised:{type(e).__name__}", str(e)[:200], data)
            d = sg.equal_exact(got, want, data["path"])
            if d:
                out = Failure("C18:value-differs", d, data)
            elif b is not None and isinstance(want, torch.Tensor):
                for tot, n in rec.max_alive():
                    if tot > b and n > 1:
                        out = Failure("C18:inflight-buffers-exceed-budget", f"{tot} bytes alive in {n} buffers (budget {b})", data)
                        break
                reads = [e for e in rec.events if e[0] == "read"]
                esize = sg.ESIZE[str(want.dtype).replace("torch.", "")]
                size = esize * want.numel()
                if out is None and len(reads) == 1 and reads[0][3] >= b + esize and size > b + esize:
                    out = Failure("C18:budget-ignored-single-read-of-whole-tensor", f"one read of {reads[0][3]} bytes under budget {b}", data)
    finally:
        shutil.rmtree(root, ignore_errors=True)
    return out


MANIFEST = {
    "level_text": ("Machine-checked proof (Coq 8.16.1): for every shape, element size, base offset and buffer limit >= 1 a tiled "
                   "read reassembles exactly the entry's bytes (= what the untiled read used by restore delivers); every tile of a "
                   "flattenable output is smaller than limit + element size and within the limit when the limit is a multiple of "
                   "the element size; with the tiles as read requests the scheduler keeps in-flight bytes within the budget unless "
                   "a single oversized tile is in flight (instantiating C10's theorem) - all over the tile model validated under "
                   "C16. Tied to the code by running the real read_object over every manifest path x obj_out kinds x budgets x "
                   "batching, with values compared bit-exactly, in-flight buffer bytes measured, and the byte ranges actually "
                   "read compared with the model's tiles."),
    "level_note": ("Trusted: Coq kernel+VM, tile and scheduler models (tied under C16/C10), the measurement seam. Sharded entries' "
                   "dense read is C08's theorem and not exercised here (needs a process group). No axioms."),
    "technique": "Coq theorems on tiling (reassembly, cost bound, budget via C10) + bit-exact read_object sweep with in-flight measurement",
    "design_ref": "DESIGN.md section 5, C18",
}
