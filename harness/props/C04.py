"""C04 - Restore never silently returns wrong data when stored payload is damaged."""
from __future__ import annotations

import contextlib
import logging
import os
import random
import shutil
import signal
import time

from lib import coqrun
from lib.core import Ctx, Failure, Mismatch, Obligation, Result
from lib.tocoq import Ctor, Raw, Some, term, val
from lib.world import safe_gc

PROP = "C04"
PROPS_FILE = "props/C04.v"
GEN: list[str] = ["gen_readpath", "gen_stream"]
CORRESPONDENCES = [
    "consumer:tensor_from_memoryview~rd_frombuffer",
    "plan:prepare_read~rd_read_plan",
    "call:Snapshot.restore/read_object~rd_restore",
    "sharded:ShardedTensorIOPreparer.prepare_read+execute_read_reqs~rd_restore",
    "legacy:pre-fix BatchedBufferConsumer~rd_restore(legacy)",
    # the same real observations against the terms regenerated from the source (gen/ReadPathGen.v, gen/StreamGen.v)
    "generated:tensor_from_memoryview~g_tensor_from_memoryview",
    "generated:prepare_read~g_read_plan",
    "generated:prepare_read+batch_read_requests~g_plan",
    "generated:Snapshot.restore/read_object~g_restore",
    "generated:sharded prepare_read+execute_read_reqs~g_restore",
]
GEN_MODEL = "generated:model-builds(gen/ReadPathGen.v,model/ReadPathGenObs.v)"
RULE = ("real committed snapshots (single process Snapshot.take into a scratch dir; two Stateful groups holding plain tensors "
        "of float32/float64/float16/bfloat16/int64/int32/int16/uint8/bool incl. 0-d and zero-length ones, two chunked "
        "tensors (chunk override 40..100 bytes), a complex64 tensor (torch_save) and a chunked complex64 tensor (torch_save chunks), python objects, primitives, a list; "
        "slab threshold 16..4096 so several slabs exist; taken with batching on and off). For every payload file and "
        "damage in {deleted, truncated at 0, 1, mid, size-1, every entry boundary and boundary+-1} (thorough: every length "
        "of files <= 4 kB for the calls touching the file) the snapshot directory is copied (hard links), the copy is "
        "damaged, and Snapshot(copy).restore(fresh sentinel-prefilled app_state) and read_object(path) (obj_out None / "
        "sentinel-prefilled, memory_budget_bytes None / small so that tiled reads occur) run with read batching on and "
        "off under a watchdog. Oracle: the call raises, or every value it filled/returned equals the saved value bit for "
        "bit (dtype, shape, bytes; objects by ==); when no needed range is damaged it must return with the saved values. "
        "Sharded: hand-made ShardedTensorEntry over files written by the harness (own files and slab ranges), "
        "ShardedTensorIOPreparer.prepare_read + batch_read_requests + sync_execute_read_reqs into a sentinel-prefilled "
        "dense tensor. Consumers: tensor_from_memoryview on buffers of every length 0..size+esize for sample dtype/shapes. "
        "torch.load is validated on every strict prefix of sample archives. Every real observation (consumer verdicts, "
        "prepare_read plans, restore / read_object / sharded verdicts) is compared BOTH with the hand-written model "
        "(model/ReadDamage.v) and with the terms regenerated from the source on this run (gen/ReadPathGen.v by "
        "translator/gen_readpath.py, gen/StreamGen.v by translator/gen_stream.py, wired in model/ReadPathGenObs.v); in "
        "addition the real batch_read_requests applied to the real prepare_read output (whole manifest; single entries "
        "with limits 8 / 20) is compared with the generated planner + generated batch_read_requests (which requests are "
        "merged, merged extent, sub-range per consumer). A case is non-trivial when the damaged file "
        "is read by the call; distinct by (snapshot layout, file role, damage class, api, batching, limit).")
TRUSTED = [
    "Coq 8.16.1 kernel and its vm_compute VM (no native_compute)",
    "translator/gen_readpath.py (Python ast -> Gallina, fail closed, regenerated from the source tree on every run): "
    "tensor_from_memoryview, torch_load_from_bytes, TensorBufferConsumer.deserialize_tensor / consume_buffer, "
    "ShardedTensorBufferConsumer.consume_buffer, ObjectBufferConsumer.consume_buffer, BatchedBufferConsumer.consume_buffer "
    "(slice per sub-consumer, asyncio.wait + result retrieval / gather), batch_read_requests statement by statement, "
    "prepare_read of the tensor / chunked / sharded / object preparers (path, byte range and entry of every ReadReq), "
    "_ReadPipeline.read_buffer / consume_buffer and the `d.result()` retrieval in both completion branches of "
    "execute_read_reqs; translator/gen_stream.py for FSStoragePlugin.read (C20). proofs/ReadPathInst.v proves every "
    "generated definition equal to the hand-written model definition the theorems were proved for, and "
    "props/C04.v restates the theorems over the generated run; each generated term is also exercised by a correspondence",
    "vocabulary of the generated terms, hand-written and modelled not verified (model/ReadPathPrims.v): torch.empty / "
    "torch.frombuffer / torch.reshape acceptance conditions (validated on every run by the consumer correspondence on "
    "buffers of every length), Python dict / defaultdict(list) with insertion order, tensor_copy stores the source's "
    "content, the representation of ReadReq / consumer objects, prepare_read_tiled (tile arithmetic: C16, gen/ChunkGen.v)",
    "wiring of the generated pieces (model/ReadPathGenObs.v, exercised by the correspondences): aiofiles.open raises for a "
    "missing file, dynamic dispatch of consume_buffer / prepare_read, consumer ids, batching applied by restore always "
    "and by read_object only without memory budget",
    "the scheduling loop of execute_read_reqs (every pipeline is dispatched and consumed exactly once, the loop "
    "terminates) is C11's: C11_read_exactly_once, C11_read_failure_raises (props/C11.v over gen/SchedGen.v); C04 "
    "translates what makes a failed task fatal (result retrieval) and what each pipeline reads and consumes",
    "hand-written model coq/model/ReadDamage.v (on top of model/Batch.v, model/Chunk.v, model/FsStream.v): now the "
    "SPECIFICATION side of the instantiation lemmas; still compared with the real code by the differential runs",
    "torch.load / torch.save are external: Section variables load/save with the assumed law below (validated every run)",
    "harness/props/C04.py generators, oracle, canonicalisation and lib/tocoq.py literal printer",
]
ASSUMPTIONS = [
    "torch.load(torch.save(o)) returns o, and torch.load raises on EVERY strict prefix of a torch.save archive "
    "(validated at every truncation length of sample archives on every run)",
    "damage = the object is deleted or loses a suffix; bit flips inside a retained prefix are outside the property",
    "well-formedness of the committed manifest (C05): a buffer-protocol tensor entry with byte_range [lo,hi) has "
    "hi-lo = esize*numel and hi <= object size; without byte_range the object size is esize*numel; torch_save/object "
    "entries have no byte_range; two entries never name the same location with the same non-empty range",
    "restore reads every entry of the rank's manifest for every key of app_state (Snapshot._load_stateful does not filter "
    "the manifest by key): every payload file of the rank is 'needed' by restore",
    "an asyncio task's exception is re-raised by task.result() and by awaiting asyncio.gather(*tasks), and is NOT raised by "
    "asyncio.wait(tasks) alone (the semantics the translator gives to these three forms)",
    "serializers other than torch_save / buffer_protocol (quantized tensors) are outside the model: the translator maps "
    "them to the `raise` branch of deserialize_tensor",
]

IMPORTS = "From TS Require Import model.Batch model.ReadDamage.\n"
GIMPORTS = "From TS Require Import model.Batch model.ReadDamage model.ReadPathPrims model.ReadPathGenObs.\n"
PLAN_TYPE = "option Z * list rd_entry"
CALL_TYPE = "list (Z * Z * bool) * option Z * list rd_entry * Z * rd_damage * bool"
LEG_TYPE = "list (Z * Z * bool) * list rd_leaf * Z * rd_damage * bool * bool * list Z"

ESZ = {"float32": 4, "float64": 8, "float16": 2, "bfloat16": 2, "int64": 8, "int32": 4, "int16": 2, "int8": 1,
       "uint8": 1, "bool": 1, "complex64": 8}
SENT = 0xA5
META = ".snapshot_metadata"


# --------------------------------------------------------------------------- small utilities
class C04Timeout(BaseException):
    pass


def guarded(fn, secs: float = 60.0):
    """Run fn under a watchdog: ('ok', value) | ('err', exception) | ('hang', None)."""
    def on_alarm(sig, frm):
        raise C04Timeout()
    old = signal.signal(signal.SIGALRM, on_alarm)
    signal.setitimer(signal.ITIMER_REAL, secs)
    try:
        return "ok", fn()
    except C04Timeout:
        return "hang", None
    except Exception as e:  # noqa
        return "err", e
    finally:
        signal.setitimer(signal.ITIMER_REAL, 0)
        signal.signal(signal.SIGALRM, old)


@contextlib.contextmanager
def env(**kv):
    old = {k: os.environ.get(k) for k in kv}
    for k, v in kv.items():
        if v is None:
            os.environ.pop(k, None)
        else:
            os.environ[k] = str(v)
    try:
        yield
    finally:
        for k, v in old.items():
            if v is None:
                os.environ.pop(k, None)
            else:
                os.environ[k] = v


@contextlib.contextmanager
def quiet():
    prev = logging.root.manager.disable
    logging.disable(logging.CRITICAL)
    try:
        yield
    finally:
        logging.disable(prev)


def read_env(batching: bool):
    return env(TORCHSNAPSHOT_DISABLE_BATCHING=None if batching else "1",
               TORCHSNAPSHOT_PER_RANK_MEMORY_BUDGET_BYTES=str(1 << 30))


def prod(shape):
    n = 1
    for d in shape:
        n *= d
    return n


# --------------------------------------------------------------------------- state
def build_items(spec):
    """Deterministic description of the application state: {group: [(name, item)]};
    item = ('t', dtype, shape, raw bytes) | ('o', python object) | ('p', primitive) | ('l', [items])."""
    r = random.Random(spec["seed"])

    def T(dt, shape):
        n = prod(shape) * ESZ[dt]
        while True:
            if dt == "bool":
                raw = bytes(r.randrange(2) for _ in range(n))
                if n and all(raw):
                    continue
            else:
                raw = bytes(r.randrange(1, 256) for _ in range(n))
                if n and all(b == SENT for b in raw):
                    continue
            return ("t", dt, list(shape), raw)

    objs = [{1, 2, 3}, (("k", (1, 2)), ("q", (3, "x"))), (1, "x", 2.5), {"a", "b"}]
    m = [("a", T("float32", [2, 3])), ("b", T("int64", [r.randint(1, 3)])), ("z", T("float32", [0, 3])),
         ("big", T("float32", [r.randint(8, 12), 3])), ("c", T("complex64", [r.randint(1, 3)])),
         ("h", T("bfloat16", [r.choice([1, 3, 5])])), ("u", T("uint8", [])), ("o", ("o", r.choice(objs))),
         ("p", ("p", r.randint(1, 99))), ("s", ("p", "str%d" % r.randint(0, 9)))]
    n = [("x", T("int16", [4])), ("lst", ("l", [T("float64", [2]), ("p", 3.5)])), ("e", T("int32", [0])),
         ("t", T("bool", [5])), ("big2", T("int64", [r.randint(6, 8), 2])), ("o2", ("o", (("w", (1.5, 2.5)), ("n", 3)))),
         ("f", T("float16", [r.randint(1, 9)])), ("cc", T("complex64", [r.randint(6, 8)]))]
    if spec.get("small"):
        m = [x for x in m if x[0] in spec["small"]]
        n = [x for x in n if x[0] in spec["small"]]
    if spec.get("groups", 2) == 1:
        n = []
    r.shuffle(m)
    r.shuffle(n)
    out = {}
    if m:
        out["m"] = m
    if n:
        out["n"] = n
    return out


def mk_tensor(dt, shape, raw):
    import torch
    d = getattr(torch, dt)
    if len(raw) == 0:
        return torch.zeros(shape, dtype=d)
    return torch.frombuffer(bytearray(raw), dtype=d).reshape(shape).clone()


def sentinel_raw(dt, shape):
    n = prod(shape) * ESZ[dt]
    return bytes([1]) * n if dt == "bool" else bytes([SENT]) * n


def materialise(item, sentinel: bool):
    k = item[0]
    if k == "t":
        _, dt, shape, raw = item
        return mk_tensor(dt, shape, sentinel_raw(dt, shape) if sentinel else raw)
    if k == "o":
        return None if sentinel else item[1]
    if k == "p":
        v = item[1]
        if not sentinel:
            return v
        return "" if isinstance(v, str) else (-1.0 if isinstance(v, float) else -1)
    return [materialise(x, sentinel) for x in item[1]]


def app_state(items, sentinel: bool):
    from torchsnapshot import StateDict
    return {g: StateDict(**{name: materialise(it, sentinel) for name, it in lst}) for g, lst in items.items()}


def flat_items(items):
    """logical path (without rank) -> item, for leaves."""
    out = {}
    for g, lst in items.items():
        for name, it in lst:
            if it[0] == "l":
                for i, sub in enumerate(it[1]):
                    out[f"{g}/{name}/{i}"] = sub
            else:
                out[f"{g}/{name}"] = it
    return out


def tbytes(t):
    return (str(t.dtype), tuple(t.shape), t.detach().contiguous().reshape(-1).view(__import__("torch").uint8).numpy().tobytes())


def same_value(item, got) -> bool:
    import torch
    if item[0] == "t":
        if not isinstance(got, torch.Tensor):
            return False
        _, dt, shape, raw = item
        return tbytes(got) == ("torch." + dt, tuple(shape), raw)
    if isinstance(got, torch.Tensor):
        return False
    return type(got) is type(item[1]) and got == item[1]


def lookup_state(state, path):
    g, name, *rest = path.split("/")
    v = state[g][name]
    for i in rest:
        v = v[int(i)]
    return v


# --------------------------------------------------------------------------- a committed snapshot
class Snap:
    def __init__(self, ctx: Ctx, spec):
        from torchsnapshot import Snapshot
        self.spec = spec
        self.items = build_items(spec)
        self.flat = flat_items(self.items)
        self.root = ctx.scratch("snap")
        self.dir = os.path.join(self.root, "s")
        with quiet(), env(TORCHSNAPSHOT_MAX_CHUNK_SIZE_BYTES_OVERRIDE=spec["chunk"],
                          TORCHSNAPSHOT_SLAB_SIZE_THRESHOLD_BYTES_OVERRIDE=spec["slab"],
                          TORCHSNAPSHOT_DISABLE_BATCHING=None if spec["take_batching"] else "1",
                          TORCHSNAPSHOT_PER_RANK_MEMORY_BUDGET_BYTES=str(1 << 30)):
            snap = Snapshot.take(self.dir, app_state(self.items, sentinel=False))
        man = snap.get_manifest()
        self.entries = {}       # logical path (rank stripped) -> entry, leaves only, manifest order
        for k, e in man.items():
            if type(e).__name__ in ("DictEntry", "ListEntry", "OrderedDictEntry"):
                continue
            assert k.startswith("0/"), k
            self.entries[k[2:]] = e
        self.files = {}
        for r, _, fs in os.walk(self.dir):
            for f in fs:
                p = os.path.join(r, f)
                rel = os.path.relpath(p, self.dir)
                if rel != META:
                    self.files[rel] = os.path.getsize(p)
        self.fid = {rel: i for i, rel in enumerate(sorted(self.files))}
        self.reads = {p: entry_reads(e) for p, e in self.entries.items()}
        self.archives = {loc for p, e in self.entries.items() for loc in archive_locs(e)}

    def file_role(self, rel):
        """stable name of a payload file: the first logical path reading from it (uuid slab names differ per take)."""
        for p in sorted(self.reads):
            if any(loc == rel for loc, _ in self.reads[p]):
                return p
        return None

    def file_by_role(self, role):
        for rel in sorted(self.files):
            if self.file_role(rel) == role:
                return rel
        return None

    def layout_class(self, rel):
        rs = [(p, rg) for p in self.reads for loc, rg in self.reads[p] if loc == rel]
        if rel in self.archives:
            return "archive"
        if any(rg is not None for _, rg in rs):
            return f"slab{len(rs)}"
        return "plain"

    def hypothesis_violations(self):
        """The well-formedness the theorems assume of a committed manifest, checked on this real snapshot."""
        bad = []
        seen = {}
        for p, e in self.entries.items():
            for te in tensor_entries(e):
                size = self.files.get(te.location)
                if size is None:
                    bad.append(f"{p}: location {te.location} is not a payload file")
                    continue
                if te.serializer != "buffer_protocol":
                    if te.byte_range is not None:
                        bad.append(f"{p}: torch_save entry with byte_range")
                    continue
                need = ESZ[te.dtype.replace("torch.", "")] * prod(te.shape)
                if te.byte_range is None:
                    if size != need:
                        bad.append(f"{p}: file size {size} != esize*numel {need}")
                else:
                    lo, hi = te.byte_range
                    if not (0 <= lo and hi - lo == need and hi <= size):
                        bad.append(f"{p}: byte_range {te.byte_range} inconsistent with esize*numel {need} / size {size}")
                    if lo < hi:
                        k = (te.location, lo, hi)
                        if k in seen:
                            bad.append(f"{p} and {seen[k]} share the non-empty range {k}")
                        seen[k] = p
        return bad

    def close(self):
        shutil.rmtree(self.root, ignore_errors=True)


def entry_reads(e):
    n = type(e).__name__
    def one(te):
        return (te.location, tuple(te.byte_range) if te.byte_range is not None else None)
    if n == "TensorEntry":
        return [one(e)]
    if n == "ChunkedTensorEntry":
        return [one(c.tensor) for c in e.chunks]
    if n == "ShardedTensorEntry":
        return [one(s.tensor) for s in e.shards]
    if n == "ObjectEntry":
        return [(e.location, None)]
    return []


def tensor_entries(e):
    n = type(e).__name__
    if n == "TensorEntry":
        return [e]
    if n == "ChunkedTensorEntry":
        return [c.tensor for c in e.chunks]
    if n == "ShardedTensorEntry":
        return [s.tensor for s in e.shards]
    return []


def archive_locs(e):
    n = type(e).__name__
    if n == "ObjectEntry":
        return [e.location]
    if n == "TensorEntry":
        return [e.location] if e.serializer != "buffer_protocol" else []
    if n == "ChunkedTensorEntry":
        return [c.tensor.location for c in e.chunks if c.tensor.serializer != "buffer_protocol"]
    if n == "ShardedTensorEntry":
        return [s.tensor.location for s in e.shards if s.tensor.serializer != "buffer_protocol"]
    return []


def entry_kind(e):
    n = type(e).__name__
    if n == "TensorEntry":
        return "plain" if e.serializer == "buffer_protocol" else "torch_save"
    return {"ChunkedTensorEntry": "chunked", "ShardedTensorEntry": "sharded", "ObjectEntry": "object",
            "PrimitiveEntry": "primitive"}.get(n, n)


def is_damaged(reads, rel, dmg, size) -> bool:
    """The property's notion: some needed range of the call is not fully inside the damaged object."""
    for loc, rg in reads:
        if loc != rel:
            continue
        if dmg[0] == "del":
            return True
        t = dmg[1]
        if rg is None:
            if t < size:
                return True
        elif rg[0] < rg[1] and t < rg[1]:
            return True
    return False


def make_copy(ctx: Ctx, src: str, rel: str | None, dmg):
    """Overlay copy of a snapshot directory: hard links, except the damaged file."""
    dst = ctx.scratch("dmg")
    for r, ds, fs in os.walk(src):
        rr = os.path.relpath(r, src)
        os.makedirs(os.path.join(dst, rr), exist_ok=True)
        for f in fs:
            p = os.path.join(r, f)
            q = os.path.join(dst, rr, f)
            if rel is not None and os.path.normpath(os.path.join(rr, f)) == rel:
                if dmg[0] == "del":
                    continue
                with open(p, "rb") as fh:
                    data = fh.read()
                with open(q, "wb") as fh:
                    fh.write(data[:dmg[1]])
            else:
                try:
                    os.link(p, q)
                except OSError:
                    shutil.copyfile(p, q)
    return dst


def damage_points(S: Snap, rel: str, thorough_all: bool):
    n = S.files[rel]
    pts = {0, 1, n // 2, n - 1}
    for p in S.reads:
        for loc, rg in S.reads[p]:
            if loc == rel and rg is not None:
                for b in rg:
                    pts |= {b - 1, b, b + 1}
    if thorough_all and n <= 4096:
        pts |= set(range(n))
    out = [("del",)] + [("trunc", t) for t in sorted(pts) if 0 <= t < n]
    return out


# --------------------------------------------------------------------------- model terms
def tentry_term(te, fid, flat=True):
    rg = Some((te.byte_range[0], te.byte_range[1])) if te.byte_range is not None else None
    bp = te.serializer == "buffer_protocol"
    return Ctor("mkTentry", fid[te.location], rg, bp, ESZ.get(te.dtype.replace("torch.", ""), 1), [int(x) for x in te.shape], flat)


def entry_term(e, fid):
    n = type(e).__name__
    if n == "TensorEntry":
        return Ctor("RdETensor", tentry_term(e, fid))
    if n == "ChunkedTensorEntry":
        return Ctor("RdEChunked", [tentry_term(c.tensor, fid) for c in e.chunks])
    if n == "ShardedTensorEntry":
        return Ctor("RdESharded", [tentry_term(s.tensor, fid) for s in e.shards])
    if n == "ObjectEntry":
        return Ctor("RdEObject", fid[e.location])
    if n == "PrimitiveEntry":
        return Raw("RdEPrimitive")
    raise TypeError(n)


def dmg_term(dmg):
    return Raw("RdDeleted") if dmg[0] == "del" else Ctor("RdTruncated", dmg[1])


def call_case(files, archives, fid, entries, limit, rel, dmg, batching):
    used = sorted({loc for e in entries for loc, _ in entry_reads(e)} | ({rel} if rel is not None else set()))
    fl = [(fid[u], files[u], u in archives) for u in used]
    return term((fl, None if limit is None else Some(limit), [entry_term(e, fid) for e in entries],
                 fid[rel] if rel is not None else -1, dmg_term(dmg), batching))


# --------------------------------------------------------------------------- running the real calls
_CALLS = {"n": 0, "last_in_loop": False}


def _in_loop(flag):
    """every third real call is made by a caller that is itself inside a running asyncio event loop (notebook kernel,
    async training harness): the library then runs its I/O on the patched, re-entrant loop of asyncio_utils.py"""
    _CALLS["n"] += 1
    v = (_CALLS["n"] % 3 == 0) if flag is None else bool(flag)
    _CALLS["last_in_loop"] = v
    return v


def _maybe_in_loop(fn, in_loop):
    if not in_loop:
        return fn()
    import asyncio

    async def main():
        return fn()          # a synchronous torchsnapshot call made from inside a running loop
    return asyncio.run(main())


def run_restore(S: Snap, snapdir: str, batching: bool, in_loop=None):
    """-> (verdict 'ok'|'err'|'hang', wrong paths, exception)"""
    from torchsnapshot import Snapshot
    st = app_state(S.items, sentinel=True)
    il = _in_loop(in_loop)

    def call():
        with quiet(), read_env(batching):
            _maybe_in_loop(lambda: Snapshot(snapdir).restore(st), il)
    kind, exc = guarded(call)
    wrong = []
    if kind == "ok":
        for p, it in S.flat.items():
            if not same_value(it, lookup_state(st, p)):
                wrong.append(p)
    return kind, wrong, exc


def run_read_object(S: Snap, snapdir: str, path: str, batching: bool, limit, inplace: bool, in_loop=None):
    from torchsnapshot import Snapshot
    it = S.flat[path]
    out = materialise(it, sentinel=True) if (inplace and it[0] == "t") else None
    il = _in_loop(in_loop)

    def call():
        with quiet(), read_env(batching):
            return _maybe_in_loop(lambda: Snapshot(snapdir).read_object("0/" + path, obj_out=out, memory_budget_bytes=limit), il)
    kind, got = guarded(call)
    wrong = []
    if kind == "ok":
        if not same_value(it, got):
            wrong.append(path)
        elif out is not None and not same_value(it, out):
            wrong.append(path + " (obj_out)")
    return kind, wrong, got if kind == "err" else None


def judge(res: Result, S: Snap, api, path, rel, dmg, batching, limit, inplace, kind, wrong, damaged, exc=None):
    """Direct oracle on one real call."""
    rep = {"kind": "call", "spec": S.spec, "api": api, "path": path, "file_role": S.file_role(rel) if rel else None,
           "damage": list(dmg), "batching": batching, "limit": limit, "inplace": inplace, "in_loop": _CALLS["last_in_loop"]}
    ek = entry_kind(S.entries[path]) if path else "all"
    tag = f"{api}:{ek}:batching={'on' if batching else 'off'}:{dmg[0]}"
    if kind == "hang":
        res.failures.append(Failure(f"C04:hang:{tag}", f"{api}({path}) neither returned nor raised within the watchdog "
                                    f"(file {rel}, damage {dmg})", rep))
    elif kind == "ok" and wrong:
        wk = sorted({entry_kind(S.entries[w.split(' ')[0]]) for w in wrong})
        res.failures.append(Failure(
            f"C04:silent-wrong-data:{api}:{'+'.join(wk)}:batching={'on' if batching else 'off'}:{dmg[0]}"
            + ("" if damaged else ":undamaged"),
            f"{api}({path or 'app_state'}) returned normally with contents different from the saved values at {wrong} "
            f"(file {rel} [{S.layout_class(rel) if rel else '-'}] damage {dmg}, batching {'on' if batching else 'off'}, "
            f"limit {limit})", rep))
    elif kind == "err" and not damaged:
        res.failures.append(Failure(
            f"C04:undamaged-call-raised:{tag}",
            f"{api}({path or 'app_state'}) raised {type(exc).__name__}: {str(exc)[:120]} although no needed range is damaged "
            f"(file {rel} damage {dmg})", rep))


def verdict_int(kind):
    return {"ok": 1, "err": 0, "hang": 3}[kind]


def sweep(ctx: Ctx, res: Result, S: Snap, cases: dict, deadline: float, every_length: bool):
    rng = ctx.rng
    paths = list(S.entries)
    all_entries = [S.entries[p] for p in paths]
    all_reads = [x for p in paths for x in S.reads[p]]
    limits = [None, 8, 20]
    files = sorted(S.files)
    rng.shuffle(files)
    per_file = max(1.0, (deadline - time.time()) / max(1, len(files)))
    for k, rel in enumerate(files):
        size = S.files[rel]
        file_deadline = deadline if every_length else min(deadline, time.time() + 2.5 * per_file)
        touching = [p for p in paths if any(loc == rel for loc, _ in S.reads[p])]
        others = [p for p in paths if p not in touching]
        base = damage_points(S, rel, False)
        pts = damage_points(S, rel, every_length)
        heavy = {("del",), ("trunc", size // 2)} & set(base)
        bnd = [d for d in base if d not in heavy and cut_class(S, rel, d) in ("at-boundary", "boundary-1", "size-1")]
        rest = [d for d in base if d not in heavy and d not in bnd]
        if ctx.thorough:
            restore_pts = set(base)
        else:
            restore_pts = heavy | set(rng.sample(bnd, min(len(bnd), 4))) | set(rng.sample(rest, min(len(rest), 1)))
        # base points first (deleted, boundaries), the every-length points afterwards
        order = base + [d for d in pts if d not in set(base)]
        with safe_gc():
            for dmg in order:
                if time.time() > file_deadline:
                    res.notes.append(f"time budget: {S.layout_class(rel)} file cut short after {order.index(dmg)}/{len(order)} damages")
                    break
                full = dmg in heavy
                copy = make_copy(ctx, S.dir, rel, dmg)
                try:
                    for batching in (True, False):
                        # ---- restore: needs every entry of the rank's manifest
                        if dmg in restore_pts:
                            damaged = is_damaged(all_reads, rel, dmg, size)
                            kind, wrong, exc = run_restore(S, copy, batching)
                            judge(res, S, "restore", None, rel, dmg, batching, None, False, kind, wrong, damaged, exc)
                            key = call_case(S.files, S.archives, S.fid, all_entries, None, rel, dmg, batching)
                            note_case(res, cases, key, verdict_int(kind),
                                      {"api": "restore", "spec": S.spec, "file_role": S.file_role(rel), "damage": list(dmg),
                                       "batching": batching})
                            res.case({"api": "restore", "layout": S.layout_class(rel), "dmg": dmg[0],
                                      "cut": cut_class(S, rel, dmg), "batching": batching,
                                      "take_batching": S.spec["take_batching"], "chunk": S.spec["chunk"],
                                      "slab": S.spec["slab"]}, nontrivial=True)
                            res.count("call.api", "restore")
                            res.count("call.verdict", kind)
                            res.count("damage.kind", dmg[0] + ":" + S.layout_class(rel) + (":needed" if damaged else ":harmless"))
                        # ---- read_object
                        sel = list(touching)
                        if full:
                            sel += rng.sample(others, min(2, len(others)))
                        for p in sel:
                            e = S.entries[p]
                            lims = limits if (full and entry_kind(e) in ("plain", "chunked")) else [rng.choice(limits)]
                            for limit in lims:
                                inplace = rng.random() < 0.5
                                damaged = is_damaged(S.reads[p], rel, dmg, size)
                                kind, wrong, exc = run_read_object(S, copy, p, batching, limit, inplace)
                                judge(res, S, "read_object", p, rel, dmg, batching, limit, inplace, kind, wrong, damaged, exc)
                                if p in touching or rng.random() < 0.2:
                                    # Snapshot.read_object batches only when no memory budget is given
                                    key = call_case(S.files, S.archives, S.fid, [e], limit, rel, dmg, batching and limit is None)
                                    note_case(res, cases, key, verdict_int(kind),
                                              {"api": "read_object", "path": p, "spec": S.spec, "file_role": S.file_role(rel),
                                               "damage": list(dmg), "batching": batching, "limit": limit})
                                res.case({"api": "read_object", "kind": entry_kind(e), "layout": S.layout_class(rel),
                                          "dmg": dmg[0], "cut": cut_class(S, rel, dmg), "batching": batching,
                                          "limit": limit, "inplace": inplace, "touch": p in touching},
                                         nontrivial=p in touching)
                                res.count("call.api", "read_object:" + entry_kind(e))
                                res.count("call.verdict", kind + (":needed-damage" if damaged else ""))
                                if p in touching and not damaged:
                                    res.count("read_object.harmless-damage", cut_class(S, rel, dmg))
                                res.count("read_object.limit", limit)
                finally:
                    shutil.rmtree(copy, ignore_errors=True)


def cut_class(S: Snap, rel, dmg):
    if dmg[0] == "del":
        return "deleted"
    t = dmg[1]
    n = S.files[rel]
    bs = sorted({b for p in S.reads for loc, rg in S.reads[p] if loc == rel and rg is not None for b in rg})
    if t in bs:
        return "at-boundary"
    if t + 1 in bs:
        return "boundary-1"
    if t - 1 in bs:
        return "boundary+1"
    if t == 0:
        return "0"
    if t == n - 1:
        return "size-1"
    return "inside"


def note_case(res: Result, cases: dict, key: str, verdict: int, meta):
    old = cases.get(key)
    if old is not None and old[0] != verdict:
        res.mismatches.append(Mismatch("call:Snapshot.restore/read_object~rd_restore", meta,
                                       f"real verdict differs between two runs of the same case: {old[0]} vs {verdict}", None))
    cases[key] = (verdict, meta)


# --------------------------------------------------------------------------- hand model and generated model
GEN_OK = {"ok": True, "detail": ""}


def ensure_models(res: Result):
    """The executable models must exist even when a proof of this run no longer checks (the driver's build of
    props/C04.vo stops at the first broken file): build the two model files on their own."""
    ok, out, _ = coqrun.make(["model/ReadDamage.vo"], timeout=600, jobs=4)
    if not ok:
        res.mismatches.append(Mismatch(CORRESPONDENCES[0], "model/ReadDamage.v does not build", None, coqrun.error_excerpt(out)))
    ok, out, _ = coqrun.make(["model/ReadPathGenObs.vo"], timeout=600, jobs=4)
    GEN_OK["ok"], GEN_OK["detail"] = ok, "" if ok else coqrun.error_excerpt(out, 12)
    res.obligations.append(Obligation(GEN_MODEL, ok, GEN_OK["detail"]))


def run_both(res: Result, tag: str, hand, gen, coq, in_type, describe):
    """Evaluate the same (input, real observation) cases against the hand-written model function `hand[1]` (reported
    under correspondence hand[0]) and against the generated model function `gen[1]` (reported under gen[0]).
    describe(i) -> (case description, real observation) for a disagreeing case."""
    todo = [(tag, IMPORTS, hand)] if hand else []
    if gen and GEN_OK["ok"]:
        todo.append((tag + "_g", GIMPORTS, gen))
    elif gen:
        res.mismatches.append(Mismatch(gen[0], "generated model did not build", None, GEN_OK["detail"]))
    for tg, imports, (where, fn) in todo:
        bad, errs = coqrun.run_cases(tg, imports, fn, coq, in_type=in_type)
        for e in errs:
            res.mismatches.append(Mismatch(where, "coqc error", None, e))
        for i in bad:
            case, impl = describe(i)
            res.mismatches.append(Mismatch(where, case, impl, None))
        res.traces_validated += len(coq)


# --------------------------------------------------------------------------- consumers
def check_consumer(ctx: Ctx, res: Result):
    import torch
    from torchsnapshot.serialization import tensor_from_memoryview
    samples = [("float32", [2, 3]), ("float32", []), ("float32", [0, 3]), ("float32", [3, 0]), ("int64", [2]),
               ("bfloat16", [3]), ("bool", [4]), ("uint8", []), ("uint8", [0]), ("int16", [2, 2]), ("float64", [1]),
               ("float16", [5]), ("int32", [0])]
    for _ in range(ctx.n(6, 40)):
        dt = ctx.rng.choice(["float32", "int64", "bfloat16", "uint8", "int16", "float64", "bool"])
        nd = ctx.rng.randint(0, 3)
        samples.append((dt, [ctx.rng.choice([0, 1, 2, 3]) for _ in range(nd)]))
    coq, meta = [], []
    for dt, shape in samples:
        e = ESZ[dt]
        full = e * prod(shape)
        for n in range(0, full + 2 * e + 2):
            try:
                t = tensor_from_memoryview(memoryview(bytes(n)), dtype=getattr(torch, dt), shape=shape)
                ok = 1
                if n < full:        # fewer bytes than the tensor has: partial contents accepted
                    res.failures.append(Failure("C04:tensor_from_memoryview-accepts-short-buffer",
                                                f"tensor_from_memoryview accepted {n} bytes for {dt}{shape} (needs {full})",
                                                {"kind": "consumer", "dtype": dt, "shape": shape, "n": n}))
            except Exception:  # noqa
                ok = 0
            coq.append((term((e, shape, n)), val(ok)))
            meta.append((dt, shape, n, ok))
            res.count("consumer.len_class", "exact" if n == full else ("short" if n < full else "long"))
    res.evaluations += len(coq)
    run_both(res, "C04_fb", (CORRESPONDENCES[0], "obs_rd_frombuffer"), (CORRESPONDENCES[5], "obs_g_frombuffer"), coq,
             "Z * list Z * Z", lambda i: ({"dtype": meta[i][0], "shape": meta[i][1], "n": meta[i][2]}, meta[i][3]))


def check_load_assumption(ctx: Ctx, res: Result):
    """torch.load accepts the full archive (returns the saved object) and raises on EVERY strict prefix."""
    import io
    import torch
    objs = [{1, 2, 3}, {"k": [1, 2], "q": (3, "x")}, "hello", (1, "x", 2.5), {"w": [1.5, 2.5], "n": 3}, [1, "a", None]]
    tens = [mk_tensor("complex64", [3], bytes(range(1, 25))), mk_tensor("complex64", [1], bytes(range(1, 9)))]
    if ctx.thorough:
        objs += [list(range(50)), {"nested": {"a": {"b": [1, 2, {"c": None}]}}}, b"bytes" * 10, 12345678901234567890]
        tens += [mk_tensor("complex64", [4, 2], bytes(range(1, 65)))]
    bad = []
    total = 0
    for o in objs + tens:
        b = io.BytesIO()
        torch.save(o, b)
        a = b.getvalue()
        back = torch.load(io.BytesIO(a))
        same = (tbytes(back) == tbytes(o)) if isinstance(o, torch.Tensor) else (back == o)
        if not same:
            bad.append(("roundtrip", repr(o)[:60]))
        for t in range(len(a)):
            total += 1
            try:
                torch.load(io.BytesIO(a[:t]))
                bad.append((t, len(a), repr(o)[:60]))
            except Exception:  # noqa
                pass
    res.evaluations += total
    res.count("assumption.torch_load_prefixes", total)
    res.obligations.append(Obligation("assumption:torch.load-rejects-every-strict-prefix", not bad,
                                      "" if not bad else f"torch.load accepted strict prefixes / lost the object: {bad[:5]}"))


# --------------------------------------------------------------------------- planning: entries -> read requests
def check_plan(ctx: Ctx, res: Result, snaps):
    from torchsnapshot.io_preparer import prepare_read
    coq, meta = [], []
    seen = set()
    dup = []
    hyp = []
    for S in snaps:
        hyp += S.hypothesis_violations()
        with quiet():
            allr = [rr for e in S.entries.values() for rr in prepare_read(entry=e, obj_out=None)[0]]
        ne = [(rr.path, tuple(rr.byte_range)) for rr in allr if rr.byte_range is not None and rr.byte_range[0] < rr.byte_range[1]]
        if len(ne) != len(set(ne)):
            dup.append(("restore", None))
        for p, e in S.entries.items():
            for limit in [None, 1, 7, 8, 20, 24, 1000]:
                try:
                    with quiet():
                        rrs, _ = prepare_read(entry=e, obj_out=None, buffer_size_limit_bytes=limit)
                except Exception as ex:  # noqa
                    res.notes.append(f"prepare_read raised {type(ex).__name__} for {entry_kind(e)} limit {limit}")
                    continue
                obs = []
                for rr in rrs:
                    c = rr.buffer_consumer
                    te = getattr(c, "entry", None)
                    if te is not None and te.serializer == "buffer_protocol":
                        k = [ESZ[te.dtype.replace("torch.", "")], [int(x) for x in te.shape]]
                    else:
                        k = []
                    obs.append([S.fid[rr.path], list(rr.byte_range) if rr.byte_range is not None else [], k])
                ne = [(rr.path, tuple(rr.byte_range)) for rr in rrs if rr.byte_range is not None and rr.byte_range[0] < rr.byte_range[1]]
                if len(ne) != len(set(ne)):
                    dup.append((entry_kind(e), limit))
                inp = term((None if limit is None else Some(limit), [entry_term(e, S.fid)]))
                if inp in seen:
                    continue
                seen.add(inp)
                coq.append((inp, val([obs])))
                meta.append((entry_kind(e), limit, obs))
                res.count("plan.kind", entry_kind(e))
                res.count("plan.n_reqs", len(rrs))
    res.obligations.append(Obligation("hypothesis:real-plans-have-distinct-non-empty-ranges", not dup, str(dup[:5])))
    res.obligations.append(Obligation("hypothesis:committed-manifest-ranges-consistent-with-payload", not hyp, str(hyp[:5])))
    res.evaluations += len(coq)
    run_both(res, "C04_plan", (CORRESPONDENCES[1], "obs_rd_read_plan"), (CORRESPONDENCES[6], "obs_g_read_plan"), coq, PLAN_TYPE,
             lambda i: ({"kind": meta[i][0], "limit": meta[i][1]}, meta[i][2]))
    check_batched_plan(ctx, res, snaps)


def check_batched_plan(ctx: Ctx, res: Result, snaps):
    """prepare_read of real entries followed by the real batch_read_requests, against the generated planner followed by the
    generated batch_read_requests: which requests are merged, the merged extent, the sub-range of every consumer."""
    from torchsnapshot.batcher import BatchedBufferConsumer, batch_read_requests
    from torchsnapshot.io_preparer import prepare_read
    coq, meta, seen = [], [], set()
    for S in snaps:
        groups = [(None, list(S.entries.values()))]
        for p, e in S.entries.items():
            if entry_kind(e) in ("plain", "chunked"):
                groups += [(8, [e]), (20, [e])]
        for limit, es in groups:
            try:
                with quiet():
                    rrs = [rr for e in es for rr in prepare_read(entry=e, obj_out=None, buffer_size_limit_bytes=limit)[0]]
                    idx = {id(rr.buffer_consumer): i for i, rr in enumerate(rrs)}
                    batched = batch_read_requests(read_reqs=list(rrs))
            except Exception as ex:  # noqa
                res.notes.append(f"batch_read_requests/prepare_read raised {type(ex).__name__} (limit {limit})")
                continue
            obs = []
            for br in batched:
                c = br.buffer_consumer
                if isinstance(c, BatchedBufferConsumer):
                    subs = [[idx[id(sc)], int(r[0]), int(r[1])] for r, sc in c.byte_range_to_buffer_consumer.items()]
                else:
                    subs = [[idx[id(c)]]]
                obs.append([S.fid[br.path], list(br.byte_range) if br.byte_range is not None else [], subs])
            inp = term((None if limit is None else Some(limit), [entry_term(e, S.fid) for e in es]))
            if inp in seen:
                continue
            seen.add(inp)
            coq.append((inp, val([obs])))
            meta.append(({"limit": limit, "n_entries": len(es), "n_reqs": len(rrs)}, obs))
            res.count("batched_plan.merged", sum(1 for o in obs if len(o[2][0]) == 3))
    res.evaluations += len(coq)
    run_both(res, "C04_bplan", None, (CORRESPONDENCES[7], "obs_g_batched_plan"), coq, PLAN_TYPE, lambda i: meta[i])


# --------------------------------------------------------------------------- sharded entries
def sharded_scenario(rng: random.Random):
    """A row-sharded 2-D tensor whose shards live in own files and in slab-like files (byte ranges)."""
    dt = rng.choice(["float32", "int64", "bfloat16", "uint8"])
    cols = rng.randint(1, 3)
    heights = [rng.randint(1, 3) for _ in range(rng.randint(2, 4))]
    rows = sum(heights)
    e = ESZ[dt]
    raw = bytes(rng.randrange(1, 256) for _ in range(rows * cols * e))
    while all(b == SENT for b in raw):
        raw = bytes(rng.randrange(1, 256) for _ in range(rows * cols * e))
    shards = []     # (row offset, height, file name, range or None)
    files = {}
    off = 0
    slab = bytearray()
    for i, h in enumerate(heights):
        data = raw[off * cols * e:(off + h) * cols * e]
        if rng.random() < 0.5:
            files[f"sharded/t_{off}_0"] = bytes(data)
            shards.append((off, h, f"sharded/t_{off}_0", None))
        else:
            if rng.random() < 0.3:
                slab += bytes(rng.randrange(256) for _ in range(rng.randint(1, 5)))      # a foreign member in between
            lo = len(slab)
            slab += data
            shards.append((off, h, "batched/slab0", (lo, len(slab))))
        off += h
    if slab:
        if rng.random() < 0.5:
            slab += bytes(rng.randrange(256) for _ in range(rng.randint(1, 6)))          # trailing foreign member
        files["batched/slab0"] = bytes(slab)
    return {"dtype": dt, "cols": cols, "rows": rows, "raw": list(raw), "shards": [list(s[:3]) + [list(s[3]) if s[3] else None] for s in shards],
            "files": {k: list(v) for k, v in files.items()}}


def sharded_entry(sc):
    from torchsnapshot.manifest import Shard, ShardedTensorEntry, TensorEntry
    shards = []
    for off, h, fname, rg in sc["shards"]:
        shards.append(Shard(offsets=[off, 0], sizes=[h, sc["cols"]],
                            tensor=TensorEntry(location=fname, serializer="buffer_protocol", dtype="torch." + sc["dtype"],
                                               shape=[h, sc["cols"]], replicated=False,
                                               byte_range=list(rg) if rg is not None else None)))
    return ShardedTensorEntry(shards=shards)


def run_sharded(ctx: Ctx, sc, rel, dmg, batching: bool):
    import asyncio
    from torchsnapshot.batcher import batch_read_requests
    from torchsnapshot.io_preparers.sharded_tensor import ShardedTensorIOPreparer
    from torchsnapshot.scheduler import sync_execute_read_reqs
    from torchsnapshot.storage_plugins.fs import FSStoragePlugin
    root = ctx.scratch("shard")
    try:
        for name, data in sc["files"].items():
            if name == rel and dmg[0] == "del":
                continue
            p = os.path.join(root, name)
            os.makedirs(os.path.dirname(p), exist_ok=True)
            with open(p, "wb") as fh:
                fh.write(bytes(data)[:dmg[1]] if (name == rel and dmg[0] == "trunc") else bytes(data))
        entry = sharded_entry(sc)
        out = mk_tensor(sc["dtype"], [sc["rows"], sc["cols"]], sentinel_raw(sc["dtype"], [sc["rows"], sc["cols"]]))

        def call():
            with quiet():
                rrs, fut = ShardedTensorIOPreparer.prepare_read(entry, obj_out=out)
                if batching:
                    rrs = batch_read_requests(read_reqs=rrs)
                loop = asyncio.new_event_loop()
                try:
                    sync_execute_read_reqs(read_reqs=rrs, storage=FSStoragePlugin(root=root), memory_budget_bytes=1 << 30,
                                           rank=0, event_loop=loop)
                finally:
                    loop.close()
                return fut.obj
        kind, got = guarded(call)
        wrong = kind == "ok" and tbytes(out) != ("torch." + sc["dtype"], (sc["rows"], sc["cols"]), bytes(sc["raw"]))
        return kind, wrong, got if kind == "err" else None
    finally:
        shutil.rmtree(root, ignore_errors=True)


def sharded_case_term(sc, rel, dmg, batching):
    names = sorted(sc["files"])
    fid = {n: i for i, n in enumerate(names)}
    fl = [(fid[n], len(sc["files"][n]), False) for n in names]
    tes = [Ctor("mkTentry", fid[fname], Some((rg[0], rg[1])) if rg else None, True, ESZ[sc["dtype"]], [h, sc["cols"]], True)
           for off, h, fname, rg in sc["shards"]]
    return term((fl, None, [Ctor("RdESharded", tes)], fid[rel] if rel is not None else -1, dmg_term(dmg), batching))


def sharded_reads(sc):
    return [(fname, tuple(rg) if rg else None) for off, h, fname, rg in sc["shards"]]


def check_sharded(ctx: Ctx, res: Result):
    coq, meta = [], []
    for _ in range(ctx.n(6, 40)):
        sc = sharded_scenario(ctx.rng)
        reads = sharded_reads(sc)
        for rel in sorted(sc["files"]):
            n = len(sc["files"][rel])
            pts = {0, 1, n // 2, n - 1}
            for loc, rg in reads:
                if loc == rel and rg:
                    pts |= {rg[0] - 1, rg[0], rg[0] + 1, rg[1] - 1, rg[1], rg[1] + 1}
            if ctx.thorough:
                pts |= set(range(n))
            dmgs = [("del",)] + [("trunc", t) for t in sorted(pts) if 0 <= t < n]
            with safe_gc():
                for dmg in dmgs:
                    for batching in (True, False):
                        damaged = is_damaged(reads, rel, dmg, n)
                        kind, wrong, exc = run_sharded(ctx, sc, rel, dmg, batching)
                        rep = {"kind": "sharded", "scenario": sc, "file": rel, "damage": list(dmg), "batching": batching}
                        tag = f"sharded-read:batching={'on' if batching else 'off'}:{dmg[0]}"
                        if kind == "hang":
                            res.failures.append(Failure(f"C04:hang:{tag}", "sharded read neither returned nor raised", rep))
                        elif kind == "ok" and wrong:
                            res.failures.append(Failure(f"C04:silent-wrong-data:{tag}" + ("" if damaged else ":undamaged"),
                                                        f"sharded read returned normally with wrong/stale contents (file {rel}, "
                                                        f"damage {dmg}, batching {batching})", rep))
                        elif kind == "err" and not damaged:
                            res.failures.append(Failure(f"C04:undamaged-call-raised:{tag}",
                                                        f"sharded read raised {type(exc).__name__} although no needed range "
                                                        f"is damaged (file {rel}, damage {dmg})", rep))
                        coq.append((sharded_case_term(sc, rel, dmg, batching), val(verdict_int(kind))))
                        meta.append(rep)
                        res.case({"api": "sharded", "dtype": sc["dtype"], "n_shards": len(sc["shards"]),
                                  "ranged": sum(1 for s in sc["shards"] if s[3]), "dmg": dmg[0], "batching": batching,
                                  "damaged": damaged}, nontrivial=damaged or dmg[0] == "trunc")
                        res.count("sharded.verdict", kind)
    run_both(res, "C04_sh", (CORRESPONDENCES[3], "obs_rd_call"), (CORRESPONDENCES[9], "obs_g_call"), coq, CALL_TYPE,
             lambda i: (dict(meta[i]), coq[i][1]))


# --------------------------------------------------------------------------- the pre-fix BatchedBufferConsumer
@contextlib.contextmanager
def legacy_batched_consumer():
    """BatchedBufferConsumer.consume_buffer as it was before the fix (results of the sub-consumer tasks never
    retrieved), patched in for the duration of the block - harness-local, /repo is not touched."""
    import asyncio
    from torchsnapshot import batcher

    async def consume_buffer(self, buf, executor=None):
        tasks = [asyncio.create_task(c.consume_buffer(buf[r[0]:r[1]], executor=executor))
                 for r, c in self.byte_range_to_buffer_consumer.items()]
        await asyncio.wait(tasks)
    old = batcher.BatchedBufferConsumer.consume_buffer
    batcher.BatchedBufferConsumer.consume_buffer = consume_buffer
    try:
        yield
    finally:
        batcher.BatchedBufferConsumer.consume_buffer = old


def check_legacy(ctx: Ctx, res: Result):
    """The refuted witness on the pre-fix consumer: a slab with several members truncated inside its last member -
    restore returns normally and the member's target keeps its stale (sentinel) contents; the model's legacy variant
    says exactly that, and the oracle of this harness flags it."""
    spec = {"seed": 4242, "chunk": 1000, "slab": 4096, "take_batching": True, "small": ["a", "b", "x"]}
    S = Snap(ctx, spec)
    try:
        slabs = [rel for rel in S.files if S.layout_class(rel).startswith("slab")]
        if len(slabs) != 1:
            res.mismatches.append(Mismatch(CORRESPONDENCES[4], "expected exactly one slab", sorted(S.files), None))
            return
        rel = slabs[0]
        paths = list(S.entries)
        leaves, watch = [], []
        for i, p in enumerate(paths):
            e = S.entries[p]
            leaves.append(Ctor("mkLeaf", S.fid[e.location], Some((e.byte_range[0], e.byte_range[1])),
                               Ctor("RdTensor", ESZ[e.dtype.replace("torch.", "")], [int(x) for x in e.shape])))
            watch.append(i)
        coq, meta = [], []
        for t in sorted({S.files[rel] - 1, S.files[rel] // 2, 1}):
            dmg = ("trunc", t)
            copy = make_copy(ctx, S.dir, rel, dmg)
            try:
                with safe_gc(), legacy_batched_consumer():
                    kind, wrong, exc = run_restore(S, copy, True)
            finally:
                shutil.rmtree(copy, ignore_errors=True)
            untouched = sorted(i for i, p in enumerate(paths) if p in wrong)
            obs = [0] if kind != "ok" else [1, untouched]
            coq.append((term(([(S.fid[rel], S.files[rel], False)], leaves, S.fid[rel], dmg_term(dmg), True, True, watch)),
                        val(obs)))
            meta.append({"t": t, "kind": kind, "wrong": wrong})
            res.count("legacy.verdict", kind + (":stale" if wrong else ""))
            if not (kind == "ok" and wrong):
                res.mismatches.append(Mismatch(CORRESPONDENCES[4], {"t": t},
                                               f"pre-fix consumer did not reproduce the stale return: {kind} {wrong}", None))
        res.evaluations += len(coq)
        bad, errs = coqrun.run_cases("C04_leg", IMPORTS, "obs_rd_restore", coq, in_type=LEG_TYPE)
        for e in errs:
            res.mismatches.append(Mismatch(CORRESPONDENCES[4], "coqc error", None, e))
        for i in bad:
            res.mismatches.append(Mismatch(CORRESPONDENCES[4], meta[i], coq[i][1], None))
        res.traces_validated += len(coq)
    finally:
        S.close()


# --------------------------------------------------------------------------- driver
def gen_specs(ctx: Ctx):
    rng = ctx.rng
    # A: slabs of a few members, one group;  B: taken without batching (no slabs, every tensor its own file);
    # C: one big slab, two groups (restore reads the whole manifest once per key);  D (thorough): random
    specs = [
        {"seed": rng.randrange(1 << 30), "chunk": rng.choice([40, 48]), "slab": rng.choice([30, 26, 34]), "take_batching": True,
         "groups": 1},
        {"seed": rng.randrange(1 << 30), "chunk": rng.choice([40, 64]), "slab": 30, "take_batching": False, "groups": 1},
        {"seed": rng.randrange(1 << 30), "chunk": rng.choice([48, 100]), "slab": 4096, "take_batching": True, "groups": 2},
    ]
    for _ in range(ctx.n(0, 2)):
        specs.append({"seed": rng.randrange(1 << 30), "chunk": rng.choice([40, 48, 64, 100]),
                      "slab": rng.choice([16, 30, 64, 4096]), "take_batching": rng.random() < 0.7, "groups": rng.choice([1, 2])})
    return specs


def correspond(ctx: Ctx) -> Result:
    res = Result(rule=RULE)
    t0 = time.time()
    asyncio_log = logging.getLogger("asyncio")
    lvl = asyncio_log.level
    asyncio_log.setLevel(logging.CRITICAL)
    try:
        ensure_models(res)
        check_consumer(ctx, res)
        check_load_assumption(ctx, res)
        check_sharded(ctx, res)
        check_legacy(ctx, res)
        specs = gen_specs(ctx)
        budget = (560.0 if ctx.thorough else 55.0) * ctx.widen
        cases: dict = {}
        snaps = []
        t1 = time.time()
        for i, spec in enumerate(specs):
            S = Snap(ctx, spec)
            snaps.append(S)
            res.count("snapshot.files", len(S.files))
            res.count("snapshot.slabs", sum(1 for r in S.files if S.layout_class(r).startswith("slab")))
            # thorough: the first snapshot gets half of the budget (every truncation length of files <= 4 kB)
            share = (i + 1) / len(specs) if not ctx.thorough else (0.5 + 0.5 * i / max(1, len(specs) - 1))
            deadline = t1 + budget * share
            sweep(ctx, res, S, cases, deadline, every_length=ctx.thorough and i == 0)
        check_plan(ctx, res, snaps)
        for S in snaps:
            S.close()
        keys = list(cases)
        coq = [(k, val(cases[k][0])) for k in keys]
        run_both(res, "C04_call", (CORRESPONDENCES[2], "obs_rd_call"), (CORRESPONDENCES[8], "obs_g_call"), coq, CALL_TYPE,
                 lambda i: (cases[keys[i]][1], cases[keys[i]][0]))
        res.notes.append(f"correspond wall {time.time() - t0:.0f}s; {len(coq)} distinct model cases")
    finally:
        asyncio_log.setLevel(lvl)
    return res


def replay(ctx: Ctx, data):
    res = Result()
    if data.get("kind") == "consumer":
        import torch
        from torchsnapshot.serialization import tensor_from_memoryview
        try:
            tensor_from_memoryview(memoryview(bytes(data["n"])), dtype=getattr(torch, data["dtype"]), shape=data["shape"])
        except Exception:  # noqa
            return None
        full = ESZ[data["dtype"]] * prod(data["shape"])
        return Failure("C04:tensor_from_memoryview-accepts-short-buffer", "accepted", data) if data["n"] < full else None
    if data.get("kind") == "sharded":
        sc = data["scenario"]
        dmg = tuple(data["damage"])
        n = len(sc["files"][data["file"]])
        with safe_gc():
            kind, wrong, exc = run_sharded(ctx, sc, data["file"], dmg, data["batching"])
        damaged = is_damaged(sharded_reads(sc), data["file"], dmg, n)
        if kind == "hang" or (kind == "ok" and wrong) or (kind == "err" and not damaged):
            return Failure("C04:replay:sharded", f"{kind} wrong={wrong} damaged={damaged}", data)
        return None
    S = Snap(ctx, data["spec"])
    try:
        rel = S.file_by_role(data["file_role"])
        dmg = tuple(data["damage"])
        copy = make_copy(ctx, S.dir, rel, dmg)
        try:
            with safe_gc():
                if data["api"] == "restore":
                    reads = [x for p in S.entries for x in S.reads[p]]
                    kind, wrong, exc = run_restore(S, copy, data["batching"], in_loop=data.get("in_loop", False))
                else:
                    reads = S.reads[data["path"]]
                    kind, wrong, exc = run_read_object(S, copy, data["path"], data["batching"], data.get("limit"),
                                                       data.get("inplace", False), in_loop=data.get("in_loop", False))
            damaged = is_damaged(reads, rel, dmg, S.files[rel])
            judge(res, S, data["api"], data.get("path"), rel, dmg, data["batching"], data.get("limit"),
                  data.get("inplace", False), kind, wrong, damaged, exc)
        finally:
            shutil.rmtree(copy, ignore_errors=True)
    finally:
        S.close()
    return res.failures[0] if res.failures else None


MANIFEST = {
    "level_text": ("Machine-checked proof (Coq 8.16.1) about the read path under payload damage, stated both over an "
                   "executable hand model and over terms REGENERATED FROM THE SOURCE on every run: a Python-ast -> Gallina "
                   "translator (fail closed) produces tensor_from_memoryview's length / shape acceptance, the serializer "
                   "dispatch of deserialize_tensor, what the tensor / sharded / object consumers deserialise and store, "
                   "BatchedBufferConsumer (slice per sub-consumer, result retrieval), batch_read_requests statement by "
                   "statement (grouping, merged extent min lo / max hi, relative sub-ranges), the ReadReq each io preparer "
                   "emits, what a read pipeline reads and consumes and that execute_read_reqs retrieves the result of every "
                   "read and consume task; FSStoragePlugin.read comes from C20's translator. Instantiation lemmas "
                   "(proofs/ReadPathInst.v) prove each generated definition equal to the model definition, and the theorems "
                   "are restated over the generated run: a damaged needed range always raises; no damaged needed range => "
                   "Ok with exactly the saved values; truncation at or above everything read from an object changes nothing; "
                   "batching on and off; plain / chunked / tiled / sharded / object entries; the pre-fix BatchedBufferConsumer "
                   "is kept as a refuted witness. Hand model and generated terms are both compared with the real "
                   "Snapshot.restore / read_object on damaged copies of real committed snapshots inside coqc (vm_compute)."),
    "level_note": ("Trusted: Coq kernel + VM; the translators gen_readpath / gen_stream and the vocabulary they emit "
                   "(model/ReadPathPrims.v: torch.empty/frombuffer/reshape acceptance, dict semantics, ReadReq "
                   "representation - validated by the correspondences); the wiring of model/ReadPathGenObs.v; "
                   "torch.load/torch.save enter as Section variables with the assumed law 'load accepts the saved archive "
                   "and rejects every strict prefix' (validated on every run at every truncation length of sample archives); "
                   "the scheduling loop is abstracted by C11's exactly-once / failure-raises theorems; asyncio task "
                   "semantics (result() re-raises, wait() does not); torch tensor runtime and the OS file system are "
                   "modelled, not verified."),
    "technique": "Python-ast -> Gallina translation of the read path + Coq instantiation lemmas (fold invariants over "
                 "insertion-ordered dicts, list/slice lemmas on top of the C16 batching theorems) + vm_compute "
                 "correspondence of hand model and generated terms against real restore/read_object on damaged snapshot copies",
    "design_ref": "DESIGN.md section 5, C04",
}
