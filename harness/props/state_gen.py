"""Generators and exact comparison of application states (shared by C01 and C18)."""
from __future__ import annotations

import collections
import math
import struct

BP_DTYPES = ["float64", "float32", "float16", "bfloat16", "int64", "int32", "int16", "int8", "uint8", "bool"]
TS_DTYPES = ["complex128", "complex64"]
ESIZE = {"float64": 8, "float32": 4, "float16": 2, "bfloat16": 2, "int64": 8, "int32": 4, "int16": 2, "int8": 1, "uint8": 1,
         "bool": 1, "complex128": 16, "complex64": 8}


def tensor_bytes(t) -> bytes:
    """logical row-major bytes of a tensor (bit exact, any dtype)"""
    import torch
    t = t.detach()
    if t.dtype == torch.bool:
        return t.contiguous().view(torch.uint8).numpy().tobytes()
    if t.is_complex():
        return torch.view_as_real(t.contiguous()).contiguous().numpy().tobytes()
    if t.dtype == torch.bfloat16:
        return t.contiguous().view(torch.int16).numpy().tobytes()
    return t.contiguous().numpy().tobytes()


def make_tensor(rng, dtype: str, shape, layout: str):
    """A tensor of the given logical shape whose bits are random (NaN payloads, -0.0, subnormals, extremes all
    occur) in the requested memory layout."""
    import torch
    dt = getattr(torch, dtype)
    n = 1
    for s in shape:
        n *= s

    def raw(count):
        if dtype == "bool":
            return torch.tensor([rng.random() < 0.5 for _ in range(count)], dtype=torch.bool)
        nbytes = count * ESIZE[dtype]
        b = bytearray(rng.getrandbits(8) for _ in range(nbytes))
        if nbytes == 0:
            return torch.empty(0, dtype=dt)
        return torch.frombuffer(b, dtype=dt).clone()

    if layout == "contiguous" or n == 0 or len(shape) == 0:
        return raw(n).reshape(shape)
    if layout == "transposed" and len(shape) >= 2:
        rs = list(shape)
        rs[0], rs[-1] = rs[-1], rs[0]
        return raw(n).reshape(rs).transpose(0, -1)
    if layout == "strided":
        big = list(shape)
        big[0] = big[0] * 2 + 1
        m = 1
        for s in big:
            m *= s
        return raw(m).reshape(big)[1::2][: shape[0]]
    if layout == "offset":
        return raw(n + 3)[3:].reshape(shape)
    if layout == "broadcast":
        base = list(shape)
        base[0] = 1
        m = 1
        for s in base:
            m *= s
        return raw(m).reshape(base).expand(shape)
    return raw(n).reshape(shape)


def gen_shape(rng):
    return rng.choice([[], [0], [1], [3], [7], [2, 3], [3, 1], [0, 4], [4, 0], [5, 2], [2, 2, 3], [1, 1, 1, 2], [3, 5], [17]])


def gen_leaf(rng, kinds=("tensor", "tensor", "tensor", "prim", "obj")):
    k = rng.choice(kinds)
    if k == "tensor":
        dtype = rng.choice(BP_DTYPES + BP_DTYPES + TS_DTYPES)
        shape = gen_shape(rng)
        layout = rng.choice(["contiguous", "contiguous", "transposed", "strided", "offset", "broadcast"])
        return ("tensor", dtype, shape, layout, rng.getrandbits(32))
    if k == "prim":
        return ("prim", rng.choice([0, -1, 2 ** 70, -(10 ** 30), "", "stré \U0001f600", "a/b%", True, False, b"", bytes(range(256)),
                                    0.0, -0.0, 1.5, float("inf"), float("-inf"), float("nan"), 5e-324, 1.7976931348623157e308]))
    return ("obj", rng.choice([(1, "x", None), {"not": "flattened", 1: 2, "1": 3}, {1, 2}, (1, (2, 3)), None, bytearray(b"ab"),
                               {("tuple", "key"): 1}]))


def gen_struct(rng, depth=0):
    """spec of a nested container: ('dict'|'odict'|'list', [(key, child)...]) or a leaf"""
    if depth >= 3 or (depth > 0 and rng.random() < 0.5):
        return gen_leaf(rng)
    kind = rng.choice(["dict", "odict", "list", "dict"])
    n = rng.randint(0 if depth > 0 else 1, 4)
    if kind == "list":
        return ("list", [(None, gen_struct(rng, depth + 1)) for _ in range(n)])
    keys = rng.sample(["a", "b", "w", "w_0x", 1, 2, 10, "1x", "k/s", "p%c", "ü", "z.z", "A"], n)
    return (kind, [(k, gen_struct(rng, depth + 1)) for k in keys])


def build(spec, rng_mod):
    """materialise a spec into Python objects (fresh tensors each call, deterministic from the seeds inside)"""
    import random
    k = spec[0]
    if k == "tensor":
        _, dtype, shape, layout, seed = spec
        return make_tensor(random.Random(seed), dtype, shape, layout)
    if k == "prim":
        return spec[1]
    if k == "obj":
        return spec[1]
    if k == "list":
        return [build(c, rng_mod) for _, c in spec[1]]
    items = [(key, build(c, rng_mod)) for key, c in spec[1]]
    return dict(items) if k == "dict" else collections.OrderedDict(items)


def equal_exact(a, b, path="") -> str | None:
    """None when a and b are equal in the sense of C01 (container type, keys with their types, key order,
    tensor dtype/shape/bits, primitives incl. float bit patterns, objects by ==); else a description."""
    import torch
    if isinstance(a, torch.Tensor) or isinstance(b, torch.Tensor):
        if not (isinstance(a, torch.Tensor) and isinstance(b, torch.Tensor)):
            return f"{path}: tensor vs {type(b).__name__ if isinstance(a, torch.Tensor) else type(a).__name__}"
        if a.dtype != b.dtype:
            return f"{path}: dtype {a.dtype} vs {b.dtype}"
        if list(a.shape) != list(b.shape):
            return f"{path}: shape {list(a.shape)} vs {list(b.shape)}"
        if tensor_bytes(a) != tensor_bytes(b):
            return f"{path}: tensor bits differ"
        return None
    if type(a) != type(b):
        return f"{path}: type {type(a).__name__} vs {type(b).__name__}"
    if isinstance(a, (dict, collections.OrderedDict)):
        ka, kb = list(a.keys()), list(b.keys())
        if [(type(k), k) for k in ka] != [(type(k), k) for k in kb]:
            return f"{path}: keys/order {ka!r} vs {kb!r}"
        for k in ka:
            r = equal_exact(a[k], b[k], f"{path}/{k!r}")
            if r:
                return r
        return None
    if isinstance(a, list):
        if len(a) != len(b):
            return f"{path}: list length {len(a)} vs {len(b)}"
        for i, (x, y) in enumerate(zip(a, b)):
            r = equal_exact(x, y, f"{path}[{i}]")
            if r:
                return r
        return None
    if isinstance(a, float):
        if struct.pack("d", a) != struct.pack("d", b):
            return f"{path}: float bits {a!r} vs {b!r}"
        return None
    if a != b and not (isinstance(a, complex) and math.isnan(a.real) and math.isnan(b.real)):
        return f"{path}: value {a!r} vs {b!r}"
    return None


def blank_like(obj, mode, rng):
    """restore target for a saved object: 'inplace' (same dtype/shape, different contents), 'none', 'wrong' (wrong shape)"""
    import torch
    if isinstance(obj, torch.Tensor):
        if mode == "inplace":
            return torch.zeros(list(obj.shape), dtype=obj.dtype) if not obj.is_complex() else torch.zeros(list(obj.shape), dtype=obj.dtype)
        if mode == "wrong":
            return torch.ones([2] + list(obj.shape), dtype=torch.float32)
        return None
    if isinstance(obj, (dict, collections.OrderedDict)):
        return type(obj)((k, blank_like(v, mode, rng)) for k, v in obj.items())
    if isinstance(obj, list):
        return [blank_like(v, mode, rng) for v in obj]
    return None
