"""C13 - Async commit barrier: commit after all arrive; errors reach every rank.

The REAL LinearBarrier and the REAL PendingSnapshot._complete_snapshot run as one managed thread per rank under
the deterministic scheduler (lib/dsched.py).  The store is C13Store, a lib.world.FakeStore (set/get/wait are
scheduling points) whose wait can RAISE A TIMEOUT when the scheduler picks that choice; the pending I/O, the storage
and the event loop are fakes whose sync_complete / sync_write are scheduling points and can be failed; ranks can be
ABSENT (no background thread: what a rank that raised inside async_take leaves behind).  One choice sequence = one
execution; dsched.explore enumerates them.  A choice is (worker, go | timeout): `timeout` is offered for every worker
parked at a store.wait (whether or not its keys are present) in the scenarios that allow timeouts.
On every execution (a) the property is evaluated directly on the event log (oracle -> Failure) and (b) the
schedule is replayed in the Coq model (obs_barrier) and every step's operation, the sets of ranks whose normal step /
whose timeout is enabled before every step and the final outcomes (incl. who timed out) are compared
(correspondence -> Mismatch).
The full public path (Snapshot.async_take + wait inside lib.world.World) is run a few times as well."""
from __future__ import annotations

import itertools
import os
import shutil

from lib import coqrun, dsched
from lib.dsched import Deadlock
from lib.core import Ctx, Failure, Mismatch, Obligation, Result
from lib.tocoq import Nat, Raw, term, val

PROP = "C13"
PROPS_FILE = "props/C13.v"
GEN = ["gen_barrier"]
CORRESPONDENCES = ["barrier:real-LinearBarrier+_complete_snapshot~model(steps,enabled-sets,timeout-sets,outcomes,final-enabled-sets)",
                   "barrier:legacy-shared-prefix-witnesses-reproduce",
                   "async_take:public-path-oracle",
                   "barrier:timeout-and-absent-rank-witnesses-reproduce"]
RULE = ("single snapshots: ALL interleavings (dsched.explore) of the real background threads for W=2 and W=3 "
        "(W=4: capped DFS + random; thorough: larger caps) x every single fault (each rank's I/O, the leader's "
        "metadata write) and no fault, plus sampled double faults; histories of length 2 and 3 over "
        "{success, I/O failure at r, metadata failure} x {same path, different path} with distinct barrier ids, "
        "sequential (next snapshot starts after the previous finished: capped DFS) and overlapping (all background "
        "threads of all snapshots at once: random schedules); the legacy situation (two snapshots with the SAME "
        "barrier id on one path) as replay of the refuted witnesses; WITH TIMEOUTS (every worker parked at a store.wait "
        "gets an extra choice `its wait raises`, also when its keys are present): exact replay of the Coq witnesses "
        "(depart-timeout split, spurious leader timeout, absent peer, absent leader), then DFS over go/timeout choices "
        "for W=1, 2 (exhaustive in the thorough tier) and capped DFS + random for W=3, 4, x every single fault and no "
        "fault; ABSENT ranks (no background thread): every non-empty proper subset of ranks for W=2, 3 (sampled for "
        "W=4) x {no fault, I/O failure of a present rank, metadata failure}, with timeouts (DFS + random) and without "
        "(blocked for ever is the expected observation); random histories of 2-3 overlapping or sequential snapshots "
        "with absent ranks and timeouts; real Snapshot.async_take+wait twice to one path inside the simulated world "
        "with rank 1 starved. A case is one complete execution; non-trivial = world size >= 2; distinct by (scenario, "
        "choice sequence).")
TRUSTED = [
    "Coq 8.16.1 kernel and vm_compute (no native_compute); theorems closed under the global context",
    "translator/gen_barrier.py (Python ast -> skeleton of arrive/depart/report_error/_complete_snapshot incl. the timeout "
    "argument of every store.wait, the timeout passed to arrive/depart, what the handler catches and does, and the "
    "prefix expression)",
    "hand-written transition system coq/model/Barrier.v (normal steps, timeout steps, absent ranks), tied to the code by "
    "the skeleton equality and the wait-site / timeout-is-reported facts (proofs/BarrierInst.v) and by step-by-step "
    "correspondence with the real threads under lib/dsched.py",
    "lib/dsched.py + lib/world.py FakeStore: a dist.Store whose set/get/wait are atomic and sequentially consistent, "
    "keys never deleted; harness/props/C13.py: C13Store (FakeStore whose wait raises a RuntimeError subclass when the "
    "scheduler picks the timeout choice), fakes for PendingIOWork / StoragePlugin / event loop",
]
ASSUMPTIONS = [
    "barrier prefixes of different snapshots are distinct: the 63-bit random id broadcast by rank 0 does not repeat "
    "within one job for the same path (probability, not proved)",
    "the store holds no key under a snapshot's prefix before that snapshot starts (follows from the previous item "
    "for a store used only by torchsnapshot)",
    "store operations are atomic and totally ordered. Timeouts ARE modelled, without a clock: a store.wait may raise at "
    "any moment from the call on, whether or not its keys are present (this over-approximates every timeout value, "
    "DEFAULT_BARRIER_TIMEOUT = 1800 s included); what it raises is an Exception (c10d raises RuntimeError / "
    "DistStoreError), so `except Exception` in _complete_snapshot catches it. Assumed instead: store.set and store.get "
    "never raise and never time out (get is only called on keys that a wait has seen, keys are never deleted) - in "
    "particular barrier.report_error inside the handler succeeds; if it raised, exc_info would not be recorded and "
    "wait() would return normally (not modelled: the store stays reachable)",
    "a rank absent from the protocol never sets a key of the snapshot's prefix and has no PendingSnapshot (async_take "
    "raised on it); whether its peers get as far as the barrier (async_take's broadcast of the barrier id comes first) "
    "is a matter of the process group (C12), not of this model",
    "the metadata write is atomic: a failed write leaves no committed metadata (storage-plugin behaviour, cf. C02/C03)",
    "in the protocol model sync_complete raising an Exception is the only way a rank's I/O fails in the background phase; "
    "what the REAL PendingIOWork raises (and whether it raises at all) when a write fails while sibling writes are in flight is "
    "exercised end to end (check_public_faults), not modelled",
]
IMPORTS = "From TS Require Import model.Barrier.\n"
IN_TYPE = "list BarrierSpecT * list BarrierChoiceT"


# =========================================================================== driving the real code
class C13IOError(OSError):
    pass


# the text of the injected exception varies between runs: an error whose str() is EMPTY (a bare TimeoutError(),
# AssertionError(), ...) must be propagated exactly like any other; so must messages that look like key values
import itertools
_MESSAGES = itertools.cycle(["injected failure", "", "0", "Rank 1 encountered error: nested", " "])


class C13StoreTimeout(RuntimeError):
    """What dist.Store.wait(keys, timeout) raises when the timeout expires (c10d: RuntimeError / DistStoreError)."""


def make_store(world, allow_timeouts):
    """lib.world.FakeStore whose wait() can time out.  A worker entering wait registers itself in `pending` (so the
    harness sees who stands at a store.wait, ready or not); when timeouts are allowed the scheduling point is always
    enabled and the chooser (run_scenario.wrapped) decides go / timeout for it; `timeout` makes wait raise."""
    from lib.world import FakeStore

    class C13Store(FakeStore):
        def __init__(self, world):
            super().__init__(world)
            self.allow_timeouts = allow_timeouts
            self.pending = {}        # worker name -> (ready(), keys, timeout argument)
            self.decision = {}       # worker name -> "go" | "timeout"   (set by the chooser just before the grant)

        def wait(self, keys, timeout=None):
            keys = list(keys)
            name = self.world.sched.current().name
            ready = lambda: all(k in self.d for k in keys)          # noqa: E731
            self.pending[name] = (ready, keys, timeout)
            try:
                # without an explicit timeout the store's own default timeout applies (600 s in create_store): a
                # wait can time out either way, the model has no clock
                self.world.sched.point(f"store.wait:{len(keys)}", enabled=None if self.allow_timeouts else ready)
            finally:
                self.pending.pop(name, None)
            if self.decision.pop(name, "go") == "timeout":
                self.world.event("store_timeout", keys=keys, has_timeout_arg=timeout is not None)
                raise C13StoreTimeout(next(_TIMEOUT_MESSAGES))
            self.world.event("store_wait", keys=keys)

    return C13Store(world)


_TIMEOUT_MESSAGES = itertools.cycle(["Socket Timeout", "", "wait timeout after 1800000ms, keys: /torchsnapshot_x_0"])


class C13PendingIO:
    """PendingIOWork look-alike: sync_complete is one scheduling point; raises for a failing rank."""
    def __init__(self, world, fail):
        self.world, self.fail = world, fail

    def sync_complete(self, event_loop):
        self.world.sched.point("io")
        if self.fail:
            self.world.event("io_fail")
            raise C13IOError(next(_MESSAGES))
        self.world.event("io_done")


class C13Storage:
    """StoragePlugin look-alike for the metadata write (atomic: a failed write writes nothing)."""
    def __init__(self, world, fail):
        self.world, self.fail = world, fail

    def sync_write(self, write_io, event_loop):
        self.world.sched.point("meta")
        if self.fail:
            self.world.event("meta_fail", path=write_io.path)
            raise C13IOError(next(_MESSAGES))
        self.world.event("meta_written", path=write_io.path, size=len(write_io.buf))

    def sync_close(self, event_loop):
        pass


class C13Loop:
    def close(self):
        pass


class C13Sched:
    """What dsched.explore needs from a scheduler: the non-forced choices."""
    def __init__(self, choices):
        self.choices = choices


def barrier_prefix(inst) -> str:
    return f"torchsnapshot_{inst['path']}_{inst['bid']}"


def worker_of(name: str):
    k, r = name[1:].split("r")
    return int(k), int(r)


class C13Run:
    def __init__(self):
        self.events = []
        self.enabled = []        # per non-start step: list of (inst, rank, "go" | "timeout") options before the step
        self.waiting = []        # per non-start step: list of (inst, rank) parked at a store.wait before the step
        self.choices = []        # non-forced (choice among the options, number of options)
        self.deadlock = None
        self.trace = []
        self.started = 0         # number of snapshot instances whose threads were spawned


def run_scenario(W, insts, mode, choose, timeouts=False) -> C13Run:
    """Run the real background completion of every snapshot in `insts` (dicts: path, bid, iofail, metafail, absent).
    mode 'seq': snapshot k+1 starts when all threads of snapshot k have finished; 'par': all at once.
    Ranks in inst['absent'] get no thread.  `choose(options)` picks among [(worker name, label, "go" | "timeout")];
    "timeout" options exist only when `timeouts` is set: one for every worker parked at a store.wait."""
    import logging
    logging.disable(logging.CRITICAL)
    from torchsnapshot.manifest import SnapshotMetadata
    from torchsnapshot.snapshot import PendingSnapshot
    from lib.world import World

    run = C13Run()

    def wrapped(labels):
        for i, (name, label) in enumerate(labels):
            if label.startswith("start:"):
                return i
        store = world.store
        options = []
        for i, (name, label) in enumerate(labels):
            if name in store.pending:
                if store.pending[name][0]():
                    options.append((i, name, label, "go"))
                if timeouts:
                    options.append((i, name, label, "timeout"))
            else:
                options.append((i, name, label, "go"))
        run.enabled.append([worker_of(n) + (k,) for _, n, _, k in options])
        run.waiting.append(sorted(worker_of(n) for n in store.pending))
        c = choose([(n, l, k) for _, n, l, k in options]) % len(options)
        run.choices.append((c, len(options)))
        i, name, _, kind = options[c]
        store.decision[name] = kind
        return i

    world = World(W, choose=wrapped)
    world.store = make_store(world, timeouts)
    meta = SnapshotMetadata(version="0", world_size=W, manifest={})

    def spawn(k, inst):
        for r in range(W):
            if r in inst.get("absent", ()):
                continue
            def body(k=k, r=r, inst=inst):
                ps = object.__new__(PendingSnapshot)
                ps.path, ps.pg, ps.exc_info, ps._done = inst["path"], None, None, False
                ps._storage_options, ps._unique_id, ps._barrier_id = None, inst["bid"], inst["bid"]
                ps._complete_snapshot(path=inst["path"], rank=r, world_size=W,
                                      pending_io_work=C13PendingIO(world, r in inst["iofail"]), metadata=meta,
                                      storage=C13Storage(world, inst["metafail"] and r == 0), event_loop=C13Loop(),
                                      store=world.store)
                world.event("finished", ok=ps.exc_info is None, done=ps._done)
            world.sched.spawn(f"i{k}r{r}", body, tags={"rank": r})

    try:
        if mode == "par":
            for k, inst in enumerate(insts):
                spawn(k, inst)
            run.started = len(insts)
            world.sched.run()
        else:
            for k, inst in enumerate(insts):
                spawn(k, inst)
                run.started = k + 1
                world.sched.run()
    except dsched.Deadlock:
        run.deadlock = list(world.sched.deadlock)
    run.events = world.events
    run.trace = [t for t in world.sched.trace if not t[1].startswith("start:")]
    return run


STEP_KINDS = ("io_done", "io_fail", "store_set", "store_get", "store_wait", "store_timeout", "meta_written", "meta_fail")


def observe(W, insts, run: C13Run, prefix_ids):
    """-> (schedule [(inst, rank, is_timeout)], per-step observations, per-instance observations) in the model's encoding."""
    def key_of(k: str):
        pre, _, rk = k.rpartition("_")
        return prefix_ids.get(pre, -1), int(rk)

    def vclass(b: bytes) -> int:
        return 0 if len(b) == 0 else 1

    def wait_keys(e, k):
        ks = [key_of(x) for x in e["keys"]]
        ps = {p for p, _ in ks}
        p = ps.pop() if len(ps) == 1 else prefix_ids[barrier_prefix(insts[k])]
        return p, [kr for _, kr in ks]

    sched, ops = [], []
    outcome = [[3 if r in inst.get("absent", ()) else 2 for r in range(W)] for inst in insts]
    meta = [0] * len(insts)
    iodone = [[0] * W for _ in insts]
    tmo = [[0] * W for _ in insts]
    for e in run.events:
        k, r = worker_of(e["thread"])
        kind = e["kind"]
        if kind == "finished":
            outcome[k][r] = 0 if e["ok"] else 1
            continue
        if kind not in STEP_KINDS:
            continue
        sched.append((k, r, kind == "store_timeout"))
        if kind == "io_done":
            ops.append([1, 1]); iodone[k][r] = 1
        elif kind == "io_fail":
            ops.append([1, 0])
        elif kind == "store_set":
            p, kr = key_of(e["key"]); ops.append([2, p, kr, vclass(e["value"])])
        elif kind == "store_get":
            p, kr = key_of(e["key"]); ops.append([4, p, kr, vclass(e["value"])])
        elif kind == "store_wait":
            p, rs = wait_keys(e, k); ops.append([3, p, rs])
        elif kind == "store_timeout":
            p, rs = wait_keys(e, k); ops.append([6, p, rs]); tmo[k][r] = 1
        elif kind == "meta_written":
            ops.append([5, 1]); meta[k] = 1
        elif kind == "meta_fail":
            ops.append([5, 0])
    steps = []
    for (k, r, _), op, en, wt in zip(sched, ops, run.enabled, run.waiting):
        # normal step enabled: the real thread was offered "go"; timeout enabled: the real thread stood at a store.wait
        steps.append([op, sorted(rr for kk, rr, kind in en if kk == k and kind == "go"),
                      sorted(rr for kk, rr in wt if kk == k)])
    inst_obs = [[outcome[k], meta[k], iodone[k], tmo[k]] for k in range(len(insts))]
    # the final state: every thread finished (nothing enabled), or the run ended blocked: no normal step is possible
    # and exactly the ranks parked at a store.wait could still time out
    parked = [worker_of(n) for n, label in (run.deadlock or []) if label.startswith("store.wait")]
    final = [[[], sorted(r for kk, r in parked if kk == k)] for k in range(len(insts))]
    return sched, steps, inst_obs, final


def prefix_id_map(insts):
    ids = {}
    for inst in insts:
        ids.setdefault(barrier_prefix(inst), len(ids) + 1)
    return ids


def model_case(W, insts, run: C13Run):
    # a sequential history that ended blocked never started its later snapshots: they are not part of the execution
    insts = insts[:max(run.started, 1)]
    ids = prefix_id_map(insts)
    sched, steps, inst_obs, final = observe(W, insts, run, ids)
    specs = [(ids[barrier_prefix(i)], Nat(W), [Nat(r) for r in sorted(i["iofail"])], bool(i["metafail"]),
              [Nat(r) for r in sorted(i.get("absent", ()))]) for i in insts]
    inp = f"({term(specs)}, {term([(Nat(k), Nat(r), bool(t)) for k, r, t in sched])})"
    return inp, val([steps, inst_obs, final]), (sched, steps, inst_obs, final)


# =========================================================================== the property, evaluated directly
def oracle(W, insts, run: C13Run, timeouts=False):
    """-> list of (signature suffix, text).  Exactly the property text, per snapshot instance; causes of errors are
    faults of the plan, absent ranks and store.wait timeouts (taken from the event log: the wait that raised)."""
    out = []
    ev = run.events
    for k, inst in enumerate(insts):
        mine = [(n, e) for n, e in enumerate(ev) if worker_of(e["thread"])[0] == k]
        io_done = {e["rank"]: n for n, e in mine if e["kind"] == "io_done"}
        metas = [n for n, e in mine if e["kind"] == "meta_written"]
        fin = {e["rank"]: (n, e["ok"]) for n, e in mine if e["kind"] == "finished"}
        tmo = sorted({e["rank"] for n, e in mine if e["kind"] == "store_timeout"})
        absent = sorted(inst.get("absent", ()))
        fault_io = sorted(inst["iofail"])
        fault = bool(fault_io) or inst["metafail"]
        okr = sorted(r for r, (n, ok) in fin.items() if ok)
        raised = sorted(r for r, (n, ok) in fin.items() if not ok)
        # ---- safety, in every execution (complete or not)
        if metas:
            late = [r for r in range(W) if r not in io_done or io_done[r] > metas[0]]
            if late:
                out.append(("metadata-before-io-complete",
                            f"snapshot {k}: leader wrote the metadata before the I/O of rank(s) {late} had completed"))
        for r, (n, ok) in fin.items():
            if ok and (not metas or metas[0] > n):
                out.append(("success-before-commit",
                            f"snapshot {k}: rank {r} reported success before the metadata was written"))
                break
        # a fault of the plan, an absent rank, or a timeout of the leader's wait: nobody succeeds, nothing is committed
        if (fault or absent or 0 in tmo) and okr:
            out.append(("fault-not-propagated",
                        f"snapshot {k}: fault plan io={fault_io} meta={inst['metafail']} absent={absent} timed out={tmo} "
                        f"but rank(s) {okr} report success"))
        if (fault_io or absent or 0 in tmo) and metas:
            out.append(("committed-despite-io-failure",
                        f"snapshot {k}: metadata written although io failed on {fault_io} / ranks {absent} never arrived / "
                        f"the leader's wait timed out ({0 in tmo})"))
        # a rank whose store.wait raised a timeout never reports success
        sw = [r for r in tmo if r in okr]
        if sw:
            out.append(("timeout-swallowed", f"snapshot {k}: store.wait timed out on rank(s) {sw} but their wait() returns normally"))
        # no error without a cause: a rank raises only if the plan has a fault or some wait of this snapshot timed out;
        # after the commit only a rank whose own wait timed out
        if raised and not fault and not tmo:
            out.append(("spurious-error", f"snapshot {k}: no fault, no timeout, but rank(s) {raised} raised"))
        elif metas and [r for r in raised if r not in tmo]:
            out.append(("spurious-error-after-commit",
                        f"snapshot {k}: metadata written, yet rank(s) {[r for r in raised if r not in tmo]} raised without a timeout of their own"))
        # ---- outcomes of complete executions
        if run.deadlock is None:
            missing = [r for r in range(W) if r not in fin and r not in absent]
            if missing:
                out.append(("thread-vanished", f"snapshot {k}: background thread of rank(s) {missing} ended without an outcome"))
            if not fault and not absent and not tmo:
                bad = [r for r in range(W) if r not in okr]
                if bad:
                    out.append(("spurious-error", f"snapshot {k}: no fault, but rank(s) {bad} did not succeed"))
    if run.deadlock is not None:
        # blocked for ever is what the protocol does when a rank never arrives and no wait is allowed to time out
        # (30 minutes in the library); in every other scenario it is a violation
        expected = (not timeouts) and any(inst.get("absent") for inst in insts)
        if not expected:
            out.append(("deadlock", f"background threads stuck: {run.deadlock}"))
    elif not timeouts:
        # conversely: a rank absent, no fault in the plan, no wait allowed to time out - the others cannot have finished
        for k, inst in enumerate(insts):
            ab = sorted(inst.get("absent", ()))
            if ab and len(ab) < W and not inst["iofail"] and not inst["metafail"]:
                out.append(("left-without-timeout", f"snapshot {k}: rank(s) {ab} never arrived, no fault, no wait timed out, "
                                                    f"yet every background thread finished"))
    return out


# =========================================================================== scenarios
def mk_inst(path, bid, iofail=(), metafail=False, absent=()):
    return {"path": path, "bid": bid, "iofail": set(iofail), "metafail": bool(metafail), "absent": set(absent)}


def jsonable_insts(insts):
    return [{"path": i["path"], "bid": i["bid"], "iofail": sorted(i["iofail"]), "metafail": i["metafail"],
             "absent": sorted(i.get("absent", ()))} for i in insts]


def guided(schedule, then=None):
    """choose function that follows a list of (inst, rank) [normal step] / (inst, rank, "t") [timeout]; afterwards
    `then` (default: first option)."""
    todo = list(schedule)

    def choose(options):
        if todo:
            c = todo.pop(0)
            k, r, kind = c[0], c[1], ("timeout" if len(c) > 2 else "go")
            for i, (name, _, kd) in enumerate(options):
                if worker_of(name) == (k, r) and kd == kind:
                    return i
            raise RuntimeError(f"guided schedule: {kind} of worker i{k}r{r} is not enabled; options: {options}")
        return then(options) if then else 0
    return choose


def random_chooser(rng, p_timeout=0.12):
    """uniform among the normal steps; a timeout (when offered) with probability p_timeout"""
    def choose(options):
        go = [i for i, o in enumerate(options) if o[2] == "go"]
        to = [i for i, o in enumerate(options) if o[2] == "timeout"]
        if to and (not go or rng.random() < p_timeout):
            return rng.choice(to)
        return rng.choice(go)
    return choose


def from_choices(choices):
    it = iter(choices)

    def choose(labels):
        return next(it, 0)
    return choose


def single_fault_plans(W):
    plans = [("none", (), False)]
    plans += [(f"io{r}", (r,), False) for r in range(W)]
    plans.append(("meta", (), True))
    return plans


def history_elements(W):
    """{success, failure at r (I/O), metadata failure}"""
    return [("ok", (), False)] + [(f"io{r}", (r,), False) for r in range(W)] + [("meta", (), True)]


def path_patterns(n):
    """all ways successive snapshots reuse / do not reuse earlier paths (restricted growth strings)"""
    out = [[0]]
    for _ in range(n - 1):
        out = [p + [q] for p in out for q in range(max(p) + 2)]
    return out


class C13Collector:
    """Runs scenarios, applies the oracle, accumulates the model cases."""
    def __init__(self, ctx: Ctx, res: Result):
        self.ctx, self.res = ctx, res
        self.coq, self.meta = [], []
        self.next_bid = 1000
        self.legacy_hits = {}

    def bid(self):
        self.next_bid += 7
        return self.next_bid

    def record(self, tag, W, insts, mode, run: C13Run, expect_violation=False, timeouts=False):
        replay = {"W": W, "insts": jsonable_insts(insts), "mode": mode, "choices": [c for c, _ in run.choices],
                  "timeouts": timeouts}
        self.res.case({"scenario": tag, "W": W, "insts": jsonable_insts(insts), "mode": mode,
                       "choices": [c for c, _ in run.choices], "timeouts": timeouts}, nontrivial=W >= 2)
        self.res.count("scenario", tag.split(":")[0])
        self.res.count("W", W)
        self.res.count("steps", len(run.trace))
        self.res.count("fault_plan", "+".join(("io" + ",".join(map(str, sorted(i["iofail"]))) if i["iofail"] else "") +
                                               ("meta" if i["metafail"] else "") +
                                               ("absent" + ",".join(map(str, sorted(i["absent"]))) if i.get("absent") else "")
                                               or "ok" for i in insts))
        viol = oracle(W, insts, run, timeouts)
        ntmo = sum(1 for e in run.events if e["kind"] == "store_timeout")
        self.res.count("timeouts_allowed", bool(timeouts))
        self.res.count("timeout_steps_in_run", min(ntmo, 4))
        if run.deadlock is not None:
            self.res.count("blocked_for_ever(absent rank, no timeouts)", tag.split(":")[0])
        for k, inst in enumerate(insts):
            fins = {e["rank"]: e["ok"] for e in run.events if e["kind"] == "finished" and worker_of(e["thread"])[0] == k}
            if timeouts and not expect_violation and any(fins.values()) and not all(fins.get(r, False) for r in range(W)) and len(fins) == W:
                # some succeeded, some raised: only through a peer's own timeout in depart (C13_timeout_error_reaches_everyone_refuted)
                self.res.count("outcome_split_by_depart_timeout(as refuted theorem predicts)", f"W={W}")
                if not getattr(self, "_split_reported", False):
                    self._split_reported = True
                    ok_r = sorted(r for r, v in fins.items() if v)
                    self.res.failures.append(Failure("C13:timeout:peer-raises-alone-after-commit",
                                                     f"W={W}: the store.wait of a peer's depart timed out after the leader had read its key: the snapshot is committed, "
                                                     f"ranks {ok_r} report success, the other rank(s) raise", {"tag": tag, "W": W, "mode": mode}))
        for e in run.events:
            if e["kind"] == "finished":
                self.res.count("outcome", "success" if e["ok"] else "raised")
        if expect_violation:
            for sig, text in viol:
                self.legacy_hits[sig] = self.legacy_hits.get(sig, 0) + 1
                self.res.count("legacy_violation(expected)", sig)
        else:
            for sig, text in viol:
                self.res.failures.append(Failure(f"C13:{sig}", f"{text} [W={W} mode={mode} "
                                                 f"plans={[(sorted(i['iofail']), i['metafail']) for i in insts]} "
                                                 f"paths={[i['path'] for i in insts]}]", replay))
        inp, exp, _ = model_case(W, insts, run)
        self.coq.append((inp, exp))
        self.meta.append(replay)
        return viol

    def explore(self, tag, W, insts, mode, cap, expect_violation=False, timeouts=False):
        def mk(choose):
            run = run_scenario(W, insts, mode, choose, timeouts)
            return C13Sched(run.choices), run
        n = 0
        for _, run in dsched.explore(mk, max_runs=cap):
            self.record(tag, W, insts, mode, run, expect_violation, timeouts)
            n += 1
        if n < cap:
            self.res.count("exhaustive_scenarios", f"W={W}" + ("+timeouts" if timeouts else ""))
        else:
            self.res.count("capped_scenarios", f"W={W}" + ("+timeouts" if timeouts else ""))
        return n

    def sample(self, tag, W, insts, mode, k, expect_violation=False, timeouts=False, p_timeout=0.12):
        rng = self.ctx.rng
        for _ in range(k):
            run = run_scenario(W, insts, mode, random_chooser(rng, p_timeout), timeouts)
            self.record(tag, W, insts, mode, run, expect_violation, timeouts)

    def flush(self):
        bad, errs = coqrun.run_cases("C13_b", IMPORTS, "obs_barrier", self.coq, shard=400, in_type=IN_TYPE)
        where = CORRESPONDENCES[0]
        for e in errs:
            self.res.mismatches.append(Mismatch(where, "coqc error", None, e))
        if bad:
            shown = bad[:3]
            out = coqrun.eval_terms("C13_show", IMPORTS, [f"obs_barrier {self.coq[i][0]}" for i in shown])
            for i in bad[:10]:
                self.res.mismatches.append(Mismatch(where, self.meta[i], self.coq[i][1][:1500],
                                                    out[:3000] if i == shown[0] else None))
        self.res.traces_validated += len(self.coq)


def check_single(c: C13Collector):
    ctx = c.ctx
    # W = 1: leader only
    for name, io, mf in single_fault_plans(1):
        c.explore(f"single:W1:{name}", 1, [mk_inst("/ckpt/a", c.bid(), io, mf)], "seq", 50)
    # W = 2: everything
    for name, io, mf in single_fault_plans(2):
        c.explore(f"single:W2:{name}", 2, [mk_inst("/ckpt/a", c.bid(), io, mf)], "seq", 10000)
    # W = 3: everything in the thorough tier, capped DFS + random in the quick tier
    for name, io, mf in single_fault_plans(3):
        cap = ctx.n(250, 20000)
        n = c.explore(f"single:W3:{name}", 3, [mk_inst("/ckpt/a", c.bid(), io, mf)], "seq", cap)
        if n >= cap:
            c.sample(f"single:W3:{name}", 3, [mk_inst("/ckpt/a", c.bid(), io, mf)], "seq", ctx.n(60, 200))
    # W = 4: capped DFS + random sample
    for name, io, mf in single_fault_plans(4):
        c.explore(f"single:W4:{name}", 4, [mk_inst("/ckpt/a", c.bid(), io, mf)], "seq", ctx.n(40, 700))
        c.sample(f"single:W4:{name}", 4, [mk_inst("/ckpt/a", c.bid(), io, mf)], "seq", ctx.n(25, 200))
    # several faults at once
    for W in (2, 3, 4):
        for _ in range(ctx.n(6, 30)):
            k = ctx.rng.randint(2, W)
            io = ctx.rng.sample(range(W), k if ctx.rng.random() < 0.5 else k - 1)
            mf = ctx.rng.random() < 0.5 or len(io) < 2
            c.sample(f"multi:W{W}", W, [mk_inst("/ckpt/a", c.bid(), io, mf)], "seq", ctx.n(3, 6))


def history_scenarios(W, n):
    for plans in itertools.product(history_elements(W), repeat=n):
        for pat in path_patterns(n):
            yield plans, pat


def check_histories(c: C13Collector):
    ctx = c.ctx
    rng = ctx.rng
    for W, n in ((2, 2), (2, 3), (3, 2), (3, 3)):
        scen = list(history_scenarios(W, n))
        if ctx.thorough and W == 2:
            chosen = scen
        else:
            chosen = rng.sample(scen, min(len(scen), ctx.n(22, 80)))
        for plans, pat in chosen:
            insts = [mk_inst(f"/ckpt/p{q}", c.bid(), io, mf) for (_, io, mf), q in zip(plans, pat)]
            tag = f"history:W{W}:n{n}"
            c.explore(tag + ":seq", W, insts, "seq", ctx.n(6, 40 if n == 2 else 20) if W == 2 else ctx.n(3, 8))
            c.sample(tag + ":seq", W, insts, "seq", ctx.n(2, 3))
            c.sample(tag + ":par", W, insts, "par", ctx.n(3, 5))
    # overlapping pairs, W = 2, explored by DFS up to a cap
    for plans, pat in rng.sample(list(history_scenarios(2, 2)), ctx.n(3, 10)):
        insts = [mk_inst(f"/ckpt/p{q}", c.bid(), io, mf) for (_, io, mf), q in zip(plans, pat)]
        c.explore("history:W2:n2:par-dfs", 2, insts, "par", ctx.n(60, 600))


# witnesses of C13_shared_prefix_refuted / C13_stale_error_refuted (coq/props/C13.v), as (inst, rank) lists
WITNESS_SHARED = ([(0, 0), (0, 1), (0, 1), (0, 0), (0, 0), (0, 0), (0, 0), (0, 1), (0, 1)], [(1, 0), (1, 0), (1, 0), (1, 0)])
WITNESS_STALE = ([(0, 0), (0, 1), (0, 1), (0, 0), (0, 0), (0, 0), (0, 0)],
                 [(1, 0), (1, 1), (1, 1), (1, 1), (1, 1), (1, 1), (1, 0), (1, 0), (1, 0), (1, 0)])


def check_legacy(c: C13Collector):
    """Two snapshots with the SAME barrier id on one path (what every pair of snapshots to one path was before the
    per-snapshot id).  Violations are expected here (they are the _refuted theorems); the model must still agree
    step by step, and the two Coq witnesses must reproduce on the real LinearBarrier."""
    ctx = c.ctx
    where = CORRESPONDENCES[1]
    same = 424242
    # exact replay of the Coq witnesses
    for name, (s1, s2), first, want in (("shared", WITNESS_SHARED, ((), False), "metadata-before-io-complete"),
                                        ("stale", WITNESS_STALE, ((1,), False), "spurious-error")):
        insts = [mk_inst("/ckpt/a", same, *first), mk_inst("/ckpt/a", same)]
        try:
            run = run_scenario(2, insts, "seq", guided(s1 + s2))
            viol = c.record(f"legacy:witness:{name}", 2, insts, "seq", run, expect_violation=True)
            if want not in [s for s, _ in viol]:
                c.res.mismatches.append(Mismatch(where, {"witness": name, "schedule": s1 + s2},
                                                 f"real LinearBarrier did not reproduce '{want}'; oracle said {viol}",
                                                 f"C13_{'shared_prefix' if name == 'shared' else 'stale_error'}_refuted"))
        except RuntimeError as e:
            c.res.mismatches.append(Mismatch(where, {"witness": name}, f"witness schedule not executable on the real code: {e}", None))
    # and the whole neighbourhood: all interleavings (capped) of same-id pairs
    for W in (2, 3):
        for name, io, mf in history_elements(W):
            insts = [mk_inst("/ckpt/a", same, io, mf), mk_inst("/ckpt/a", same)]
            c.explore(f"legacy:W{W}:{name}-then-ok", W, insts, "seq", ctx.n(40, 900) if W == 3 else ctx.n(80, 800),
                      expect_violation=True)
            c.sample(f"legacy:W{W}:{name}-then-ok:par", W, insts, "par", ctx.n(4, 30), expect_violation=True)


# =========================================================================== timeouts and absent ranks
# real-code schedules of the Coq witnesses / examples (coq/props/C13.v); (inst, rank) = normal step, (inst, rank, "t") = timeout
WITNESS_TIMEOUTS = [
    # C13_timeout_error_reaches_everyone_refuted: the leader has read rank 1's key, rank 1's depart wait times out,
    # the leader commits and succeeds, rank 1 raises
    ("depart-timeout-split", 2, {}, [(0, 0), (0, 1), (0, 1), (0, 0), (0, 0), (0, 1, "t"), (0, 0), (0, 0), (0, 1)],
     {"ok": [True, False], "meta": True, "tmo": [1]}),
    # C13_example_leader_timeout: spurious timeout of the leader's wait; rank 1 reads the leader's error key
    ("leader-timeout", 2, {}, [(0, 0), (0, 1), (0, 1), (0, 0, "t"), (0, 0), (0, 1), (0, 1), (0, 1)],
     {"ok": [False, False], "meta": False, "tmo": [0]}),
    # C13_example_absent_peer: rank 2 never arrives; the leader's timeout is enough, rank 1 reads the error key
    ("absent-peer", 3, {"absent": (2,)}, [(0, 0), (0, 1), (0, 1), (0, 0, "t"), (0, 0), (0, 1), (0, 1), (0, 1)],
     {"ok": [False, False, None], "meta": False, "tmo": [0]}),
    # C13_example_absent_leader: nobody writes the leader's key; each peer leaves through its own timeout
    ("absent-leader", 3, {"absent": (0,)}, [(0, 1), (0, 1), (0, 2), (0, 2), (0, 1, "t"), (0, 1), (0, 2, "t"), (0, 2)],
     {"ok": [None, False, False], "meta": False, "tmo": [1, 2]}),
]


def check_timeouts(c: C13Collector):
    """store.wait timeouts (also spurious ones) and ranks absent from the protocol, on the real LinearBarrier /
    _complete_snapshot: exact replay of the Coq witnesses, then the neighbourhood (DFS over go/timeout choices)."""
    ctx = c.ctx
    rng = ctx.rng
    where = CORRESPONDENCES[3]
    for name, W, kw, schedule, want in WITNESS_TIMEOUTS:
        insts = [mk_inst("/ckpt/a", c.bid(), **kw)]
        try:
            run = run_scenario(W, insts, "seq", guided(schedule), timeouts=True)
        except RuntimeError as e:
            c.res.mismatches.append(Mismatch(where, {"witness": name}, f"witness schedule not executable on the real code: {e}", None))
            continue
        c.record(f"timeout:witness:{name}", W, insts, "seq", run, timeouts=True)
        fin = {e["rank"]: e["ok"] for e in run.events if e["kind"] == "finished"}
        got = {"ok": [fin.get(r) for r in range(W)], "meta": any(e["kind"] == "meta_written" for e in run.events),
               "tmo": sorted(e["rank"] for e in run.events if e["kind"] == "store_timeout")}
        if got != want:
            c.res.mismatches.append(Mismatch(where, {"witness": name, "schedule": schedule}, want, got))
    # the absent-rank witnesses WITHOUT timeouts: blocked for ever (C13_example_absent_peer_blocks)
    for W, ab in ((3, (2,)), (3, (0,)), (2, (1,)), (2, (0,))):
        insts = [mk_inst("/ckpt/a", c.bid(), absent=ab)]
        n = c.explore(f"absent:W{W}:a{''.join(map(str, ab))}:blocked", W, insts, "seq", ctx.n(30, 400))
    # single snapshots with timeouts: every plan; W <= 2 exhaustively (thorough), W = 3, 4 capped DFS + random
    for name, io, mf in single_fault_plans(1):
        c.explore(f"timeout:W1:{name}", 1, [mk_inst("/ckpt/a", c.bid(), io, mf)], "seq", 200, timeouts=True)
    for name, io, mf in single_fault_plans(2):
        cap = ctx.n(150, 30000)
        n = c.explore(f"timeout:W2:{name}", 2, [mk_inst("/ckpt/a", c.bid(), io, mf)], "seq", cap, timeouts=True)
        if n >= cap:
            c.sample(f"timeout:W2:{name}", 2, [mk_inst("/ckpt/a", c.bid(), io, mf)], "seq", ctx.n(30, 100), timeouts=True)
    for W in (3, 4):
        for name, io, mf in single_fault_plans(W):
            c.explore(f"timeout:W{W}:{name}", W, [mk_inst("/ckpt/a", c.bid(), io, mf)], "seq", ctx.n(25, 500 if W == 3 else 150), timeouts=True)
            c.sample(f"timeout:W{W}:{name}", W, [mk_inst("/ckpt/a", c.bid(), io, mf)], "seq", ctx.n(12, 90), timeouts=True,
                     p_timeout=rng.choice([0.05, 0.12, 0.3]))
    # absent ranks with timeouts: every non-empty proper subset for W = 2, 3; sampled for W = 4; with and without a fault
    for W in (2, 3, 4):
        subsets = [ab for n in range(1, W) for ab in itertools.combinations(range(W), n)]
        if W == 4:
            subsets = rng.sample(subsets, ctx.n(4, 6))
        for ab in subsets:
            present = [r for r in range(W) if r not in ab]
            plans = [((), False)] + [((rng.choice(present),), False)] + ([((), True)] if 0 not in ab else [])
            for io, mf in plans:
                insts = [mk_inst("/ckpt/a", c.bid(), io, mf, absent=ab)]
                tag = f"absent:W{W}:a{''.join(map(str, ab))}:{'io' + str(io[0]) if io else 'meta' if mf else 'none'}"
                c.explore(tag, W, insts, "seq", ctx.n(20, 600 if W < 4 else 150), timeouts=True)
                c.sample(tag, W, insts, "seq", ctx.n(4, 20), timeouts=True, p_timeout=0.1)
    # histories: overlapping snapshots, some with absent ranks, with timeouts (par: all threads at once)
    for _ in range(ctx.n(10, 30)):
        W = rng.choice([2, 2, 3])
        n = rng.choice([2, 2, 3])
        insts = []
        for q in range(n):
            _, io, mf = rng.choice(history_elements(W))
            ab = () if rng.random() < 0.6 else tuple(rng.sample(range(W), rng.randint(1, W - 1)))
            insts.append(mk_inst(f"/ckpt/p{rng.randrange(2)}", c.bid(), io, mf, absent=ab))
        c.sample(f"history:W{W}:n{n}:par+timeouts", W, insts, "par", ctx.n(3, 8), timeouts=True, p_timeout=rng.choice([0.05, 0.2]))
        c.explore(f"history:W{W}:n{n}:seq+timeouts", W, insts, "seq", ctx.n(4, 30), timeouts=True)


# =========================================================================== the public path
def public_run(ctx: Ctx, W, policy, n_snaps=2, same_path=True, seed=0):
    import torch
    from torchsnapshot import Snapshot, StateDict
    from lib.world import World
    root = ctx.scratch("c13pub")

    def choose(labels):
        if policy.startswith("starve"):
            pre = "r" + policy[len("starve"):]
            oth = [i for i, (n, _) in enumerate(labels) if not (n == pre or n.startswith(pre + "."))]
            return oth[0] if oth else 0
        nonlocal seed
        seed = (seed * 1103515245 + 12345) & 0x7FFFFFFF
        return seed % len(labels)

    world = World(W, choose=choose)

    def fn(rank):
        for s in range(n_snaps):
            world.event("take_begin", snap=s)
            # the application re-seeds the global RNGs the same way before every checkpoint (a deterministic retry, or the
            # effect of restoring an RNGState first): snapshot ids / barrier ids must not repeat because of it
            import random as _random
            _random.seed(20240101)
            torch.manual_seed(20240101)
            app = {"m": StateDict(w=torch.full((5,), float(rank * 10 + s)), v=torch.arange(3) + rank)}
            path = os.path.join(root, "snap" if same_path else f"snap{s}")
            pending = Snapshot.async_take(path, app)
            pending.wait()
            world.event("wait_returned", snap=s)
        return "ok"

    try:
        res, errs = world.run(fn)
    finally:
        shutil.rmtree(root, ignore_errors=True)
    return world, res, errs


def public_oracle(W, world, res, errs, n_snaps):
    out = []
    if world.deadlock is not None:
        return [("public:deadlock", f"deadlock: {world.deadlock}")]
    for r in range(W):
        if errs[r] is not None:
            out.append(("public:spurious-error", f"rank {r}: {type(errs[r]).__name__}: {str(errs[r])[:200]}"))
    if out:
        return out
    ev = world.events
    window = {}
    for e in ev:
        if e["kind"] == "take_begin":
            window[(e["rank"], e["snap"])] = e["n"]
    for s in range(n_snaps):
        def inwin(e, s=s):
            lo = window.get((e["rank"], s))
            hi = window.get((e["rank"], s + 1), len(ev) + 1)
            return lo is not None and lo <= e["n"] < hi
        mine = [e for e in ev if e["rank"] is not None and inwin(e)]
        mb = [e["n"] for e in mine if e["kind"] == "write_begin" and e["path"].endswith(".snapshot_metadata")]
        me = [e["n"] for e in mine if e["kind"] == "write_end" and e["path"].endswith(".snapshot_metadata")]
        if len(mb) != 1 or len(me) != 1:
            out.append(("public:metadata-writes", f"snapshot {s}: {len(mb)} metadata writes begun, {len(me)} completed"))
            continue
        for r in range(W):
            pb = [e for e in mine if e["rank"] == r and e["kind"] == "write_begin" and not e["path"].endswith(".snapshot_metadata")]
            pe = [e for e in mine if e["rank"] == r and e["kind"] == "write_end" and not e["path"].endswith(".snapshot_metadata")]
            if not pb:
                out.append(("public:no-payload", f"snapshot {s}: rank {r} wrote no payload (scenario is vacuous)"))
            late = [e["path"] for e in pb if not any(x["path"] == e["path"] and x["n"] < mb[0] for x in pe)]
            if late:
                out.append(("public:metadata-before-io-complete",
                            f"async_take #{s}: rank 0 began the metadata write before rank {r}'s payload write(s) "
                            f"{[p[-12:] for p in late]} had completed"))
            wr = [e["n"] for e in mine if e["rank"] == r and e["kind"] == "wait_returned"]
            if not wr or wr[0] < me[0]:
                out.append(("public:success-before-commit", f"async_take #{s}: rank {r}'s wait() returned before the metadata write completed"))
    return out


def check_public(ctx: Ctx, res: Result):
    where = CORRESPONDENCES[2]
    runs = [(2, "starve1"), (3, "starve1"), (3, "starve2"), (3, "starve0"), (2, "random"), (3, "random")]
    runs += [(ctx.rng.choice([2, 3]), "random") for _ in range(ctx.n(2, 20))]
    for W, policy in runs:
        for same_path in (True,) if policy != "random" else (True, False):
            seed = ctx.rng.randrange(1 << 30)
            world, r, errs = public_run(ctx, W, policy, 2, same_path, seed)
            res.case({"scenario": "public", "W": W, "policy": policy, "same_path": same_path, "events": len(world.events)}, nontrivial=True)
            res.count("scenario", "public")
            for sig, text in public_oracle(W, world, r, errs, 2):
                res.failures.append(Failure(f"C13:{sig}", f"{text} [W={W} scheduling policy={policy} same_path={same_path}]",
                                            {"public": True, "W": W, "policy": policy, "same_path": same_path, "seed": seed}))


def check_public_faults(ctx: Ctx, res: Result):
    """End to end with the REAL pending I/O work (not the look-alike): async_take + wait on 2-3 simulated ranks with several
    write requests per rank, the n-th storage write of rank r failing for sampled (r, n) - in particular while sibling
    writes of the same rank are still in flight.  Property: wait() raises on EVERY rank, nobody hangs, no metadata."""
    from props import commit_common as cc
    rng = ctx.rng
    # designed workloads first (commit_common.designed_workloads): whether a write fails while a SIBLING write of the same
    # rank is in flight in the background phase depends on the knobs (an I/O concurrency cap of 1, or a tight budget,
    # serialises the writes), so the sweep does not leave that to the random draw
    designed = [w for w in cc.designed_workloads() if w["W"] >= 2]
    if not ctx.thorough:
        designed = designed[:3] + [w for w in designed[3:] if w.get("conc_after")]
    for i in range(len(designed) + ctx.n(4, 20)):
        wl = designed[i] if i < len(designed) else cc.make_workload(rng)
        if wl["W"] < 2:
            continue
        root = ctx.scratch("c13f")
        ref = cc.run_take(wl, os.path.join(root, "ref"), "async", "fifo")
        shutil.rmtree(root, ignore_errors=True)
        if ref.deadlock or any(e is not None for e in ref.errors):
            res.failures.append(Failure("C13:public:fault-free-run-failed", f"fault-free async take failed: {ref.errors} {ref.deadlock}", {"workload": wl}))
            continue
        counts = list(ref.nwrites)
        targets = [(r, n) for r in range(wl["W"]) for n in range(counts[r])]
        if not ctx.thorough and len(targets) > 5:
            targets = rng.sample(targets, 5) if i >= len(designed) else [t for t in targets if t[0] == i % wl["W"]][:6]
        for (fr, fn_) in targets:
            for sched in (["fifo", "random"] if not ctx.thorough else ["fifo", "random", ("starve", fr), ("starve_others", fr)]):
                root = ctx.scratch("c13f")
                path = os.path.join(root, "snap")
                seed = rng.randrange(1 << 30)
                how = "fail-late" if wl.get("conc_after") else ("fail-empty", "fail-late", "fail")[seed % 3]
                world = cc.run_take(wl, path, "async", sched, seed, write_policy=lambda r, p, n, fr=fr, fn_=fn_, how=how: how if (r == fr and n == fn_) else None)
                replay = {"public_fault": True, "workload": wl, "sched": sched, "seed": seed, "fail_rank": fr, "fail_nth": fn_, "how": how}
                ws = cc.writes_of(world)
                failed = [w for w in ws if w["failed"]]
                res.case({"scenario": "public-fault", "W": wl["W"], "sched": str(sched), "fail": [fr, fn_], "how": how,
                          "writes_of_failing_rank": counts[fr]}, nontrivial=counts[fr] >= 2)
                res.count("scenario", "public-fault"); res.count("public_fault.writes_of_failing_rank", min(counts[fr], 9))
                if failed:
                    quiet = [r for r in range(wl["W"]) if world.errors[r] is None]
                    hung = [r for r in range(wl["W"]) if isinstance(world.errors[r], Deadlock)]
                    meta = [w for w in ws if w["path"] == cc.META and w["end"] is not None]
                    if quiet:
                        res.failures.append(Failure("C13:public:wait-returned-normally-after-a-failed-write",
                                                    f"write #{fn_} of rank {fr} failed ({how}) but wait() returned normally on ranks {quiet} [W={wl['W']} sched={sched}]", replay))
                    if hung and not cc.foreground_failure(world, fr):
                        res.failures.append(Failure("C13:public:hang-after-a-failed-write", f"ranks {hung} blocked for ever after write #{fn_} of rank {fr} failed [W={wl['W']} sched={sched}]", replay))
                    if meta and failed[0]["path"] != cc.META:
                        res.failures.append(Failure("C13:public:committed-despite-io-failure", f"metadata written although write #{fn_} of rank {fr} failed [W={wl['W']} sched={sched}]", replay))
                shutil.rmtree(root, ignore_errors=True)


# =========================================================================== entry points
def correspond(ctx: Ctx) -> Result:
    res = Result(rule=RULE)
    c = C13Collector(ctx, res)
    check_legacy(c)
    check_single(c)
    check_histories(c)
    check_timeouts(c)
    c.flush()
    check_public(ctx, res)
    check_public_faults(ctx, res)
    res.exhaustive = True   # W <= 2 (and W = 3 in the thorough tier) single snapshots are enumerated completely
    res.notes.append(f"legacy (same barrier id) violations observed, as the _refuted theorems predict: {c.legacy_hits}")
    return res


def replay(ctx: Ctx, data):
    if data.get("public_fault"):
        from props import commit_common as cc
        root = ctx.scratch("c13r")
        sched = data["sched"] if isinstance(data["sched"], str) else tuple(data["sched"])
        fr, fn_ = data["fail_rank"], data["fail_nth"]
        world = cc.run_take(data["workload"], os.path.join(root, "snap"), "async", sched, data["seed"],
                            write_policy=lambda r, p, n: data["how"] if (r == fr and n == fn_) else None)
        shutil.rmtree(root, ignore_errors=True)
        quiet = [r for r in range(data["workload"]["W"]) if world.errors[r] is None]
        return Failure("C13:public:wait-returned-normally-after-a-failed-write", f"wait() returned normally on ranks {quiet}", data) if quiet else None
    if data.get("public"):
        world, r, errs = public_run(ctx, data["W"], data["policy"], 2, data.get("same_path", True), data.get("seed", 0))
        v = public_oracle(data["W"], world, r, errs, 2)
        return Failure(f"C13:{v[0][0]}", v[0][1], data) if v else None
    insts = [mk_inst(i["path"], i["bid"], i["iofail"], i["metafail"], i.get("absent", ())) for i in data["insts"]]
    run = run_scenario(data["W"], insts, data["mode"], from_choices(data["choices"]), data.get("timeouts", False))
    v = oracle(data["W"], insts, run, data.get("timeouts", False))
    return Failure(f"C13:{v[0][0]}", v[0][1], data) if v else None


MANIFEST = {
    "level_text": ("Machine-checked proof (Coq 8.16.1) over a transition-system model of LinearBarrier.arrive/depart/"
                   "report_error and PendingSnapshot._complete_snapshot (one store operation / I/O completion / metadata "
                   "write per step, arbitrary overlap of snapshot instances) that includes store.wait TIMEOUTS (a rank "
                   "about to wait may take a timeout step at any time, also spuriously; the exception is caught, "
                   "report_error writes the rank's error key, the rank ends Raised) and ranks ABSENT from the protocol. "
                   "Proved by an inductive invariant for every world size, fault plan, set of absent ranks, schedule "
                   "with arbitrarily many timeouts and history with pairwise distinct barrier prefixes: "
                   "commit-after-all-arrive and depart-after-commit (unchanged); error-reaches-everyone for a fault, an "
                   "absent rank or a timeout of the leader; after the commit only a peer's own depart timeout makes it "
                   "raise (and that case is a refutation witness: the snapshot is committed, the peer raises); no error "
                   "without a fault or a timeout; what a timeout step does in every continuation; absent rank => nobody "
                   "succeeds, nothing committed, leader-absent vs peer-absent; with timeouts no live rank is ever stuck, "
                   "executions are bounded, maximal executions and round-robin with fair timeouts end with every existing "
                   "thread finished; without timeouts, deadlock freedom and round-robin termination for the all-present "
                   "case; instance independence; the shared-prefix situation (before the per-snapshot barrier id) is "
                   "refuted by vm_compute witnesses. The model is tied to the source on every run by a fail-closed ast "
                   "translator (skeleton equality, wait sites, timeout arguments, handler structure by reflexivity) and by "
                   "step-by-step correspondence (operation, normal-enabled set, timeout-enabled set, outcomes, who timed "
                   "out) with the real LinearBarrier and _complete_snapshot running as threads under a deterministic "
                   "scheduler with a store whose wait can raise, over all interleavings for small worlds, plus "
                   "end-to-end async_take runs in the simulated world."),
    "level_note": ("Trusted: Coq kernel+VM, translator/gen_barrier.py, the deterministic thread scheduler and fake store "
                   "(atomic, sequentially consistent operations; wait may raise, set/get never do), the fakes for pending "
                   "I/O / storage. Assumes distinct 63-bit barrier ids per snapshot, atomic metadata write, timeouts "
                   "without a clock (any wait may raise at any time), report_error's store.set succeeds. No axioms."),
    "technique": "Coq invariant proofs over a protocol transition system + exhaustive-interleaving correspondence with the real threads",
    "design_ref": "DESIGN.md section 5, C13",
}
