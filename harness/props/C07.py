"""C07 - Who can load what: replicated everywhere, sharded reshards, private stays put.

Real code under test: torchsnapshot.manifest_ops.{get_manifest_for_rank, handle_sharded_tensor_elasticity} (with
_get_manifest_for_existing_rank, _get_manifest_for_new_rank, _get_rank_to_manifest,
_get_merged_sharded_tensor_entries, _remove_entry), partitioner.consolidate_replicated_entries and flatten.flatten /
flatten.inflate around them, and end to end Snapshot.take / Snapshot.restore / get_state_dict_for_key / read_object in
the simulated multi-rank world (lib.world).

Two models.  (1) The hand model coq/model/ManifestOps.v (paths as token lists, entries as values), about which the
property theorems are proved.  (2) gen/ManifestOpsGen.v: manifest_ops.py and the predicates of manifest_utils.py
regenerated STATEMENT BY STATEMENT from the current source on every run by translator/gen_manifest_ops.py, over the
Python-object vocabulary of coq/model/ManifestPy.v (global paths are strings, dicts are insertion-ordered association
lists of entry addresses, entry objects live in a heap so that in-place edits of DictEntry.keys and copy.deepcopy mean
what they mean in Python).  proofs/ManifestOpsGenInst.v proves per run (a) that computing any sequence of views from one
metadata object never writes to the metadata's own entry objects, and (b) that on well-formed metadata the generated
functions compute exactly the hand model; coq/props/C07.v restates the property theorems over the generated functions.
Both models are compared with the real code on every run.

NOT modelled / not exercised (also stated in the model headers):
  * DTensorEntry in the THEOREMS (the generated code contains _get_merged_dtensor_entries and is compared with the real
    code on DTensor metadata, but the hand model and hence the theorems assume there is no DTensorEntry); numpy's mesh
    slicing (_get_replicated_ranks) and _ReplicatedShards are hand-modelled (ManifestPy.np_replicated_ranks / rs_lookup;
    the translator pins their source text and fails closed when it changes);
  * the root-only elasticity knob in the THEOREMS (translated as a parameter and exercised in the correspondences;
    the theorems about elasticity are for the default, off; the non-mutation theorem holds for both settings);
  * negative rank arguments and rank prefixes >= world_size in the hand model (the generated model follows Python's
    negative indexing and raises as the code does; both are compared with the real code);
  * sharded tensors END TO END (they need a process group): they are covered at the manifest level in part (a)
    (real ShardedTensorEntry / Shard objects through the real manifest operations and the real inflate) and their
    data path by C08;
  * "irregular" state dicts in which a rank requests a sharded tensor whose parent containers it did not save
    (documented limitation in handle_sharded_tensor_elasticity's source comment): the generator keeps the parent
    containers of every sharded leaf on all ranks.
"""
from __future__ import annotations

import copy
from collections import OrderedDict

from lib import coqrun
from lib.core import Ctx, Failure, Mismatch, Result
from lib.tocoq import val

PROP = "C07"
PROPS_FILE = "props/C07.v"
GEN = ["gen_manifest_ops"]
CORRESPONDENCES = [
    "manifest:get_manifest_for_rank~model",
    "manifest:handle_sharded_tensor_elasticity~model",
    "manifest:perturbed-metadata~model",
    "wf:gathered-manifest~wf_globalb",
    "e2e:take-metadata/get_manifest_for_rank~model",
    "generated:model/ManifestOpsGenObs.v builds on the generated terms",
    "generated:views-from-one-metadata-object~g_get_manifest_for_rank+g_handle_sharded_tensor_elasticity",
    "generated:perturbed-and-dtensor-metadata~generated",
    "generated:_remove_entry~g_remove_entry",
    "generated:manifest_utils-predicates~generated",
    "hand-modelled:_get_replicated_ranks/_ReplicatedShards~np_replicated_ranks/rs_lookup",
    "e2e:take-metadata/views~generated",
]
RULE = ("(g) the generated terms (gen/ManifestOpsGen.v, evaluated by vm_compute inside coqc) against the real code: for every "
        "synthetic scenario of (a) the same queries run one after the other - new ranks first or shuffled - on ONE metadata "
        "object (per query: error outcome, the view after handle_sharded_tensor_elasticity in dict order with every entry's "
        "class, typed keys, replicated flag, shards, and merged_sd_entries; at the end the metadata object's own manifest); "
        "perturbed metadata; metadata with DTensorEntry leaves over 1-D/2-D/3-D meshes (sharded, partially, fully replicated) "
        "incl. negative rank arguments and the root-only knob on/off; malformed rank prefixes ('x1/..', '7/..', '-1/..', "
        "'+1/..', '01/..', no slash, empty logical path); _remove_entry called directly (absent path, root-level path, "
        "missing parent, twice); the six predicates of manifest_utils on entries of every class; the hand-modelled "
        "_get_replicated_ranks / _ReplicatedShards on random meshes and dim_maps; the metadata written by real takes. "
        "(a) synthetic snapshots: W in 1..6, 1-2 stateful keys, nested dict/OrderedDict/list structures (depth <= 4) whose "
        "leaves are replicated (all ranks, TensorEntry/PrimitiveEntry/ObjectEntry with replicated=True), private (per-rank "
        "subsets, replicated=False incl. ChunkedTensorEntry) or sharded (ShardedTensorEntry with 1-3 Shards per rank, "
        "offsets colliding across ranks), per-rank extra keys / sub-containers / list tails, per-rank key rotations, keys "
        "drawn from str (incl. '/', '%', '.', '..', '', unicode, digit strings), int and bool; the per-rank manifests are "
        "produced by the REAL flatten and merged by the REAL consolidate_replicated_entries exactly as _gather_manifest "
        "does (optionally through to_yaml/from_yaml); for every r' in 0..W+2 the real get_manifest_for_rank and, with a "
        "random request set (subsets of the sharded paths, plain and bogus paths), handle_sharded_tensor_elasticity are "
        "compared with the model (dict order, entry identity, typed container keys in order, merged shard order, error "
        "outcome) and the property is evaluated directly, also through the real inflate (what load_state_dict receives); "
        "perturbed metadata (dropped containers, misplaced replicated entries, foreign keys) is compared incl. the error "
        "outcome. (b) end to end in the simulated world: real Snapshot.take with W ranks then real restore / "
        "get_state_dict_for_key / read_object with W' ranks, (W, W') over 1..4 x 1..4 (quick) or sampled from 1..6 x 1..6 "
        "(thorough), replicated globs, private tensors / primitives / objects, per-rank extra keys. A case is non-trivial "
        "when its snapshot holds at least one replicated and one private leaf; distinct by content hash.")
TRUSTED = [
    "Coq 8.16.1 kernel and its vm_compute VM (no native_compute)",
    "translator/gen_manifest_ops.py (Python ast -> Gallina, fail closed; every function of manifest_ops.py, the predicates of "
    "manifest_utils.py, the attribute table of manifest.py's entry classes; class hierarchy from translator/gen_dispatch.py) and "
    "the vocabulary it targets, coq/model/ManifestPy.v: insertion-ordered dicts, a heap of entry objects, copy.deepcopy "
    "(copies every reachable entry once, keeps sharing), list.remove / list.append on DictEntry.keys as heap writes, "
    "Python's negative list indices, exceptions as None; hand-modelled there and compared on every run: numpy mesh slicing "
    "(_get_replicated_ranks), _ReplicatedShards, int() as [+-]?[0-9]+, urllib unquote below 0x80",
    "the abstraction of proofs/ManifestPySim.v (absG / absD / absE: strings split at '/', rank prefix parsed, entry classes "
    "mapped to container / replicated / private / sharded) through which the theorems about the hand model are read as "
    "theorems about the generated functions",
    "hand-written model coq/model/ManifestOps.v (+ model/Flatten.v for typed keys, str(key), _encode/_decode): now only the "
    "SPECIFICATION the generated functions are proved equal to (and still compared with the code by differential runs)",
    "harness/props/C07.py generators, canonicalisation (entries -> first-occurrence ids by dataclass repr) and lib/tocoq.py",
    "lib/world.py (ranks as threads, PGWrapper collectives patched) for the end-to-end part; CPython dict ordering, "
    "list.remove, sorted (stable) and urllib unquote are runtime: modelled and compared on every run, not verified",
]
ASSUMPTIONS = [
    "the gathered manifest is well formed (wf_globalb): rank prefixes in 0..W-1, paths unique per rank, dict keys distinct "
    "under Python equality and under str(), every non-root entry has its parent container in the same rank's manifest "
    "listing its key, replicated leaves appear once and under rank 0 only, app_state keys are non-empty - evaluated by "
    "the model on every real manifest of this run (flatten + consolidate_replicated_entries, and Snapshot.take)",
    "for the theorems that go through the hand model: DTensor entries are absent (meta_ok) and the root-only elasticity "
    "knob is off; the entries of a metadata object are pairwise distinct objects (what from_yaml / _gather_manifest build). "
    "C07_generated_views_do_not_mutate_metadata assumes none of this",
    "a rank requests a sharded tensor only below containers it saved itself (new ranks: below rank 0's containers) - the "
    "limitation documented in handle_sharded_tensor_elasticity",
    "replicated values are equal on all ranks at take time (the user's promise behind `replicated=`)",
]

IMPORTS = "From TS Require Import model.Flatten model.ManifestOps.\n"
GEN_IMPORTS = ("From TS Require Import model.Flatten model.ManifestOps model.Dispatch model.ManifestPy "
               "model.ManifestOpsGenObs.\n")
GEN_OK = {"ok": False, "detail": "not built"}

SIG_ESC = "C07:elasticity-add:escaped-key-not-delivered"
SIG_RETYPE = "C07:elasticity-add:nonstr-key-retyped"
SIG_LISTPARENT = "C07:elasticity-add:list-parent-raises"


# =========================================================================== specs
# A scenario is a json-able spec:
#   {"W": W, "yaml": 0|1, "statefuls": [[key_str, node], ...]}
# node:
#   ["R", n]                                  replicated leaf (every rank holds it, same entry)
#   ["P", n]                                  private leaf (every rank on which the edge exists has its own)
#   ["S", n, [[rank, [offsets, ...]], ...]]   sharded leaf: the ranks that hold local shards, with their offsets
#   ["l", [[node, ranks|None], ...]]          list; an edge exists on `ranks` (None = all ranks)
#   ["d", ordered, rot, [[key, node, ranks|None], ...]]   dict / OrderedDict; rot=1: rank r sees the keys rotated by r
# key: ["s", [code points]] | ["i", int] | ["b", 0|1]
def key_of(ks):
    t, v = ks
    if t == "s":
        return "".join(chr(c) for c in v)
    if t == "i":
        return int(v)
    return bool(v)


def S(s):
    return ["s", [ord(c) for c in s]]


STR_KEYS = ["a", "b", "w", "k", "a/b", "%", "x%2Fy", "a.b", ".", "..", "é", "日本", "0", "1", "True", "", "/", "%25", "p q"]
INT_KEYS = [0, 1, 3, -1, 10]
STATEFUL_KEYS = ["m", "opt", "a/b", "0", "ü", "x%y", "."]


class C07Leaf:
    """placeholder for a leaf object in a state dict (flatten treats anything that is not a list/dict as a leaf)"""
    __slots__ = ("kind", "n", "rank", "extra")

    def __init__(self, kind, n, rank, extra=None):
        self.kind, self.n, self.rank, self.extra = kind, n, rank, extra

    def __repr__(self):
        return f"<{self.kind}{self.n}@{self.rank}>"


class Gen:
    def __init__(self, rng, W, sharded=True):
        self.rng, self.W, self.n, self.budget, self.sharded = rng, W, 0, 0, sharded

    def fresh(self):
        self.n += 1
        return self.n

    def subset(self):
        r = self.rng
        k = r.randint(1, self.W)
        return sorted(r.sample(range(self.W), k))

    def keys(self, width):
        r = self.rng
        out, seen_str, seen_py = [], set(), []
        tries = 0
        while len(out) < width and tries < 40:
            tries += 1
            c = r.random()
            if c < 0.62:
                k = r.choice(STR_KEYS)
            elif c < 0.87:
                k = r.choice(INT_KEYS)
            else:
                k = r.choice([True, False])
            if str(k) in seen_str or any(k == q for q in seen_py):
                continue
            if k == "" and not self.sharded:
                continue           # end to end: the key '' aliases its parent's storage location (C05's subject)
            seen_str.add(str(k))
            seen_py.append(k)
            out.append(["b", int(k)] if isinstance(k, bool) else (["i", k] if isinstance(k, int) else S(k)))
        return out

    def leaf(self, restricted, in_list):
        r = self.rng
        c = r.random()
        if not restricted and c < 0.38:
            return ["R", self.fresh()]
        if self.sharded and not restricted and c < (0.50 if in_list else 0.62):
            holders = list(range(self.W)) if in_list else self.subset()     # list indices must agree across ranks
            nd = r.choice([1, 1, 2])
            sh = []
            for q in holders:
                offs = [[r.choice([0, 0, 1, 2, 4, q, 2 * q]) for _ in range(nd)] for _ in range(r.choice([1, 1, 2, 3]))]
                sh.append([q, offs])
            return ["S", self.fresh(), sh]
        return ["P", self.fresh()]

    def node(self, depth, restricted, in_list=False):
        r = self.rng
        self.budget -= 1
        if depth <= 0 or self.budget <= 0 or r.random() < 0.3:
            return self.leaf(restricted, in_list)
        width = r.choice([0, 1, 2, 2, 3, 3, 4])
        if r.random() < 0.28:
            items = [[self.node(depth - 1, restricted, True), None] for _ in range(width)]
            if self.W > 1 and r.random() < 0.4:
                rs = self.subset()
                items += [[self.node(depth - 1, True, True), rs] for _ in range(r.choice([1, 2]))]
            return ["l", items]
        kvs = []
        for k in self.keys(width):
            rs = None
            if self.W > 1 and r.random() < 0.3:
                rs = self.subset()
            kvs.append([k, self.node(depth - 1, restricted or rs is not None), rs])
        return ["d", int(r.random() < 0.35), int(self.W > 1 and r.random() < 0.15), kvs]

    def spec(self):
        r = self.rng
        self.n = 0
        sf = []
        for key in r.sample(STATEFUL_KEYS, r.choice([1, 1, 2])):
            self.budget = r.choice([5, 9, 14])
            depth = r.choice([1, 2, 3, 4])
            root = self.node(depth, False)
            if root[0] not in ("d",):          # a state_dict is a dict; keep the root a dict
                root = ["d", 0, 0, [[S("v"), root, None]]]
            sf.append([key, root])
        return {"W": self.W, "yaml": int(r.random() < 0.3), "statefuls": sf}


def corpus_specs():
    """fixed scenarios: the D14 witnesses, nested private-only containers, sharded leaves under every parent kind"""
    P = lambda n: ["P", n]
    R = lambda n: ["R", n]
    out = []
    # private leaves under keys with '/', '%', bool, int; replicated siblings (the _remove_entry fix, commit 489d382)
    out.append({"W": 1, "yaml": 0, "statefuls": [["m", ["d", 0, 0, [
        [S("a/b"), P(1), None], [S("%"), P(2), None], [["b", 1], P(3), None], [["i", 3], P(4), None], [S("r"), R(5), None],
        [S("."), P(6), None], [S(""), P(7), None], [S("Tru"), R(8), None]]]]]})
    out.append({"W": 2, "yaml": 1, "statefuls": [["m", ["d", 0, 0, [
        [S("rep"), R(1), None], [S("priv"), P(2), None],
        [S("nest"), ["d", 1, 0, [[S("a/b"), P(3), None], [S("r"), R(4), None], [["i", 3], P(5), [1]],
                                 [["b", 1], ["l", [[P(6), None], [R(7), None], [P(8), [1]]]], None]]], None],
        [S("only"), ["d", 0, 0, [[S("p"), P(9), None], [S("q"), ["l", [[P(10), None]]], None]]], None],
        [S("sh"), ["S", 11, [[0, [[2], [0]]], [1, [[1], [0]]]]], None],
        [S("s1"), ["S", 12, [[1, [[0, 0]]]]], None]]]]]})
    # sharded leaves under str / escaped / int / bool keys and inside a list, held by a subset of the ranks
    out.append({"W": 3, "yaml": 0, "statefuls": [["opt", ["d", 0, 0, [
        [S("w"), ["S", 1, [[0, [[0]]], [2, [[4]]]]], None], [S("a/b"), ["S", 2, [[1, [[0]]]]], None],
        [["i", 3], ["S", 3, [[0, [[1]]]]], None], [["b", 0], ["S", 4, [[2, [[0]]]]], None],
        [S("lst"), ["l", [[R(5), None], [["S", 6, [[0, [[0]]], [1, [[0]]]]], None]]], None], [S("r"), R(7), None]]]]]})
    # C07_elasticity_legacy_refuted's snapshot: a sharded tensor under the key 'a/b' and one inside a list, W = 1
    out.append({"W": 1, "yaml": 0, "statefuls": [["m", ["d", 0, 0, [
        [S("a/b"), ["S", 1, [[0, [[0]]]]], None], [S("l"), ["l", [[["S", 2, [[0, [[0]]]]], None]]], None]]]]]})
    return out


# --------------------------------------------------------------------------- spec -> per-rank python objects
def build_tree(node, rank, path_keys=()):
    t = node[0]
    if t == "R":
        return C07Leaf("R", node[1], None)
    if t == "P":
        return C07Leaf("P", node[1], rank)
    if t == "S":
        for q, offs in node[2]:
            if q == rank:
                return C07Leaf("S", node[1], rank, offs)
        return None                                        # this rank holds no shard: the key is absent
    if t == "l":
        out = []
        for child, rs in node[1]:
            if rs is not None and rank not in rs:
                continue
            v = build_tree(child, rank)
            if v is not None:
                out.append(v)
        return out
    _, ordered, rot, kvs = node
    items = []
    for k, child, rs in kvs:
        if rs is not None and rank not in rs:
            continue
        v = build_tree(child, rank)
        if v is not None:
            items.append((key_of(k), v))
    if rot and items:
        s = rank % len(items)
        items = items[s:] + items[:s]
    d = OrderedDict() if ordered else {}
    for k, v in items:
        d[k] = v
    return d


def leaf_entry(leaf, path, rank):
    from torchsnapshot.manifest import (ChunkedTensorEntry, ObjectEntry, PrimitiveEntry, Shard, ShardedTensorEntry,
                                        TensorEntry)

    def te(loc, rep):
        return TensorEntry(location=loc, serializer="buffer_protocol", dtype="torch.float32", shape=[2], replicated=rep)
    if leaf.kind == "S":
        return ShardedTensorEntry(shards=[
            Shard(offsets=list(o), sizes=[1] * len(o), tensor=te(f"sharded/{path}_{rank}_{j}", False))
            for j, o in enumerate(leaf.extra)])
    rep = leaf.kind == "R"
    loc = f"replicated/{path}" if rep else f"{rank}/{path}"
    k = leaf.n % 4
    if k == 0:
        return te(loc, rep)
    if k == 1:
        return PrimitiveEntry("int", str(1000 * leaf.n + (0 if rep else rank + 1)), rep)
    if k == 2:
        return ObjectEntry(location=loc, serializer="torch_save", obj_type="builtins.tuple", replicated=rep)
    if rep:
        return te(loc, rep)
    return ChunkedTensorEntry(dtype="torch.float32", shape=[4], replicated=False, chunks=[
        Shard(offsets=[0], sizes=[2], tensor=te(loc + "_0", False)), Shard(offsets=[2], sizes=[2], tensor=te(loc + "_2", False))])


class Scenario:
    """everything derived from a spec with the real flatten / consolidate_replicated_entries"""

    def __init__(self, spec):
        from torchsnapshot.flatten import flatten
        from torchsnapshot.manifest import SnapshotMetadata
        from torchsnapshot.partitioner import consolidate_replicated_entries
        self.spec = spec
        self.W = W = spec["W"]
        self.trees = []              # per rank: {stateful key: tree}
        manifests = []
        self.leaf_at = []            # per rank: {logical path: C07Leaf}
        self.replicated = {}         # logical path -> entry
        self.private = []            # (rank, logical path, entry)
        self.sharded = {}            # logical path -> {rank: entry}
        for r in range(W):
            trees, man, leaves, flat_all = {}, {}, {}, {}
            for key, node in sorted(spec["statefuls"], key=lambda kv: kv[0]):
                tree = build_tree(node, r)
                trees[key] = tree
                m, f = flatten(tree, prefix=key)
                man.update(m)
                flat_all.update(f)
            for p, leaf in flat_all.items():
                e = leaf_entry(leaf, p, r)
                man[p] = e
                leaves[p] = leaf
                if leaf.kind == "R":
                    self.replicated.setdefault(p, e)
                elif leaf.kind == "P":
                    self.private.append((r, p, e))
                else:
                    self.sharded.setdefault(p, {})[r] = e
            self.trees.append(trees)
            self.leaf_at.append(leaves)
            manifests.append(man)
        manifests = consolidate_replicated_entries(rank_to_entries=manifests)     # as Snapshot._gather_manifest
        gm = {}
        for r, man in enumerate(manifests):
            for p, e in man.items():
                gm[f"{r}/{p}"] = e
        md = SnapshotMetadata(version="0.0.0", world_size=W, manifest=gm)
        if spec.get("yaml"):
            md = SnapshotMetadata.from_yaml(md.to_yaml())
        self.metadata = md


# =========================================================================== canonicalisation, model terms
class Uids:
    def __init__(self):
        self.t = {}

    def __call__(self, obj):
        return self.t.setdefault(repr(obj), len(self.t) + 1)


def key_obs(k):
    if isinstance(k, str):
        return [0, [ord(c) for c in k]]
    if isinstance(k, bool):
        return [2, int(k)]
    if isinstance(k, int):
        return [1, k]
    return [9]


def key_term(k):
    if isinstance(k, str):
        return "(KStr [" + "; ".join(str(ord(c)) for c in k) + "])"
    if isinstance(k, bool):
        return "(KBool true)" if k else "(KBool false)"
    if isinstance(k, int):
        return f"(KInt ({k}))"
    raise TypeError(f"key {k!r} is not str/int/bool")


def s_term(s):
    return "[" + "; ".join(str(ord(c)) for c in s) + "]"


def path_term(p: str):
    return "[" + "; ".join(s_term(t) for t in p.split("/")) + "]"


def path_obs(p: str):
    return [[ord(c) for c in t] for t in p.split("/")]


def entry_obs(e, uid):
    from torchsnapshot.manifest import DictEntry, ListEntry, OrderedDictEntry, ShardedTensorEntry
    if isinstance(e, ListEntry):
        return [0]
    if isinstance(e, OrderedDictEntry):
        return [2, [key_obs(k) for k in e.keys]]
    if isinstance(e, DictEntry):
        return [1, [key_obs(k) for k in e.keys]]
    if isinstance(e, ShardedTensorEntry):
        return [5, [[list(s.offsets), uid(s)] for s in e.shards]]
    return [3 if getattr(e, "replicated", False) is True else 4, uid(e)]


def entry_term(e, uid):
    from torchsnapshot.manifest import DictEntry, ListEntry, OrderedDictEntry, ShardedTensorEntry
    if isinstance(e, ListEntry):
        return "(MCont EList)"
    if isinstance(e, (DictEntry, OrderedDictEntry)):
        return ("(MCont (EDict " + ("true" if isinstance(e, OrderedDictEntry) else "false") + " [" +
                "; ".join(key_term(k) for k in e.keys) + "]))")
    if isinstance(e, ShardedTensorEntry):
        return ("(MShard [" + "; ".join("([" + "; ".join(f"({o})" for o in s.offsets) + "], " + str(uid(s)) + ")"
                                         for s in e.shards) + "])")
    return f"({'MRepl' if getattr(e, 'replicated', False) is True else 'MPriv'} {uid(e)})"


def gman_term(md, uid):
    items = []
    for p, e in md.manifest.items():
        rk, _, logical = p.partition("/")
        assert str(int(rk)) == rk and int(rk) >= 0
        items.append(f"({int(rk)}, {path_term(logical)}, {entry_term(e, uid)})")
    return "[" + ";\n   ".join(items) + "]"


def man_obs(m, uid):
    return [[path_obs(p), entry_obs(e, uid)] for p, e in m.items()]


def merged_obs(merged, uid):
    return [[path_obs(p), [[list(s.offsets), uid(s)] for s in e.shards]] for p, e in merged.items()]


# =========================================================================== running the real code
def real_get(md, rank):
    from torchsnapshot.manifest_ops import get_manifest_for_rank
    try:
        m, merged = get_manifest_for_rank(metadata=md, rank=rank)
        return m, merged, None
    except Exception as e:  # noqa
        return None, None, e


def real_merged(md):
    """merged_sd_entries does not depend on the branch taken: read it from a call that cannot fail"""
    from torchsnapshot.manifest_ops import _get_merged_sharded_tensor_entries, _get_rank_to_manifest
    return _get_merged_sharded_tensor_entries(_get_rank_to_manifest(metadata=md))


def real_load_view(md, rank, reqs):
    from torchsnapshot.manifest_ops import get_manifest_for_rank, handle_sharded_tensor_elasticity
    try:
        m, merged = get_manifest_for_rank(metadata=md, rank=rank)
    except Exception as e:  # noqa
        return None, ("get", e)
    try:
        handle_sharded_tensor_elasticity(manifest=m, merged_sd_entries=merged, tensor_requests=list(reqs))
    except Exception as e:  # noqa
        return None, ("elasticity", e)
    return m, None


def pick_requests(rng, sc: Scenario, rank):
    """what _load_stateful would pass: paths of tensors in the restoring rank's state dict"""
    reqs = []
    sp = sorted(sc.sharded)
    mode = rng.choice(["all", "none", "own", "rand", "rand"])
    for p in sp:
        own = rank in sc.sharded[p]
        if mode == "all" or (mode == "own" and own) or (mode == "rand" and rng.random() < 0.5):
            reqs.append(p)
    others = sorted(sc.replicated) + sorted({p for _, p, _ in sc.private})
    for p in rng.sample(others, min(len(others), rng.choice([0, 1, 2]))):
        reqs.append(p)
    if rng.random() < 0.3:
        reqs.append("m/nowhere")
    rng.shuffle(reqs)
    if reqs and rng.random() < 0.15:
        reqs.append(reqs[0])
    return reqs


# =========================================================================== direct oracle
def tk(k):
    return (type(k).__name__, k)


def typed_key_for_token(sc: Scenario, parent_path: str, token: str):
    """the key flatten() used on some saving rank for the child `token` of the dict at parent_path"""
    from torchsnapshot.flatten import _encode
    for r in range(sc.W):
        e = sc.metadata.manifest.get(f"{r}/{parent_path}")
        if e is not None and hasattr(e, "keys"):
            for k in e.keys:
                if _encode(str(k)) == token:
                    return k
    return None


def expected_structure(sc: Scenario, rank, reqs, uid):
    """What the property promises load_state_dict receives on restoring rank `rank`, from the generator's ground
    truth: the rank's own saved tree (rank 0's for a new rank) with private leaves kept only for their owner,
    sharded leaves kept iff requested, containers kept.  Nodes: ("leaf", uid) | ("S", path) | ["L", path, [(index, node)]] |
    ["D", ordered, path, [(key, node)]].  Returns ({stateful key: node}, added) where `added` maps a parent path to
    [(typed key, path)] for requested sharded tensors this rank did not save."""
    from torchsnapshot.flatten import _encode
    W = sc.W
    base = rank if rank < W else 0
    reqset = {p for p in reqs if p in sc.sharded}

    def walk(o, path):
        if isinstance(o, C07Leaf):
            if o.kind == "R":
                return ("leaf", uid(sc.replicated[path]))
            if o.kind == "P":
                if rank < W:
                    e = next(e for (q, p, e) in sc.private if q == rank and p == path)
                    return ("leaf", uid(e))
                return None
            # a new rank's view is built from rank 0's manifest with every sharded entry removed; a requested one is
            # added back by handle_sharded_tensor_elasticity (at the end of the parent's keys): see `added`
            return ("S", path) if (path in reqset and rank < W) else None
        if isinstance(o, list):
            return ["L", path, [(i, v) for i, v in ((i, walk(x, f"{path}/{i}")) for i, x in enumerate(o)) if v is not None]]
        kvs = [(k, walk(x, f"{path}/{_encode(str(k))}")) for k, x in o.items()]
        return ["D", isinstance(o, OrderedDict), path, [(k, v) for k, v in kvs if v is not None]]
    exp = {key: walk(tree, _encode(key)) for key, tree in sc.trees[base].items()}
    added, seen = {}, set()
    for p in reqs:
        if p in reqset and (rank >= W or p not in sc.leaf_at[base]) and p not in seen:
            seen.add(p)
            parent, _, tok = p.rpartition("/")
            added.setdefault(parent, []).append((typed_key_for_token(sc, parent, tok), p))
    return exp, added


def strip_none(o):
    """inflate leaves None under a key whose value was not delivered when the container received no child at all
    (dict.fromkeys); an undelivered leaf is simply 'not delivered' for the property"""
    if isinstance(o, list):
        return [strip_none(x) for x in o]
    if isinstance(o, (dict, OrderedDict)):
        d = OrderedDict() if isinstance(o, OrderedDict) else {}
        for k, v in o.items():
            if v is not None:
                d[k] = strip_none(v)
        return d
    return o


def compare_structure(actual, node, added, out):
    """appends (signature, description); `added`: parent path -> [(typed key, leaf path)] expected in addition to
    the node's own keys, at any position (the code appends them)"""
    from urllib.parse import unquote
    if isinstance(node, tuple):
        if actual != node:
            out.append(("C07:delivered-structure:leaf", f"expected {node}, got {ascii(actual)[:80]}"))
        return
    if node[0] == "L":
        _, path, items = node
        # a list keeps the saved order of whatever is delivered; a re-added sharded item sits at its saved index
        items = [v for _, v in sorted(items + [(int(p.rpartition("/")[2]), ("S", p)) for _, p in added.get(path, [])],
                                      key=lambda iv: iv[0])]
        if type(actual) is not list:
            out.append(("C07:delivered-structure:container-type", f"{path}: list became {type(actual).__name__}"))
        elif len(actual) != len(items):
            out.append(("C07:delivered-structure:list-length", f"{path}: expected {len(items)} items, got {len(actual)}"))
        else:
            for a, e in zip(actual, items):
                compare_structure(a, e, added, out)
        return
    _, ordered, path, kvs = node
    if type(actual) is not (OrderedDict if ordered else dict):
        out.append(("C07:delivered-structure:container-type",
                    f"{path}: {'OrderedDict' if ordered else 'dict'} became {type(actual).__name__}"))
        return
    extra = added.get(path, [])
    extra_tk = [tk(k) for k, _ in extra]
    akeys = list(actual.keys())
    ekeys = [k for k, _ in kvs]
    # a key the code re-added as a str although it was saved with another type is reported once, below
    retyped = [p.rpartition("/")[2] for k, p in extra if not isinstance(k, str) and tk(k) not in [tk(q) for q in akeys]]
    base_keys = [k for k in akeys if tk(k) not in extra_tk and not (isinstance(k, str) and k in retyped)]
    if [tk(k) for k in base_keys] != [tk(k) for k in ekeys]:
        a, e = sorted(map(ascii, map(tk, base_keys))), sorted(map(ascii, map(tk, ekeys)))
        out.append(("C07:delivered-structure:" + ("key-order" if a == e else "key-set"),
                    f"{path}: expected keys {ascii(ekeys)}, got {ascii(base_keys)}"))
    for k, p in extra:
        tok = p.rpartition("/")[2]
        if tk(k) in [tk(q) for q in akeys]:
            if actual[k] != ("S", p):
                out.append(("C07:delivered-structure:leaf", f"{path}[{k!r}]: expected the sharded tensor {p!r}, got {ascii(actual[k])[:80]}"))
        elif not isinstance(k, str) and tok in [q for q in akeys if isinstance(q, str)]:
            out.append((SIG_RETYPE, f"requested sharded tensor {p!r}, saved under the {type(k).__name__} key {k!r}, is delivered "
                                    f"under the str key {tok!r}"))
        elif unquote(tok) != tok:
            out.append((SIG_ESC, f"requested sharded tensor {p!r} (key {k!r}) is not delivered: the parent's keys got the "
                                 f"encoded component {tok!r}, which inflate does not match; keys received: {ascii(akeys)}"))
        else:
            out.append(("C07:sharded-not-delivered", f"requested sharded tensor {p!r} (key {k!r}) is not delivered; keys "
                                                     f"received: {ascii(akeys)}"))
    for k, e in kvs:
        if tk(k) in [tk(q) for q in akeys]:
            compare_structure(actual[k], e, added, out)


def inflate_view(m, uid):
    """the real inflate on the rank's view, every leaf replaced by a token: what load_state_dict would receive"""
    from torchsnapshot.flatten import _decode, inflate
    from torchsnapshot.manifest import ShardedTensorEntry
    from torchsnapshot.manifest_utils import is_container_entry
    cont = {p: e for p, e in m.items() if is_container_entry(e)}
    flat = {p: (("S", p) if isinstance(e, ShardedTensorEntry) else ("leaf", uid(e)))
            for p, e in m.items() if not is_container_entry(e)}
    out = {}
    for enc in sorted({p.split("/")[0] for p in m}):
        key = _decode(enc)
        out[key] = inflate(cont, flat, prefix=key)
    return out


def oracle_synthetic(sc: Scenario, rank, reqs, uid):
    """the property evaluated on the real code for one restoring rank; list of (signature, what)"""
    from torchsnapshot.manifest import ListEntry, ShardedTensorEntry
    fails = []
    W = sc.W
    m, merged, err = real_get(sc.metadata, rank)
    if err is not None:
        return [(f"C07:get_manifest_for_rank-raises:{type(err).__name__}:{'new' if rank >= W else 'existing'}-rank",
                 f"get_manifest_for_rank(rank={rank}) on a W={W} snapshot raised {type(err).__name__}: {ascii(str(err))[:160]}")]
    # replicated visible everywhere with the saved entry
    for p, e in sc.replicated.items():
        if m.get(p) != e:
            fails.append(("C07:replicated-not-visible", f"rank {rank} (W={W}): replicated {p!r} is "
                          f"{'absent' if p not in m else 'a different entry'} in its local manifest"))
    # private only to the owner
    seen = {uid(v) for v in m.values()}
    for (r, p, e) in sc.private:
        if r == rank:
            if m.get(p) != e:
                fails.append(("C07:private-missing-for-owner", f"rank {rank}: its own private {p!r} is not in its manifest"))
        elif uid(e) in seen:
            fails.append(("C07:private-delivered-to-foreign-rank",
                          f"rank {rank} (W={W}) received the private entry {p!r} saved by rank {r}"))
    # containers of an existing rank unchanged; a new rank gets rank 0's containers (types; keys a subsequence)
    base = rank if rank < W else 0
    for gp, e in sc.metadata.manifest.items():
        rk, _, p = gp.partition("/")
        if int(rk) != base or not hasattr(e, "type") or e.type not in ("list", "dict", "OrderedDict"):
            continue
        got = m.get(p)
        if got is None or type(got) is not type(e):
            fails.append(("C07:container-type-changed", f"rank {rank}: container {p!r} {type(e).__name__} -> {type(got).__name__}"))
        elif hasattr(e, "keys"):
            if rank < W and [tk(k) for k in got.keys] != [tk(k) for k in e.keys]:
                fails.append(("C07:container-keys-changed", f"rank {rank}: keys of {p!r} {e.keys!a} -> {got.keys!a}"))
            if rank >= W:
                it = iter([tk(k) for k in e.keys])
                if not all(any(x == y for y in it) for x in [tk(k) for k in got.keys]):
                    fails.append(("C07:container-key-order", f"new rank {rank}: keys of {p!r} {e.keys!a} -> {got.keys!a}"))
    # sharded: visible entries are the merged ones
    for p, byrank in sc.sharded.items():
        allsh = [s for r in sorted(byrank) for s in byrank[r].shards]
        me = merged.get(p)
        if me is None or sorted(map(repr, me.shards)) != sorted(map(repr, allsh)) or \
                any(a.offsets > b.offsets for a, b in zip(me.shards, me.shards[1:])):
            fails.append(("C07:sharded-merge", f"merged entry of {p!r} is not all ranks' shards sorted by offsets"))
        if p in m and m[p] != me:
            fails.append(("C07:sharded-not-merged", f"rank {rank}: visible sharded entry {p!r} is not the merged entry"))
    # after elasticity: present iff requested; delivered through inflate under the right key
    m2, err = real_load_view(sc.metadata, rank, reqs)
    exp, added = expected_structure(sc, rank, reqs, uid)
    if err is not None:
        stage, e = err
        lp = [p for ps in added.values() for _, p in ps
              if isinstance(sc.metadata.manifest.get(f"{base}/{p.rpartition('/')[0]}"), ListEntry)]
        if stage == "elasticity" and isinstance(e, AttributeError) and lp:
            fails.append((SIG_LISTPARENT, f"rank {rank} (W={W}) requests the sharded tensor {lp[0]!r} it did not save; its "
                          f"parent is a list: handle_sharded_tensor_elasticity raised AttributeError: {e}"))
        else:
            fails.append((f"C07:elasticity-raises:{type(e).__name__}", f"rank {rank} (W={W}) reqs={reqs!a}: "
                          f"{stage} raised {type(e).__name__}: {ascii(str(e))[:160]}"))
        return fails
    reqset = {p for p in reqs if p in sc.sharded}
    for p in sc.sharded:
        present = isinstance(m2.get(p), ShardedTensorEntry)
        if present != (p in reqset):
            fails.append(("C07:sharded-presence", f"rank {rank} (W={W}): sharded {p!r} requested={p in reqset} present={present}"))
        elif present and m2[p] != merged.get(p):
            fails.append(("C07:sharded-not-merged", f"rank {rank}: sharded entry {p!r} after elasticity is not the merged entry"))
    try:
        got = inflate_view(m2, uid)
    except Exception as e:  # noqa
        fails.append((f"C07:inflate-raises:{type(e).__name__}", f"rank {rank}: inflate of the local view raised {e!a}"[:300]))
        return fails
    for key, e in exp.items():
        diffs = []
        if key not in got:
            diffs.append(("C07:delivered-structure:stateful-missing", f"stateful {key!r} not in the view"))
        else:
            compare_structure(strip_none(got[key]), e, added, diffs)
        for sig, what in diffs:
            fails.append((sig, f"rank {rank} (W={W}) reqs={reqs!a}: {what}"))
    return fails


# =========================================================================== perturbed metadata (model incl. errors)
def perturb(rng, md):
    from torchsnapshot.manifest import DictEntry, ListEntry, OrderedDictEntry, SnapshotMetadata
    man = copy.deepcopy(md.manifest)
    paths = list(man)
    tag = rng.choice(["drop-container", "drop-leaf", "move-replicated", "foreign-key", "dup-py-key", "kind", "reorder",
                      "replicate-private", "drop-key"])
    cont = [p for p in paths if isinstance(man[p], (ListEntry, DictEntry, OrderedDictEntry))]
    dicts = [p for p in cont if not isinstance(man[p], ListEntry)]
    leaves = [p for p in paths if p not in cont]
    if tag == "drop-container" and cont:
        del man[rng.choice(cont)]
    elif tag == "drop-leaf" and leaves:
        del man[rng.choice(leaves)]
    elif tag == "move-replicated":
        reps = [p for p in leaves if getattr(man[p], "replicated", False)]
        if reps and md.world_size > 1:
            p = rng.choice(reps)
            man[f"{rng.randrange(1, md.world_size)}/{p.partition('/')[2]}"] = man.pop(p)
    elif tag == "foreign-key" and dicts:
        p = rng.choice(dicts)
        man[p].keys.insert(rng.randint(0, len(man[p].keys)), rng.choice(["zz", 7, "a%2Fb", False]))
    elif tag == "dup-py-key" and dicts:
        p = rng.choice(dicts)
        ks = man[p].keys
        if ks:
            k = rng.choice(ks)
            alt = int(k) if isinstance(k, bool) else (bool(k) if isinstance(k, int) and k in (0, 1) else str(k))
            ks.insert(rng.randint(0, len(ks)), alt)
    elif tag == "kind" and cont:
        p = rng.choice(cont)
        man[p] = DictEntry(keys=[]) if isinstance(man[p], ListEntry) else ListEntry()
    elif tag == "replicate-private":
        pr = [p for p in leaves if getattr(man[p], "replicated", None) is False]
        if pr:
            man[rng.choice(pr)].replicated = True
    elif tag == "drop-key" and dicts:
        p = rng.choice(dicts)
        if man[p].keys:
            man[p].keys.pop(rng.randrange(len(man[p].keys)))
    items = list(man.items())
    if tag == "reorder" or rng.random() < 0.3:
        rng.shuffle(items)
    return tag, SnapshotMetadata(version="0.0.0", world_size=md.world_size, manifest=dict(items))


# =========================================================================== (a) synthetic metadata
def case_terms(md, uid, queries):
    """one model case = one snapshot with all its (rank, requests) queries"""
    g = gman_term(md, uid)
    W = md.world_size
    gets, views = [], []
    merged = merged_obs(real_merged(md), uid)
    for rank, reqs in queries:
        m, _, err = real_get(md, rank)
        gets.append([None if err is not None else [man_obs(m, uid)], merged])
        m2, err2 = real_load_view(md, rank, reqs)
        views.append(None if err2 is not None else [man_obs(m2, uid)])
    qs = "[" + "; ".join(f"({r}, [" + "; ".join(path_term(p) for p in reqs) + "])" for r, reqs in queries) + "]"
    return f"({W}, {g}, {qs})", gets, views


GET_FN = ("(fun x : Z * gman * list (Z * list path) => let '(W, g, qs) := x in "
          "VL (map (fun q => obs_get_manifest (W, g, fst q)) qs))")
VIEW_FN = ("(fun x : Z * gman * list (Z * list path) => let '(W, g, qs) := x in "
           "VL (map (fun q => obs_load_view (W, g, fst q, snd q)) qs))")
WF_FN = "(fun x : Z * gman * list (Z * list path) => let '(W, g, qs) := x in obs_wf (W, g))"


def spec_stats(spec, res):
    acc = {"R": 0, "P": 0, "S": 0, "l": 0, "d": 0, "restricted": 0, "depth": 0}

    def walk(n, d):
        acc["depth"] = max(acc["depth"], d)
        acc[n[0]] += 1
        if n[0] == "l":
            for c, rs in n[1]:
                acc["restricted"] += rs is not None
                walk(c, d + 1)
        elif n[0] == "d":
            for k, c, rs in n[3]:
                acc["restricted"] += rs is not None
                res.count("a.key_kind", {"s": "str", "i": "int", "b": "bool"}[k[0]] +
                          ("-escaped" if k[0] == "s" and any(c in (37, 47) for c in k[1]) else ""))
                walk(c, d + 1)
    for _, root in spec["statefuls"]:
        walk(root, 0)
    return acc


def synthetic_specs(ctx: Ctx):
    rng = ctx.rng
    for sp in corpus_specs():
        yield "corpus", sp
    for i in range(ctx.n(110, 2400)):
        W = rng.choice([1, 2, 2, 3, 3, 4, 5, 6])
        yield "random", Gen(rng, W).spec()


def record(res, fails, replay):
    for sig, what in fails:
        res.failures.append(Failure(sig, what, replay))


def check_synthetic(ctx: Ctx, res: Result, with_model: bool):
    rng = ctx.rng
    c_get, c_view, c_wf, c_mal_get, c_mal_view = [], [], [], [], []
    c_gen, c_gen_mal = [], []
    meta, meta_mal, meta_gen, meta_gen_mal = [], [], [], []
    for origin, spec in synthetic_specs(ctx):
        sc = Scenario(spec)
        uid = Uids()
        W = sc.W
        st = spec_stats(spec, res)
        res.count("a.origin", origin)
        res.count("a.W", W)
        res.count("a.depth", st["depth"])
        res.count("a.leaves", f"R{min(st['R'], 3)}P{min(st['P'], 3)}S{min(st['S'], 3)}")
        res.count("a.rank_restricted_edges", min(st["restricted"], 4))
        res.case({"kind": "synthetic", "spec": spec}, nontrivial=bool(sc.replicated) and bool(sc.private))
        queries = []
        first_pass = {}
        for rank in range(W + 3):
            reqs = pick_requests(rng, sc, rank)
            queries.append((rank, reqs))
            res.count("a.rank_class", "existing" if rank < W else "new")
            fails = oracle_synthetic(sc, rank, reqs, uid)
            first_pass[rank] = {sig for sig, _ in fails}
            record(res, fails, {"kind": "synthetic", "spec": spec, "rank": rank, "reqs": reqs})
            for sig, _ in fails:
                res.count("a.failure_signature", sig)
        # the views are computed again on the SAME metadata object, new ranks first: computing one rank's view
        # must not disturb what another rank is given afterwards (one Snapshot object serves several calls)
        for rank, reqs in reversed(queries):
            fails = [(sig, msg) for sig, msg in oracle_synthetic(sc, rank, reqs, uid) if sig not in first_pass.get(rank, set())]
            record(res, [(sig + ":after-other-ranks-views", msg) for sig, msg in fails],
                   {"kind": "synthetic", "spec": spec, "rank": rank, "reqs": reqs, "order": "descending-second-pass"})
        if not with_model:
            continue
        inp, gets, views = case_terms(sc.metadata, uid, queries)
        c_get.append((inp, val(gets)))
        c_view.append((inp, val(views)))
        c_wf.append((inp, val(True)))
        meta.append(spec)
        for v in views:
            res.count("a.view_outcome", "exception" if v is None else "manifest")
        if GEN_OK["ok"] and (not ctx.thorough or origin == "corpus" or len(meta) % 4 == 0):
            # the generated terms: the same queries, new ranks first or shuffled, on ONE metadata object
            # (thorough tier: every fourth scenario - the literals are large)
            order = list(reversed(queries)) if len(c_gen) % 2 == 0 else rng.sample(queries, len(queries))
            c_gen.append(gen_views_case(sc.metadata, uid, order, False))
            meta_gen.append(spec)
        # perturbed metadata: correspondence only (the well-formedness the theorems assume does not hold)
        if origin == "random" and rng.random() < 0.6:
            tag, md2 = perturb(rng, sc.metadata)
            uid2 = Uids()
            q2 = [(r, pick_requests(rng, sc, r)) for r in rng.sample(range(W + 2), min(W + 2, 3))]
            try:
                inp2, gets2, views2 = case_terms(md2, uid2, q2)
            except (TypeError, AssertionError):
                res.count("a.perturbed_skipped", tag)
                continue
            res.count("a.perturbed", tag)
            for gres in gets2:
                res.count("a.perturbed_outcome", "exception" if gres[0] is None else "manifest")
            c_mal_get.append((inp2, val(gets2)))
            c_mal_view.append((inp2, val(views2)))
            meta_mal.append((tag, spec))
            if GEN_OK["ok"] and (not ctx.thorough or len(meta_mal) % 4 == 0):
                c_gen_mal.append(gen_views_case(md2, uid2, q2, False))
                meta_gen_mal.append((tag, spec))
    if not with_model:
        return
    ty = "Z * gman * list (Z * list path)"
    for name, tag, fn, cases, mt in (
            ("manifest:get_manifest_for_rank~model", "C07_get", GET_FN, c_get, meta),
            ("manifest:handle_sharded_tensor_elasticity~model", "C07_view", VIEW_FN, c_view, meta),
            ("wf:gathered-manifest~wf_globalb", "C07_wf", WF_FN, c_wf, meta),
            ("manifest:perturbed-metadata~model", "C07_malg", GET_FN, c_mal_get, meta_mal),
            ("manifest:perturbed-metadata~model", "C07_malv", VIEW_FN, c_mal_view, meta_mal)):
        bad, errs = coqrun.run_cases(tag, IMPORTS, fn, cases, shard=25, in_type=ty)
        for e in errs:
            res.mismatches.append(Mismatch(name, "coqc error", None, e))
        for i in bad:
            res.mismatches.append(Mismatch(name, {"case": mt[i], "input": cases[i][0][:1500]}, cases[i][1][:1500], None))
        res.traces_validated += len(cases)
    run_gen(res, CORRESPONDENCES[6], "C07_gv", "obs_views_gen", c_gen, GEN_VIEWS_TY, meta_gen, shard=20)
    run_gen(res, CORRESPONDENCES[7], "C07_gmal", "obs_views_gen", c_gen_mal, GEN_VIEWS_TY, meta_gen_mal, shard=20)


# =========================================================================== the generated terms (gen/ManifestOpsGen.v)
# The functions regenerated from manifest_ops.py / manifest_utils.py work on strings (global paths "<rank>/<logical path>"),
# on insertion-ordered dicts and on entry OBJECTS in a heap: an input is the metadata object's manifest, item by item
# (path string, entry object), and a sequence of queries that are run one after the other on that ONE metadata object -
# exactly what a Snapshot object does for several restore / read calls.
ECLS = {"Entry": (0, "EEntry"), "TensorEntry": (1, "ETensor"), "ShardedTensorEntry": (2, "ESharded"),
        "ChunkedTensorEntry": (3, "EChunked"), "DTensorEntry": (4, "EDTensor"), "ObjectEntry": (5, "EObject"),
        "ListEntry": (6, "EList"), "DictEntry": (7, "EDict"), "OrderedDictEntry": (8, "EOrderedDict"),
        "PrimitiveEntry": (9, "EPrimitive")}


def zl(xs):
    return "[" + "; ".join(f"({int(x)})" if int(x) < 0 else str(int(x)) for x in xs) + "]"


def mesh_of(e):
    import numpy as np
    a = np.array(e.mesh)
    return [int(x) for x in a.shape], [int(x) for x in a.flatten()]


def pentry_parts(e, uid):
    name = type(e).__name__
    if name not in ECLS:
        raise TypeError(f"not an entry class: {name}")
    keys = list(e.keys) if name in ("DictEntry", "OrderedDictEntry") else []
    has_repl = name in ("TensorEntry", "ChunkedTensorEntry", "ObjectEntry", "PrimitiveEntry")
    repl = bool(e.replicated) if has_repl else False
    if has_repl and e.replicated not in (True, False):
        raise TypeError("non-bool replicated")
    shards = list(e.shards) if name in ("ShardedTensorEntry", "DTensorEntry") else []
    dim_map = [list(d) for d in e.dim_map] if name == "DTensorEntry" else []
    shape, flat = mesh_of(e) if name == "DTensorEntry" else ([], [])
    ident = uid(e) if has_repl else 0
    return name, keys, has_repl, repl, shards, dim_map, shape, flat, ident


def pentry_term(e, uid):
    name, keys, has_repl, repl, shards, dim_map, shape, flat, ident = pentry_parts(e, uid)
    return ("(mkE Dispatch." + ECLS[name][1] + " [" + "; ".join(key_term(k) for k in keys) + "] " + ("true" if repl else "false") +
            " [" + "; ".join(f"({zl(sh.offsets)}, {uid(sh)})" for sh in shards) + "] [" + "; ".join(zl(d) for d in dim_map) +
            f"] ({zl(shape)}, {zl(flat)}) {ident})")


def pentry_obs(e, uid):
    name, keys, has_repl, repl, shards, dim_map, shape, flat, ident = pentry_parts(e, uid)
    return [ECLS[name][0], [key_obs(k) for k in keys], (int(repl) if has_repl else -1),
            [[list(sh.offsets), uid(sh)] for sh in shards], dim_map, shape, flat, ident]


def items_term(d, uid):
    return "[" + ";\n   ".join(f"({s_term(p)}, {pentry_term(e, uid)})" for p, e in d.items()) + "]"


def items_obs(d, uid):
    return [[[ord(c) for c in p], pentry_obs(e, uid)] for p, e in d.items()]


def set_knob(on):
    import os
    name = "TORCHSNAPSHOT_ENABLE_SHARDED_TENSOR_ELASTICITY_ROOT_ONLY"
    old = os.environ.get(name)
    if on:
        os.environ[name] = "1"
    else:
        os.environ.pop(name, None)
    return old


def restore_knob(old):
    import os
    name = "TORCHSNAPSHOT_ENABLE_SHARDED_TENSOR_ELASTICITY_ROOT_ONLY"
    if old is None:
        os.environ.pop(name, None)
    else:
        os.environ[name] = old


GEN_STATS = {}


def gen_views_case(md, uid, queries, knob):
    """(model input, expected observation): the real get_manifest_for_rank + handle_sharded_tensor_elasticity for every
    query in turn on ONE private copy of the metadata object, then that object's manifest"""
    from torchsnapshot.manifest_ops import get_manifest_for_rank, handle_sharded_tensor_elasticity
    md = copy.deepcopy(md)
    inp_items = items_term(md.manifest, uid)
    results = []
    old = set_knob(knob)
    try:
        for rank, reqs in queries:
            try:
                m, merged = get_manifest_for_rank(metadata=md, rank=rank)
            except Exception:  # noqa
                results.append([0])
                continue
            before = items_obs(m, uid)
            try:
                handle_sharded_tensor_elasticity(manifest=m, merged_sd_entries=merged, tensor_requests=list(reqs))
                results.append([2, items_obs(m, uid), items_obs(merged, uid)])
            except Exception:  # noqa
                results.append([1, before, items_obs(merged, uid)])
    finally:
        restore_knob(old)
    for (rank, _), r in zip(queries, results):
        k = (("negative" if rank < 0 else "existing" if rank < md.world_size else "new") + "-rank:" +
             ["get_manifest_for_rank raised", "elasticity raised", "view"][r[0]])
        GEN_STATS[k] = GEN_STATS.get(k, 0) + 1
    qs = "[" + "; ".join(f"({r}, [" + "; ".join(s_term(p) for p in reqs) + "])" for r, reqs in queries) + "]"
    inp = f"({md.world_size}, {inp_items}, {qs}, {'true' if knob else 'false'})"
    return inp, val([results, items_obs(md.manifest, uid)])


GEN_VIEWS_TY = "Z * list (pystr * pentry) * list (Z * list pystr) * bool"


def dtensor_metadata(rng):
    """synthetic metadata with DTensorEntry leaves (1-D / 2-D device meshes; sharded, partially and fully replicated),
    next to a ShardedTensorEntry, a replicated and a private leaf"""
    from torchsnapshot.manifest import (DictEntry, DTensorEntry, PrimitiveEntry, Shard, ShardedTensorEntry, SnapshotMetadata,
                                        TensorEntry)

    def te(loc, rep=False):
        return TensorEntry(location=loc, serializer="buffer_protocol", dtype="torch.float32", shape=[2], replicated=rep)
    shape = rng.choice([(2,), (3,), (4,), (2, 2), (2, 3), (3, 2), (2, 2, 2)])
    W = 1
    for d in shape:
        W *= d
    perm = list(range(W))
    if rng.random() < 0.3:
        rng.shuffle(perm)
    import numpy as np
    mesh = np.array(perm).reshape(shape).tolist()
    nd = len(shape)
    options = {1: [[[0]], [[-1]], [[0], [-1]], [[-1], [0]], [[-1], [-1]]],
               2: [[[0], [1]], [[0], [-1]], [[-1], [1]], [[0, 1]], [[-1], [-1]], [[1], [0]], [[1]], [[-1], [0, 1]]],
               3: [[[0], [1], [2]], [[0], [-1]], [[2], [-1]], [[0, 2]], [[-1]], [[1], [0, 2]], [[1, 2]]]}[nd]
    npaths = rng.choice([1, 2])
    dim_maps = [rng.choice(options) for _ in range(npaths)]
    holders = [sorted(rng.sample(range(W), rng.randint(1, W))) if rng.random() < 0.3 else list(range(W)) for _ in range(npaths)]
    man = {}
    for r in range(W):
        keys = ["rep", "priv"] + [f"dt{i}" for i in range(npaths) if r in holders[i]] + (["sh"] if r % 2 == 0 else [])
        man[f"{r}/m"] = DictEntry(keys=keys)
        if r == 0:
            man[f"{r}/m/rep"] = PrimitiveEntry("int", "7", True)
        man[f"{r}/m/priv"] = te(f"{r}/m/priv")
        for i in range(npaths):
            if r in holders[i]:
                man[f"{r}/m/dt{i}"] = DTensorEntry(
                    shards=[Shard(offsets=[rng.choice([0, r, 2 * r]), j], sizes=[1, 1], tensor=te(f"sharded/m/dt{i}_{r}_{j}"))
                            for j in range(rng.choice([1, 1, 2]))], mesh=mesh, dim_map=dim_maps[i])
        if r % 2 == 0:
            man[f"{r}/m/sh"] = ShardedTensorEntry(shards=[Shard(offsets=[r], sizes=[1], tensor=te(f"sharded/m/sh_{r}"))])
    items = list(man.items())
    if rng.random() < 0.3:
        rng.shuffle(items)
    md = SnapshotMetadata(version="0.0.0", world_size=W, manifest=dict(items))
    reqs_pool = [f"m/dt{i}" for i in range(npaths)] + ["m/sh", "m/rep", "m/nowhere"]
    queries = [(r, rng.sample(reqs_pool, rng.randint(0, len(reqs_pool)))) for r in rng.sample(range(-1, W + 2), min(W + 3, 4))]
    return md, queries, f"mesh{shape}:{dim_maps}"


def string_level_perturb(rng, md):
    """perturbations that only the string-level (generated) model can express: the rank prefix of a global path"""
    from torchsnapshot.manifest import SnapshotMetadata
    man = copy.deepcopy(md.manifest)
    paths = list(man)
    if not paths:
        return None
    p = rng.choice(paths)
    rk, _, logical = p.partition("/")
    tag = rng.choice(["bad-rank", "rank-out-of-range", "negative-rank", "no-slash", "plus-rank", "leading-zero", "move-to-end",
                      "empty-logical"])
    e = man.pop(p)
    if tag == "bad-rank":
        man[f"x{rk}/{logical}"] = e
    elif tag == "rank-out-of-range":
        man[f"{md.world_size + rng.choice([0, 1, 5])}/{logical}"] = e
    elif tag == "negative-rank":
        man[f"-{rng.randint(1, md.world_size + 1)}/{logical}"] = e
    elif tag == "no-slash":
        man[rk] = e
    elif tag == "plus-rank":
        man[f"+{rk}/{logical}"] = e
    elif tag == "leading-zero":
        man[f"0{rk}/{logical}"] = e
    elif tag == "empty-logical":
        man[f"{rk}/"] = e
    else:
        man[p] = e
    return tag, SnapshotMetadata(version="0.0.0", world_size=md.world_size, manifest=man)


def gen_remove_cases(rng, md, uid, k):
    """_remove_entry called directly on copies of the per-rank manifests"""
    from torchsnapshot.manifest_ops import _get_rank_to_manifest, _remove_entry
    from torchsnapshot.manifest_utils import is_container_entry
    out = []
    try:
        rtm = _get_rank_to_manifest(metadata=md)
    except Exception:  # noqa
        return out
    for _ in range(k):
        m = copy.deepcopy(rng.choice(rtm))
        paths = list(m)
        if not paths:
            continue
        mode = rng.choice(["leaf", "leaf", "any", "bogus", "orphan", "twice"])
        p = rng.choice(paths)
        if mode == "leaf":
            leaves = [q for q in paths if not is_container_entry(m[q])]
            p = rng.choice(leaves) if leaves else p
        elif mode == "bogus":
            p = rng.choice(["m/nowhere", "", "/", p + "/x", p.rpartition("/")[0] + "/"])
        elif mode == "orphan":
            parent = p.rpartition("/")[0]
            m.pop(parent, None)
        elif mode == "twice":
            try:
                _remove_entry(manifest=m, logical_path=p)
            except Exception:  # noqa
                pass
        inp = f"({items_term(m, uid)}, {s_term(p)})"
        try:
            _remove_entry(manifest=m, logical_path=p)
            exp = [items_obs(m, uid)]
        except Exception:  # noqa
            exp = None
        out.append((inp, val(exp), mode))
    return out


def gen_predicate_cases(entries, uid):
    from torchsnapshot import manifest_utils as mu
    fns = [mu.is_dict_entry, mu.is_container_entry, mu.is_fully_replicated_entry, mu.is_partially_replicated_entry,
           mu.is_replicated_entry, mu.is_sharded_entry]
    out = []
    for e in entries:
        exp = []
        for f in fns:
            try:
                exp.append([bool(f(e))])
            except Exception:  # noqa
                exp.append(None)
        out.append((pentry_term(e, uid), val(exp)))
    return out


def gen_replicated_ranks_cases(rng, n):
    """the two hand-modelled pieces against the real _get_replicated_ranks / _ReplicatedShards"""
    import numpy as np
    from torchsnapshot.dtensor_utils import _ReplicatedShards
    from torchsnapshot.manifest import DTensorEntry
    from torchsnapshot.manifest_utils import _get_replicated_ranks
    out = []
    shapes = [(1,), (2,), (3,), (4,), (2, 2), (2, 3), (3, 2), (1, 3), (2, 2, 2), (2, 1, 3), (3, 2, 2)]
    for _ in range(n):
        shape = rng.choice(shapes)
        W = int(np.prod(shape))
        perm = list(range(W))
        if rng.random() < 0.4:
            rng.shuffle(perm)
        mesh = np.array(perm).reshape(shape).tolist()
        nd = len(shape)
        dim_map = []
        for _ in range(rng.randint(1, 3)):
            if rng.random() < 0.4:
                dim_map.append([-1])
            else:
                dim_map.append(sorted(rng.sample(range(nd), rng.randint(1, nd))) if rng.random() < 0.8 else [rng.randrange(nd)])
        e = DTensorEntry(shards=[], mesh=mesh, dim_map=dim_map)
        rr = _get_replicated_ranks(entry=e)
        rs = _ReplicatedShards(replicated_ranks_for_shards=rr)
        ranks = list(range(-1, W + 1))
        exp = [[sorted(int(x) for x in s) for s in rr], [sorted(int(x) for x in rs.get_all_replicated_ranks(r)) for r in ranks]]
        shp, flat = mesh_of(e)
        out.append((f"(({zl(shp)}, {zl(flat)}), [" + "; ".join(zl(d) for d in dim_map) + f"], {zl(ranks)})", val(exp)))
    return out


def run_gen(res, name, tag, fn, cases, in_type, meta=None, shard=25):
    if not GEN_OK["ok"] or not cases:
        return
    bad, errs = coqrun.run_cases(tag, GEN_IMPORTS, fn, [(c[0], c[1]) for c in cases], shard=shard, in_type=in_type)
    for e in errs:
        res.mismatches.append(Mismatch(name, "coqc error", None, e))
    for i in bad:
        res.mismatches.append(Mismatch(name, {"case": (meta[i] if meta else None), "input": cases[i][0][:1500]}, cases[i][1][:1500], None))
    res.traces_validated += len(cases)


def build_gen_model(res):
    """the observation functions over the generated terms are built on their own, so that they run (and the
    correspondences are evaluated) also when an instantiation proof over the same terms no longer checks"""
    ok, out, _ = coqrun.make(["model/ManifestOpsGenObs.vo"], timeout=600, jobs=4)
    GEN_OK["ok"], GEN_OK["detail"] = ok, "" if ok else f"{coqrun.failing_file(out)}: {coqrun.error_excerpt(out, 12)}"
    if not ok:
        res.mismatches.append(Mismatch(CORRESPONDENCES[5], "make model/ManifestOpsGenObs.vo", None, GEN_OK["detail"]))


def check_generated_extra(ctx: Ctx, res: Result):
    """inputs only the generated (string / object level) terms can take: DTensor entries, malformed rank prefixes,
    the knob, direct _remove_entry calls, the predicates, the hand-modelled mesh slicing"""
    if not GEN_OK["ok"]:
        return
    rng = ctx.rng
    cases, meta = [], []
    entries = []
    for _ in range(ctx.n(40, 240)):
        md, queries, what = dtensor_metadata(rng)
        uid = Uids()
        knob = rng.random() < 0.3
        try:
            cases.append(gen_views_case(md, uid, queries, knob))
        except TypeError:
            continue
        meta.append({"kind": "dtensor", "what": what, "knob": knob})
        res.count("g.dtensor_mesh", what.split(":")[0])
        entries += [e for e in md.manifest.values() if type(e).__name__ == "DTensorEntry"][:2]
    rm_cases = []
    for i in range(ctx.n(40, 240)):
        sc = Scenario(Gen(rng, rng.choice([1, 2, 3, 4])).spec())
        uid = Uids()
        got = string_level_perturb(rng, sc.metadata)
        if got is not None:
            tag, md2 = got
            queries = [(r, pick_requests(rng, sc, r)) for r in rng.sample(range(-2, sc.W + 2), min(sc.W + 4, 3))]
            try:
                cases.append(gen_views_case(md2, uid, queries, rng.random() < 0.2))
                meta.append({"kind": "string-level-perturbation", "tag": tag, "spec": sc.spec})
                res.count("g.string_perturbation", tag)
            except TypeError:
                pass
        for c in gen_remove_cases(rng, sc.metadata, uid, 3):
            rm_cases.append(c)
            res.count("g.remove_entry_mode", c[2])
        if i % 4 == 0:
            entries += list(sc.metadata.manifest.values())[:6]
    run_gen(res, CORRESPONDENCES[7], "C07_gx", "obs_views_gen", cases, GEN_VIEWS_TY, meta, shard=20)
    run_gen(res, CORRESPONDENCES[8], "C07_grm", "obs_remove_entry_gen", rm_cases, "list (pystr * pentry) * pystr", None, shard=60)
    from torchsnapshot.manifest import DTensorEntry, Entry, ListEntry
    entries += [Entry(type="x"), ListEntry(), DTensorEntry(shards=[], mesh=[0, 1], dim_map=[]),
                DTensorEntry(shards=[], mesh=[[0, 1], [2, 3]], dim_map=[[-1], [0]]),
                DTensorEntry(shards=[], mesh=[[0, 1], [2, 3]], dim_map=[[-1], [-1]]),
                DTensorEntry(shards=[], mesh=[[0, 1], [2, 3]], dim_map=[[0], [1]])]
    run_gen(res, CORRESPONDENCES[9], "C07_gpred", "obs_predicates_gen", gen_predicate_cases(entries, Uids()), "pentry", None, shard=200)
    run_gen(res, CORRESPONDENCES[10], "C07_grr", "obs_replicated_ranks", gen_replicated_ranks_cases(rng, ctx.n(60, 400)),
            "mesh * list (list Z) * list Z", None, shard=200)


# =========================================================================== (b) end to end in the simulated world
def leaf_value(kind, n, rank, sentinel=False):
    """the python object saved for a leaf; the restoring side pre-fills the same shape with sentinels"""
    import torch
    k = n % 4
    tag = 0 if kind == "R" else rank + 1
    if k == 0 or k == 3:
        shape = (2,) if k == 0 else (2, 2)
        return torch.full(shape, -1.0) if sentinel else torch.full(shape, float(10 * n + tag))
    if k == 1:
        return -1 if sentinel else 1000 * n + tag
    return ("sentinel",) if sentinel else ("obj", n, tag)           # a tuple: stored as an ObjectEntry (torch.save)


def realize(o, sentinel=False):
    if isinstance(o, C07Leaf):
        return leaf_value(o.kind, o.n, o.rank, sentinel)
    if isinstance(o, list):
        return [realize(x, sentinel) for x in o]
    d = OrderedDict() if isinstance(o, OrderedDict) else {}
    for k, v in o.items():
        d[k] = realize(v, sentinel)
    return d


def union_tree(node):
    """the restoring side's state: every key any rank saved (every edge present), leaves as sentinels"""
    t = node[0]
    if t in ("R", "P"):
        return C07Leaf(t, node[1], 0)
    if t == "l":
        return [union_tree(c) for c, _ in node[1]]
    d = OrderedDict() if node[1] else {}
    for k, c, _ in node[3]:
        d[key_of(k)] = union_tree(c)
    return d


def same(a, b):
    import torch
    if isinstance(a, torch.Tensor) or isinstance(b, torch.Tensor):
        return isinstance(a, torch.Tensor) and isinstance(b, torch.Tensor) and a.shape == b.shape and torch.equal(a, b)
    return type(a) is type(b) and a == b


def compare_values(actual, expected, path, out):
    if isinstance(expected, list):
        if type(actual) is not list:
            out.append(("container-type", f"{path}: list became {type(actual).__name__}"))
        elif len(actual) != len(expected):
            out.append(("list-length", f"{path}: expected {len(expected)} items, got {len(actual)}"))
        else:
            for i, (a, e) in enumerate(zip(actual, expected)):
                compare_values(a, e, f"{path}[{i}]", out)
    elif isinstance(expected, (dict, OrderedDict)):
        if type(actual) is not type(expected):
            out.append(("container-type", f"{path}: {type(expected).__name__} became {type(actual).__name__}"))
        elif [tk(k) for k in actual.keys()] != [tk(k) for k in expected.keys()]:
            a, e = sorted(map(ascii, map(tk, actual.keys()))), sorted(map(ascii, map(tk, expected.keys())))
            out.append(("key-order" if a == e else "key-set",
                        f"{path}: expected keys {ascii(list(expected.keys()))}, got {ascii(list(actual.keys()))}"))
        else:
            for k in expected:
                compare_values(actual[k], expected[k], f"{path}[{k!a}]", out)
    elif not same(actual, expected):
        out.append(("leaf", f"{path}: expected {ascii(expected)[:60]}, got {ascii(actual)[:60]}"))


def expected_values(tree, rank_is_new):
    """the saved tree of the base rank with private leaves withheld from a new rank"""
    if isinstance(tree, C07Leaf):
        if tree.kind == "P" and rank_is_new:
            return None
        return leaf_value(tree.kind, tree.n, tree.rank)
    if isinstance(tree, list):
        return [v for v in (expected_values(x, rank_is_new) for x in tree) if v is not None]
    d = OrderedDict() if isinstance(tree, OrderedDict) else {}
    for k, x in tree.items():
        v = expected_values(x, rank_is_new)
        if v is not None:
            d[k] = v
    return d


class _PermGroup:
    """stands for a process group given by the application whose rank numbering differs from the default group's
    (lib.world: `_verif_perm[world rank] = rank index in this group`; 0 stays 0)"""
    def __init__(self, perm):
        self._verif_perm = list(perm)

    def __repr__(self):
        return f"<application group, ranks renumbered {self._verif_perm}>"


def e2e_run(ctx: Ctx, spec, W2, perm=None):
    """take with W ranks, restore / get_state_dict_for_key / read_object with W2 ranks; returns (failures, sc-like).
    With `perm` (W2 == W): the application passes its OWN process group, in which world rank q has rank index perm[q], to
    async_take and restores through the Snapshot object wait() returned: 'the rank index that saved it' is the index in
    THAT group on both sides."""
    import shutil

    import torch  # noqa
    from lib.world import World
    from torchsnapshot import Snapshot, StateDict
    from torchsnapshot.flatten import _encode, flatten

    W = spec["W"]
    trees = [{key: build_tree(node, r) for key, node in spec["statefuls"]} for r in range(W)]
    rep_paths = []
    for key, tree in trees[0].items():
        _, f = flatten(tree, prefix=key)
        rep_paths += [p for p, leaf in f.items() if leaf.kind == "R"]
    root = ctx.scratch("e2e")
    fails = []
    try:
        group = _PermGroup(perm) if perm else None
        handles = {}

        def take(rank):
            if perm:
                app = {key: as_stateful(StateDict, realize(tree)) for key, tree in trees[perm[rank]].items()}
                handles[rank] = Snapshot.async_take(path=root, app_state=app, replicated=_replication_globs(rep_paths), pg=group).wait()
                return True
            app = {key: as_stateful(StateDict, realize(tree)) for key, tree in trees[rank].items()}
            Snapshot.take(path=root, app_state=app, replicated=_replication_globs(rep_paths))
            return True
        w = World(W)
        _, errs = w.run(take)
        if any(e is not None for e in errs) or w.deadlock:
            return [("C07:e2e-take-raises", f"take with W={W} raised {[repr(e)[:200] for e in errs if e]}")], None

        class Rec(StateDict):
            def load_state_dict(self, sd):
                self.loaded = sd
                super().load_state_dict(sd)

        def restore(rank):
            app = {key: as_stateful(Rec, realize(union_tree(node), sentinel=True)) for key, node in spec["statefuls"]}
            before = {key: sentinel_tensors(app[key].data, _encode(key)) for key in app}
            (handles[rank] if perm else Snapshot(root)).restore(app)
            # get_state_dict_for_key filters the manifest by the raw (un-encoded) key: it cannot find a stateful whose
            # key contains '/', '%' or is '.'/'..' on ANY rank - not a who-can-load-what matter, so only plain keys
            gsd = {key: (handles[rank] if perm else Snapshot(root)).get_state_dict_for_key(key) for key in sorted(app) if _encode(key) == key}
            return ({key: getattr(app[key], "loaded", None) for key in app}, before, gsd)
        w2 = World(W2)
        results, errs = w2.run(restore)
        md = Snapshot(root).metadata
        snap = Snapshot(root)
        for rank in range(W2):
            base = (perm[rank] if perm else rank) if rank < W else 0
            if errs[rank] is not None:
                fails.append((f"C07:e2e-restore-raises:{type(errs[rank]).__name__}:{'new' if rank >= W else 'existing'}-rank",
                              f"restore on rank {rank} of W'={W2} (saved with W={W}) raised {errs[rank]!r}"[:400]))
                continue
            loaded, before, gsd = results[rank]
            delivered_tensors = set()
            for key, tree in trees[base].items():
                exp = expected_values(tree, rank >= W)
                for name, got in [("restore", loaded[key])] + ([("get_state_dict_for_key", gsd[key])] if key in gsd else []):
                    diffs = []
                    if got is None:
                        diffs.append(("not-loaded", f"{key!r}: load_state_dict was not called"))
                    else:
                        compare_values(got, exp, f"{name}:{key!a}", diffs)
                    for cls, what in diffs:
                        fails.append((f"C07:e2e-{name}:{cls}:{'new' if rank >= W else 'existing'}-rank",
                                      f"rank {rank} of W'={W2} (saved with W={W}): {what}"))
                if loaded[key] is not None:
                    collect_tensor_ids(loaded[key], delivered_tensors)
            # a sentinel tensor that was not delivered must be untouched
            for key in before:
                for p, t in before[key]:
                    if id(t) not in delivered_tensors and not bool((t == -1).all()):
                        fails.append(("C07:e2e-undelivered-sentinel-overwritten",
                                      f"rank {rank} of W'={W2}: tensor at {p!r} was not delivered but its buffer changed to {t.tolist()}"))
        # read_object: replicated through every rank index, private only through the owner's index
        priv = []
        for r in range(W):
            for key, tree in trees[r].items():
                _, f = flatten(tree, prefix=key)
                priv += [(r, p, leaf) for p, leaf in f.items() if leaf.kind == "P"]
        rep_leaves = {}
        for key, tree in trees[0].items():
            _, f = flatten(tree, prefix=key)
            rep_leaves.update({p: leaf for p, leaf in f.items() if leaf.kind == "R"})
        rng = ctx.rng
        for p, leaf in rng.sample(sorted(rep_leaves.items()), min(2, len(rep_leaves))):
            for rank in sorted({0, W - 1, W, W + 1}):
                try:
                    got = snap.read_object(f"{rank}/{p}")
                    ok = same(got, leaf_value("R", leaf.n, None))
                except Exception as e:  # noqa
                    got, ok = e, False
                if not ok:
                    fails.append(("C07:e2e-read_object:replicated", f"read_object('{rank}/{p}') (W={W}) gave {got!r}"[:300]))
        for r, p, leaf in rng.sample(priv, min(3, len(priv))):
            try:
                got = snap.read_object(f"{r}/{p}")
                ok = same(got, leaf_value("P", leaf.n, r))
            except Exception as e:  # noqa
                got, ok = e, False
            if not ok:
                fails.append(("C07:e2e-read_object:private-owner", f"read_object('{r}/{p}') gave {got!r}"[:300]))
            for other in sorted({0, W, W + 1} - {r}):
                if any(q == other and pp == p for q, pp, _ in priv):
                    continue
                try:
                    got = snap.read_object(f"{other}/{p}")
                    fails.append(("C07:e2e-read_object:private-foreign",
                                  f"read_object('{other}/{p}') returned {got!r}: the path is private to rank {r}"[:300]))
                except RuntimeError:
                    pass
                except Exception as e:  # noqa
                    fails.append((f"C07:e2e-read_object:private-foreign-raises:{type(e).__name__}",
                                  f"read_object('{other}/{p}') raised {e!r}"[:300]))
        return fails, md
    finally:
        shutil.rmtree(root, ignore_errors=True)


def as_stateful(cls, data):
    """a StateDict whose state_dict() is exactly `data` (dict or OrderedDict, any key types)"""
    sd = cls()
    sd.data = data
    return sd


def _glob_escape(p: str) -> str:
    """`replicated` takes fnmatch patterns: escape the glob metacharacters of a literal path"""
    return "".join("[" + c + "]" if c in "*?[" else c for c in p)


def _replication_globs(rep_paths):
    """the application's `replicated` argument: one literal glob per replicated path and, for every second path, a SECOND glob
    that matches exactly the same path (its last character written as a one-character class): overlapping globs are legal,
    a path matched by two of them is replicated like any other"""
    globs = [_glob_escape(p) for p in rep_paths]
    for k, p in enumerate(rep_paths):
        if k % 2 == 0 and p and p[-1] not in "*?[]!^-\\":
            globs.append(_glob_escape(p[:-1]) + "[" + p[-1] + "]")
    return globs


def sentinel_tensors(o, path):
    import torch
    from torchsnapshot.flatten import _encode
    out = []
    if isinstance(o, torch.Tensor):
        out.append((path, o))
    elif isinstance(o, list):
        for i, x in enumerate(o):
            out += sentinel_tensors(x, f"{path}/{i}")
    elif isinstance(o, (dict, OrderedDict)):
        for k, x in o.items():
            out += sentinel_tensors(x, f"{path}/{_encode(str(k))}")
    return out


def collect_tensor_ids(o, acc):
    import torch
    if isinstance(o, torch.Tensor):
        acc.add(id(o))
    elif isinstance(o, list):
        for x in o:
            collect_tensor_ids(x, acc)
    elif isinstance(o, (dict, OrderedDict)):
        for x in o.values():
            collect_tensor_ids(x, acc)


def e2e_pairs(ctx: Ctx):
    if not ctx.thorough:
        pairs = [(W, W2) for W in range(1, 5) for W2 in range(1, 5)]
        return pairs + ctx.rng.sample(pairs, 8)
    pairs = [(W, W2) for W in range(1, 7) for W2 in range(1, 7)]
    return pairs + ctx.rng.sample(pairs, 36)


def check_e2e(ctx: Ctx, res: Result, with_model: bool):
    rng = ctx.rng
    c_get, c_wf, meta, c_gen = [], [], [], []
    for (W, W2) in e2e_pairs(ctx):
        spec = Gen(rng, W, sharded=False).spec()
        spec["yaml"] = 0
        st = spec_stats(spec, res)
        res.count("b.W_W2", f"{W}->{W2}")
        res.count("b.leaves", f"R{min(st['R'], 3)}P{min(st['P'], 3)}")
        res.case({"kind": "e2e", "spec": spec, "W2": W2}, nontrivial=st["R"] > 0 and st["P"] > 0)
        fails, md = e2e_run(ctx, spec, W2)
        record(res, fails, {"kind": "e2e", "spec": spec, "W2": W2})
        for sig, _ in fails:
            res.count("b.failure_signature", sig)
        if md is None or not with_model:
            continue
        uid = Uids()
        queries = [(r, []) for r in range(max(W2, W) + 1)]
        inp, gets, _ = case_terms(md, uid, queries)
        c_get.append((inp, val(gets)))
        c_wf.append((inp, val(True)))
        meta.append(spec)
        if GEN_OK["ok"]:
            c_gen.append(gen_views_case(md, uid, list(reversed(queries)), False))
    # the application's own process group with a different rank numbering, restore through the returned Snapshot object
    for W in ((3, 4) if not ctx.thorough else (3, 4, 4, 5, 6)):
        perm = [0] + [1 + (k + 1) % (W - 1) for k in range(W - 1)]
        spec = Gen(rng, W, sharded=False).spec()
        spec["yaml"] = 0
        res.case({"kind": "e2e-group", "spec": spec, "perm": perm}, nontrivial=True)
        res.count("b.W_W2", f"{W}->{W} own-group")
        fails, _ = e2e_run(ctx, spec, W, perm=perm)
        record(res, fails, {"kind": "e2e", "spec": spec, "W2": W, "perm": perm})
    if not with_model:
        return
    run_gen(res, CORRESPONDENCES[11], "C07_ge2e", "obs_views_gen", c_gen, GEN_VIEWS_TY, meta, shard=12)
    ty = "Z * gman * list (Z * list path)"
    for name, tag, fn, cases in (("e2e:take-metadata/get_manifest_for_rank~model", "C07_e2e", GET_FN, c_get),
                                 ("wf:gathered-manifest~wf_globalb", "C07_e2ewf", WF_FN, c_wf)):
        bad, errs = coqrun.run_cases(tag, IMPORTS, fn, cases, shard=12, in_type=ty)
        for e in errs:
            res.mismatches.append(Mismatch(name, "coqc error", None, e))
        for i in bad:
            res.mismatches.append(Mismatch(name, {"case": meta[i], "input": cases[i][0][:1500]}, cases[i][1][:1500], None))
        res.traces_validated += len(cases)


# =========================================================================== the legacy witness, replayed on the real code
def check_legacy_witness(res: Result):
    """the witnesses of the _refuted theorems on the CURRENT code:
    C07_remove_entry_legacy_refuted - a private leaf under the key 'a/b' (and '%', True) must no longer make
    get_manifest_for_rank raise for a new rank;
    C07_elasticity_legacy_refuted - a new rank requesting the sharded tensor under 'a/b' and the one inside a list
    must get both delivered (through the real inflate)"""
    spec = corpus_specs()[0]
    sc = Scenario(spec)
    m, _, err = real_get(sc.metadata, 1)
    res.case({"kind": "legacy-witness", "commit": "489d382"}, nontrivial=True)
    if err is not None:
        res.failures.append(Failure(f"C07:get_manifest_for_rank-raises:{type(err).__name__}:new-rank",
                                    f"the pre-fix witness still fails: {err!r}"[:300],
                                    {"kind": "synthetic", "spec": spec, "rank": 1, "reqs": []}))
    spec = corpus_specs()[3]
    sc = Scenario(spec)
    reqs = ["m/a%2Fb", "m/l/0"]
    res.case({"kind": "legacy-witness", "commit": "bb9e810"}, nontrivial=True)
    record(res, oracle_synthetic(sc, 1, reqs, Uids()), {"kind": "synthetic", "spec": spec, "rank": 1, "reqs": reqs})


def correspond(ctx: Ctx) -> Result:
    res = Result(rule=RULE)
    build_gen_model(res)
    check_legacy_witness(res)
    check_synthetic(ctx, res, with_model=True)
    check_generated_extra(ctx, res)
    check_e2e(ctx, res, with_model=True)
    res.dist["g.query_outcome"] = {k: v for k, v in sorted(GEN_STATS.items())}
    GEN_STATS.clear()
    return res


def search(ctx: Ctx, broken) -> Result:
    res = Result(rule=RULE)
    check_legacy_witness(res)
    check_synthetic(ctx, res, with_model=False)
    check_e2e(ctx, res, with_model=False)
    return res


def replay(ctx: Ctx, data):
    if data.get("kind") == "e2e":
        fails, _ = e2e_run(ctx, data["spec"], data["W2"], perm=data.get("perm"))
    else:
        sc = Scenario(data["spec"])
        fails = oracle_synthetic(sc, data["rank"], data.get("reqs", []), Uids())
    if fails:
        return Failure(fails[0][0], fails[0][1], data)
    return None


MANIFEST = {
    "level_text": ("Machine-checked proof (Coq 8.16.1) about the functions of manifest_ops.py and the predicates of manifest_utils.py "
                   "REGENERATED STATEMENT BY STATEMENT from the current source on every run (get_manifest_for_rank, "
                   "_get_rank_to_manifest incl. the deep copy, _get_manifest_for_existing_rank, _get_manifest_for_new_rank, "
                   "_remove_entry, the merged sharded / DTensor entries, handle_sharded_tensor_elasticity; Python dicts as "
                   "insertion-ordered association lists, entry objects in a heap): (i) computing any sequence of views from one "
                   "metadata object leaves the metadata's entry objects unchanged (no assumption on the metadata); (ii) on "
                   "well-formed metadata they compute exactly the hand model, for which: for every world size W >= 1, "
                   "every restoring rank index r' (r' < W and r' >= W) and every well-formed gathered manifest (any nesting "
                   "depth, any mix of replicated / private / sharded leaves, any per-rank key differences): every replicated "
                   "leaf is in r''s local manifest with its saved entry; a private leaf is visible exactly to the rank index "
                   "that saved it; a visible sharded entry is the merged entry (a permutation of all ranks' shards, sorted by "
                   "offsets) and after elasticity is present iff requested; containers of an existing rank are unchanged and a "
                   "new rank receives rank 0's containers with exactly the keys of the withheld leaves deleted, order kept; the "
                   "removed key is the one flatten used for the path (keys with '/', '%', bool, int), while the code before "
                   "commit 489d382 is refuted by a witness. Each of these theorems is restated over the generated functions "
                   "(C07_generated_*). Generated terms and hand model are both compared with the real code on every run "
                   "(real manifest operations through the real flatten / consolidate_replicated_entries / inflate; sequences "
                   "of views on one metadata object; DTensor and malformed metadata; end to end real take / restore in a "
                   "simulated multi-rank world)."),
    "level_note": ("Trusted: Coq kernel + VM; the translator gen_manifest_ops.py and its target vocabulary model/ManifestPy.v "
                   "(dict / heap / deepcopy semantics, validated by the correspondences); the abstraction absG/absD/absE; the "
                   "differential harness; the simulated world (ranks as threads). The hand model is now a specification, not "
                   "part of the tie to the code. Theorems through the hand model assume no DTensorEntry and the root-only knob "
                   "off (both are translated and exercised, not proved about); numpy mesh slicing and _ReplicatedShards are "
                   "hand-modelled with pinned source. Sharded tensors are exercised at the manifest level only (data path: C08). "
                   "All theorems are closed under the global context (no axioms)."),
    "technique": "Python ast -> Gallina translation of whole functions (state-and-exception monad over a heap of entry objects) + "
                 "Coq proof: a type-directed frame logic walked automatically over the generated statements (non-mutation), a "
                 "simulation proof generated functions = hand model (loop invariants, assoc-list lemmas, insertion-sort "
                 "permutation) + vm_compute correspondence and direct oracle on the real manifest operations and on "
                 "take/restore in a simulated world",
    "design_ref": "DESIGN.md section 5, C07",
}
