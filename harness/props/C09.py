"""C09 - async_take captures the state at call time and equals a synchronous take.

End to end: the REAL Snapshot.async_take runs inside lib.world.World (W = 1, a few W = 2); every storage write is a
scheduling point, so the harness chooses how many scheduling points of the background thread(s) (write begins, write
ends, barrier operations, the metadata write) happen before the application thread mutates IN PLACE every tensor and
every mutable object of the state it handed to async_take.  Then wait(), restore into a blank state and compare
bit-exactly with the ORIGINAL state; a synchronous take of a fresh copy of the original state must give the same
manifest (slab names canonicalised) and the same restored values.
Stager level (correspondence with coq/model/AsyncCapture.v): the real _should_copy_cpu_tensor against the generated
function on all flag combinations; aliasing observed on the real TensorBufferStager / ObjectBufferStager /
BatchedBufferStager (stage, mutate the tensor, did the staged bytes change?) against the model's Copy/Alias; small
mutate/write interleavings on real staged buffers against the model's `run`."""
from __future__ import annotations

import asyncio
import json
import os
import random
import shutil

from lib import coqrun
from lib.core import Ctx, Failure, Mismatch, Result
from lib.tocoq import term, val

PROP = "C09"
PROPS_FILE = "props/C09.v"
GEN = ["gen_dtype", "gen_sched"]
CORRESPONDENCES = ["copy-decision:real-_should_copy_cpu_tensor~generated-function",
                   "stager:real-aliasing(stage,mutate,compare)~model-Copy/Alias",
                   "stager:real-mutate/write-interleavings~model-run"]
RULE = ("end to end: workloads (1-6 leaves: tensors of 11 dtypes incl. complex (torch_save) x contiguous / transposed / "
        "view of a larger storage / scalar / empty; nested lists and dicts; pickled objects; primitives) x knobs (batching "
        "on/off, chunk 16/32, slab 24/64, memory budget 1/40/1e8, io concurrency 1/16) x mutation position = number of "
        "background scheduling points (write begin, write end, barrier steps, metadata write) that run before the "
        "application mutates everything in place (quick: first, second, middle, last-but-one, after all; thorough: every "
        "position); W = 2 runs with a replicated tensor. Stager level: all 2x2x2x3 flag combinations; every buffer-protocol "
        "dtype x 4 layouts x async/sync x 4 stager kinds; random mutate/write sequences over uint8 cells. A case is one "
        "execution; non-trivial = at least one background write happens after the mutation (end to end) / at least one "
        "mutation before a write (stager); distinct by description.")
TRUSTED = [
    "Coq 8.16.1 kernel and vm_compute; theorems closed under the global context",
    "translator/gen_dtype.py (typed translation of _should_copy_cpu_tensor: str == Enum member is false) and "
    "translator/gen_sched.py (loop condition of execute_write_reqs)",
    "hand-written model coq/model/AsyncCapture.v (stagers as Copy/Alias, clone = private copy, runs of mutations and writes), "
    "tied to the code by the stager-level correspondences of this harness",
    "lib/world.py + lib/dsched.py (simulated rank, background thread under a chosen schedule), harness/props/C09.py",
    "torch: clone(), contiguous(), torch.save produce buffers that do not share memory with the source (runtime)",
]
ASSUMPTIONS = [
    "the application mutates only after async_take returned; mutation DURING async_take (another application thread) is "
    "outside the property",
    "every staging task is finished when execute_write_reqs returns (C09_all_staged_at_return from the translated loop "
    "condition; termination and exactly-once are C11) - BatchedBufferStager copies its members into the slab inside "
    "stage_buffer, ObjectBufferStager pickles inside stage_buffer",
    "CPU tensors only: CUDA / UVM tensors are copied to the host by tensor_to_cpu / uvm_to_cpu (copy by construction, not "
    "run here); ShardedTensor / DTensor shards go through the same TensorBufferStager; the private "
    "_custom_tensor_prepare_func hook is not modelled",
    "clone() is modelled as a private copy (nobody else holds a reference to the clone)",
    "torch.save of an object reads the object only while it runs (no lazy references into the object)",
]
IMPORTS = "From TS Require Import model.AsyncCapture.\n"

BP_DTYPES = ["float64", "float32", "float16", "bfloat16", "int64", "int32", "int16", "int8", "uint8", "bool"]
ALL_DTYPES = BP_DTYPES + ["complex64"]
LAYOUTS = ["contig", "view", "transposed", "strided"]


# =========================================================================== application state
class Blob:
    def __init__(self, n):
        self.items = list(range(n))
        self.tag = {"n": n}

    def __eq__(self, o):
        return isinstance(o, Blob) and self.items == o.items and self.tag == o.tag

    def __repr__(self):
        return f"Blob({self.items},{self.tag})"


def make_tensor(dtype: str, layout: str, n: int):
    import torch
    dt = getattr(torch, dtype)
    if layout == "scalar":
        base = torch.arange(3, 4)
    elif layout == "empty":
        base = torch.arange(0, 0)
    elif layout == "view":
        base = torch.arange(1, 4 * n + 9)
    elif layout == "strided":
        base = torch.arange(1, 4 * n + 1)
    elif layout == "transposed":
        base = torch.arange(1, 1 + n * 3).reshape(n, 3)
    else:
        base = torch.arange(1, 1 + n * 2).reshape(n, 2)
    t = (base % 3 == 0) if dt == torch.bool else base.to(dt)
    if layout == "transposed":
        t = t.t()
    elif layout == "view":
        t = t[3:3 + 2 * n].reshape(n, 2)
    elif layout == "strided":
        t = t[::2]
    elif layout == "scalar":
        t = t.reshape(())
    return t


def random_leaf(rng: random.Random, depth=0):
    r = rng.random()
    if r < 0.55 or depth >= 2:
        return ["tensor", rng.choice(ALL_DTYPES), rng.choice(["contig", "contig", "view", "transposed", "strided", "scalar", "empty"]),
                rng.choice([1, 2, 3, 5, 9, 16])]
    if r < 0.65:
        return ["list", [random_leaf(rng, depth + 1) for _ in range(rng.randint(0, 3))]]
    if r < 0.75:
        return ["dict", [[rng.choice(["a", "b", 3, "k/x"]) if i == 0 else f"d{i}", random_leaf(rng, depth + 1)] for i in range(rng.randint(0, 3))]]
    if r < 0.9:
        return ["obj", rng.choice(["blob", "tuple", "set", "bytearray", "tensor_tuple"]), rng.randint(0, 3)]
    return ["prim", rng.choice([7, "s", 2.5, True, "bytes"])]


def build_leaf(d, blank=False):
    import torch
    k = d[0]
    if k == "tensor":
        t = make_tensor(d[1], d[2], d[3])
        return torch.zeros_like(t) if blank else t
    if k == "list":
        return [build_leaf(x, blank) for x in d[1]]
    if k == "dict":
        return {kk: build_leaf(x, blank) for kk, x in d[1]}
    if k == "obj":
        if blank:
            return None
        return {"blob": lambda: Blob(d[2]), "tuple": lambda: (1, "x", d[2]), "set": lambda: {1, d[2]},
                "bytearray": lambda: bytearray(b"ab" * (d[2] + 1)),
                "tensor_tuple": lambda: (torch.arange(d[2] + 2, dtype=torch.float32), d[2])}[d[1]]()
    if k == "prim":
        return 0 if blank else (b"xy" if d[1] == "bytes" else d[1])
    raise ValueError(d)


def build_state(desc, blank=False):
    """desc: [[key, leaf]...] -> dict"""
    return {k: build_leaf(l, blank) for k, l in desc}


def tbytes(t):
    """the tensor's logical content as a flat uint8 tensor"""
    import torch
    return t.detach().contiguous().reshape(-1).view(torch.uint8)


def mutate(x, op: int):
    """Mutate IN PLACE every tensor and every mutable object reachable from x. Returns the number of mutated tensors
    whose bytes really changed."""
    import torch
    n = 0
    if isinstance(x, torch.Tensor):
        if x.numel() == 0:
            return 0
        before = x.clone()
        # also scribble over the part of the storage the tensor does not cover
        whole = torch.empty(0, dtype=torch.uint8).set_(x.untyped_storage())
        if x.dtype == torch.bool:
            x.logical_not_()
        elif op % 3 == 0:
            x.add_(1)
        elif op % 3 == 1:
            x.zero_()
        else:
            x.unsqueeze(0)[0].fill_(77)           # through a view
        if whole.numel() > x.numel() * x.element_size() and op % 2 == 0:
            keep = x.clone()
            whole.bitwise_not_()
            x.copy_(keep)
        return 0 if torch.equal(tbytes(before), tbytes(x)) else 1
    if type(x) is dict:
        for v in list(x.values()):
            n += mutate(v, op)
        for k in list(x.keys()):
            if isinstance(x[k], (int, float, str, bytes)) and not isinstance(x[k], bool):
                x[k] = x[k] * 2 if not isinstance(x[k], float) else x[k] + 1
        x["__added__"] = 123
        return n
    if type(x) is list:
        for v in x:
            n += mutate(v, op)
        x.append(123)
        return n
    if isinstance(x, Blob):
        x.items.append(99)
        x.tag["n"] = -1
        return n
    if isinstance(x, set):
        x.add(99)
        return n
    if isinstance(x, bytearray):
        x.extend(b"zz")
        x[0] = 0
        return n
    if isinstance(x, tuple):
        for v in x:
            n += mutate(v, op)
        return n
    return n


def same_value(a, b, path="") -> str | None:
    """bit-exact structural equality; returns a description of the first difference"""
    import torch
    if isinstance(a, torch.Tensor) or isinstance(b, torch.Tensor):
        if not (isinstance(a, torch.Tensor) and isinstance(b, torch.Tensor)):
            return f"{path}: {type(a).__name__} vs {type(b).__name__}"
        if a.dtype != b.dtype or a.shape != b.shape:
            return f"{path}: {a.dtype}{list(a.shape)} vs {b.dtype}{list(b.shape)}"
        if a.numel() and not torch.equal(tbytes(a), tbytes(b)):
            return f"{path}: tensor bytes differ: {a.flatten().tolist()[:8]} vs {b.flatten().tolist()[:8]}"
        return None
    if type(a) is not type(b):
        return f"{path}: {type(a).__name__} vs {type(b).__name__}"
    if type(a) is dict:
        if [repr(k) for k in a.keys()] != [repr(k) for k in b.keys()]:
            return f"{path}: dict keys {list(a.keys())} vs {list(b.keys())}"
        for k in a:
            d = same_value(a[k], b[k], f"{path}/{k}")
            if d:
                return d
        return None
    if isinstance(a, (list, tuple)):
        if len(a) != len(b):
            return f"{path}: length {len(a)} vs {len(b)}"
        for i, (x, y) in enumerate(zip(a, b)):
            d = same_value(x, y, f"{path}/{i}")
            if d:
                return d
        return None
    return None if a == b else f"{path}: {a!r} vs {b!r}"


# =========================================================================== knobs
ENV_KEYS = ("TORCHSNAPSHOT_DISABLE_BATCHING", "TORCHSNAPSHOT_PER_RANK_MEMORY_BUDGET_BYTES",
            "TORCHSNAPSHOT_MAX_CHUNK_SIZE_BYTES_OVERRIDE", "TORCHSNAPSHOT_SLAB_SIZE_THRESHOLD_BYTES_OVERRIDE",
            "TORCHSNAPSHOT_MAX_PER_RANK_IO_CONCURRENCY_OVERRIDE")


class Env:
    def __init__(self, kn):
        self.env = {"TORCHSNAPSHOT_DISABLE_BATCHING": "0" if kn["batching"] else "1",
                    "TORCHSNAPSHOT_PER_RANK_MEMORY_BUDGET_BYTES": str(kn["budget"])}
        if kn.get("chunk"):
            self.env["TORCHSNAPSHOT_MAX_CHUNK_SIZE_BYTES_OVERRIDE"] = str(kn["chunk"])
        if kn.get("slab"):
            self.env["TORCHSNAPSHOT_SLAB_SIZE_THRESHOLD_BYTES_OVERRIDE"] = str(kn["slab"])
        if kn.get("ioc"):
            self.env["TORCHSNAPSHOT_MAX_PER_RANK_IO_CONCURRENCY_OVERRIDE"] = str(kn["ioc"])
        self.saved = {}

    def __enter__(self):
        for k in ENV_KEYS:
            self.saved[k] = os.environ.pop(k, None)
        os.environ.update(self.env)

    def __exit__(self, *a):
        for k in ENV_KEYS:
            os.environ.pop(k, None)
            if self.saved[k] is not None:
                os.environ[k] = self.saved[k]


def random_knobs(rng):
    return {"batching": rng.random() < 0.5, "chunk": rng.choice([None, None, 16, 32]), "slab": rng.choice([None, None, 24, 64]),
            "budget": rng.choice([1, 40, 100000000, 100000000]), "ioc": rng.choice([None, None, 1])}


# =========================================================================== end to end
def make_chooser(P: int, counter: list):
    """Let every rank finish async_take; then run P scheduling points of the background threads; then the
    application threads (parked at 'app:mutate') mutate; then everything else."""
    def is_bg(name):
        return ".bg" in name

    def choose(labels):
        fg_busy = [i for i, (n, l) in enumerate(labels) if not is_bg(n) and not l.startswith("app:") and l != "join"]
        if fg_busy:
            return fg_busy[0]
        bgs = [i for i, (n, l) in enumerate(labels) if is_bg(n)]
        apps = [i for i, (n, l) in enumerate(labels) if l.startswith("app:")]
        if bgs and (counter[0] < P or not apps):
            counter[0] += 1
            return bgs[counter[0] % len(bgs)] if len(bgs) > 1 else bgs[0]
        if apps:
            return apps[0]
        return 0
    return choose


def manifest_canon(path):
    """metadata as JSON with slab names replaced by their first-occurrence index"""
    from torchsnapshot import Snapshot
    d = json.loads(Snapshot(path).metadata.to_yaml())
    names = {}

    def walk(x):
        if isinstance(x, dict):
            return {k: (canon_loc(v) if k == "location" and isinstance(v, str) else walk(v)) for k, v in x.items()}
        if isinstance(x, list):
            return [walk(v) for v in x]
        return x

    def canon_loc(v):
        if v.startswith("batched/"):
            names.setdefault(v, f"batched/#{len(names)}")
            return names[v]
        return v
    man = d["manifest"]
    return {"world_size": d["world_size"], "manifest": {k: walk(man[k]) for k in sorted(man)}}


def rank_desc(wl, r):
    return wl["ranks"][r] + ([["shared", wl["shared"]]] if wl.get("shared") else [])


def restore_all(wl, path):
    """restore the snapshot at `path` into blank states on W simulated ranks -> (states per rank, errors)"""
    from lib.world import World
    from torchsnapshot import Snapshot, StateDict
    W = wl["W"]
    out = [None] * W
    world = World(W)

    def fn(r):
        tgt = StateDict(build_state(rank_desc(wl, r), blank=True))
        Snapshot(path).restore({"m": tgt})
        out[r] = tgt.data
        return True
    _, errs = world.run(fn)
    return out, [f"rank {r}: {type(e).__name__}: {e}"[:400] for r, e in enumerate(errs) if e is not None]


def sync_reference(ctx: Ctx, wl):
    """Snapshot.take of a fresh copy of the original state: canonical manifest and restored values."""
    import torch
    from lib.world import World
    from torchsnapshot import Snapshot, StateDict

    torch.serialization.add_safe_globals([Blob])
    W = wl["W"]
    root = ctx.scratch("c09s")
    ps = os.path.join(root, "sync")
    ref = {"errors": [], "manifest": None, "restored": None}
    repl = ["m/shared"] if wl.get("shared") else None
    try:
        with Env(wl["knobs"]):
            world = World(W)

            def fn_sync(r):
                Snapshot.take(ps, {"m": StateDict(build_state(rank_desc(wl, r)))}, replicated=repl)
                return True
            _, errs = world.run(fn_sync)
            ref["errors"] += [f"sync take rank {r}: {type(e).__name__}: {e}"[:400] for r, e in enumerate(errs) if e is not None]
            if ref["errors"]:
                return ref
            ref["manifest"] = manifest_canon(ps)
            ref["restored"], errs = restore_all(wl, ps)
            ref["errors"] += [f"restore(sync) {e}" for e in errs]
    finally:
        shutil.rmtree(root, ignore_errors=True)
    return ref


def run_async(ctx: Ctx, wl, P: int, ref=None):
    """One execution.  wl: {W, ranks: [desc per rank], shared: leaf|None, knobs, op}.  Returns observations."""
    import torch
    from lib.world import World
    from torchsnapshot import Snapshot, StateDict

    torch.serialization.add_safe_globals([Blob])
    if ref is None:
        ref = sync_reference(ctx, wl)
    W = wl["W"]
    root = ctx.scratch("c09")
    pa = os.path.join(root, "async")
    obs = {"errors": list(ref["errors"]), "diffs": [], "P": P, "bg_points_before_mutation": 0, "bg_points_total": 0,
           "writes": 0, "writes_after_return": 0, "writes_after_mutation": 0, "writes_in_flight_at_mutation": 0, "tensors_changed": 0}
    if obs["errors"]:
        return obs
    repl = ["m/shared"] if wl.get("shared") else None
    try:
        with Env(wl["knobs"]):
            counter = [0]
            world = World(W, choose=make_chooser(P, counter))
            changed = [0] * W

            def fn(r):
                live = build_state(rank_desc(wl, r))
                pending = Snapshot.async_take(pa, {"m": StateDict(live)}, replicated=repl)
                world.event("async_take_returned")
                world.sched.point("app:mutate")
                changed[r] = mutate(live, wl["op"])
                world.event("mutated")
                pending.wait()
                return True
            _, errs = world.run(fn)
            obs["errors"] += [f"async_take rank {r}: {type(e).__name__}: {e}"[:400] for r, e in enumerate(errs) if e is not None]
            if world.deadlock:
                obs["errors"].append(f"deadlock {world.deadlock}")
            obs["bg_points_before_mutation"] = min(P, counter[0])
            obs["bg_points_total"] = counter[0]
            evs = world.events
            mut_at = [e["n"] for e in evs if e["kind"] == "mutated"]
            ret_at = [e["n"] for e in evs if e["kind"] == "async_take_returned"]
            wb = [e for e in evs if e["kind"] == "write_begin" and e["path"] != ".snapshot_metadata"]
            obs["writes"] = len(wb)
            obs["writes_after_return"] = sum(1 for e in wb if ret_at and e["n"] > min(ret_at))
            obs["writes_after_mutation"] = sum(1 for e in wb if mut_at and e["n"] > min(mut_at))
            if mut_at:
                ends = {(e["rank"], e["nth"]) for e in evs if e["kind"] == "write_end" and e["n"] < min(mut_at)}
                obs["writes_in_flight_at_mutation"] = sum(1 for e in wb if e["n"] < min(mut_at) and (e["rank"], e["nth"]) not in ends)
            obs["tensors_changed"] = sum(changed)
            if obs["errors"]:
                return obs
            ma, ms = manifest_canon(pa), ref["manifest"]
            if ma != ms:
                ka = [k for k in sorted(set(ma["manifest"]) | set(ms["manifest"])) if ma["manifest"].get(k) != ms["manifest"].get(k)]
                obs["diffs"].append(["manifest", f"manifest of async_take differs from take at {ka[:3]}: "
                                     f"{json.dumps(ma['manifest'].get(ka[0]))[:200]} vs {json.dumps(ms['manifest'].get(ka[0]))[:200]}" if ka else "world_size differs"])
            rest, errs = restore_all(wl, pa)
            obs["errors"] += [f"restore(async) {e}" for e in errs]
            if obs["errors"]:
                return obs
            for r in range(W):
                orig = build_state(rank_desc(wl, r))
                d = same_value(orig, rest[r], f"rank{r}")
                if d:
                    obs["diffs"].append(["restored-vs-original", d])
                d = same_value(ref["restored"][r], rest[r], f"rank{r}")
                if d:
                    obs["diffs"].append(["restored-vs-sync", d])
                d = same_value(orig, ref["restored"][r], f"rank{r}")
                if d:
                    obs["diffs"].append(["sync-restored-vs-original", d])
    finally:
        shutil.rmtree(root, ignore_errors=True)
    return obs


def e2e_oracle(wl, obs):
    bad = []
    if obs["errors"]:
        return [("C09:async_take:run-raised", "; ".join(obs["errors"])[:500])]
    where = (f"[mutation after {obs['bg_points_before_mutation']} of {obs['bg_points_total']} background scheduling points; "
             f"{obs['writes_after_mutation']} of {obs['writes']} writes began after the mutation, {obs['writes_in_flight_at_mutation']} in flight; "
             f"knobs={wl['knobs']}]")
    for kind, d in obs["diffs"]:
        if kind == "restored-vs-original":
            bad.append(("C09:async_take:snapshot-restores-state-mutated-after-return",
                        f"restored value differs from the state when async_take returned: {d} {where}"))
        elif kind == "manifest":
            bad.append(("C09:async_take:manifest-differs-from-sync-take", f"{d} {where}"))
        elif kind == "restored-vs-sync":
            bad.append(("C09:async_take:restored-values-differ-from-sync-take", f"{d} {where}"))
        else:
            bad.append(("C09:take:sync-take-does-not-restore-the-original", f"{d} {where}"))
    return bad


def random_workload(rng, W=1):
    ranks = []
    for r in range(W):
        n = rng.randint(1, 6)
        ranks.append([[f"k{i}", random_leaf(rng)] for i in range(n)])
    wl = {"W": W, "ranks": ranks, "shared": None, "knobs": random_knobs(rng), "op": rng.randrange(6)}
    if W > 1:
        wl["shared"] = ["tensor", rng.choice(BP_DTYPES), rng.choice(["contig", "view", "transposed"]), rng.choice([3, 9, 16])]
    return wl


def corpus():
    """deterministic workloads aimed at the aliasing cases"""
    out = []
    for batching in (False, True):
        for budget in (100000000, 1):
            out.append({"W": 1, "ranks": [[["c", ["tensor", "float32", "contig", 5]], ["v", ["tensor", "int64", "view", 3]],
                                           ["t", ["tensor", "float64", "transposed", 3]], ["z", ["tensor", "complex64", "contig", 2]],
                                           ["b", ["tensor", "bfloat16", "contig", 3]], ["o", ["obj", "blob", 2]],
                                           ["l", ["list", [["tensor", "uint8", "strided", 4], ["prim", 7]]]]]],
                        "shared": None, "knobs": {"batching": batching, "chunk": None, "slab": None, "budget": budget, "ioc": None}, "op": 0})
    out.append({"W": 1, "ranks": [[["big", ["tensor", "float32", "contig", 16]], ["bigv", ["tensor", "int32", "view", 16]],
                                   ["o", ["obj", "tensor_tuple", 3]], ["d", ["dict", [["a", ["tensor", "bool", "contig", 5]], ["d1", ["obj", "bytearray", 1]]]]]]],
                "shared": None, "knobs": {"batching": False, "chunk": 16, "slab": None, "budget": 100000000, "ioc": 1}, "op": 1})
    out.append({"W": 1, "ranks": [[["a", ["tensor", "int16", "contig", 9]], ["b", ["tensor", "float16", "view", 5]], ["c", ["tensor", "int8", "contig", 16]]]],
                "shared": None, "knobs": {"batching": True, "chunk": 32, "slab": 24, "budget": 40, "ioc": 1}, "op": 2})
    # batching ON with tensors at / above the slab threshold: their write requests bypass the batcher (no slab copy),
    # next to small ones that are copied into a slab
    out.append({"W": 1, "ranks": [[["big", ["tensor", "float32", "contig", 16]], ["s", ["tensor", "int8", "contig", 3]], ["eq", ["tensor", "int64", "contig", 3]],
                                   ["bigv", ["tensor", "float64", "view", 9]], ["s2", ["tensor", "uint8", "contig", 5]]]],
                "shared": None, "knobs": {"batching": True, "chunk": None, "slab": 24, "budget": 100000000, "ioc": 1}, "op": 0})
    out.append({"W": 1, "ranks": [[["a", ["tensor", "int32", "contig", 16]], ["b", ["tensor", "float32", "contig", 5]], ["c", ["tensor", "int16", "contig", 2]]]],
                "shared": None, "knobs": {"batching": True, "chunk": 32, "slab": 8, "budget": 40, "ioc": 1}, "op": 3})
    # batching ON and a slab with exactly ONE member (a lone small tensor; a small tensor next to one that bypasses the batcher;
    # a lone tensor next to primitives and an object): a shortcut for one-member slabs must still take the defensive copy
    for op in (0, 1, 4):
        out.append({"W": 1, "ranks": [[["only", ["tensor", "float32", "contig", 5]]]],
                    "shared": None, "knobs": {"batching": True, "chunk": None, "slab": None, "budget": 100000000, "ioc": None}, "op": op})
    out.append({"W": 1, "ranks": [[["big", ["tensor", "float32", "contig", 16]], ["s", ["tensor", "int64", "contig", 2]]]],
                "shared": None, "knobs": {"batching": True, "chunk": None, "slab": 24, "budget": 100000000, "ioc": 1}, "op": 0})
    out.append({"W": 1, "ranks": [[["p", ["prim", 3]], ["t", ["tensor", "int16", "contig", 7]], ["o", ["obj", "blob", 2]]]],
                "shared": None, "knobs": {"batching": True, "chunk": None, "slab": None, "budget": 40, "ioc": 1}, "op": 2})
    return out


def positions(total: int, thorough: bool, rng):
    allp = list(range(total + 1))
    if thorough or len(allp) <= 5:
        return allp
    pick = {0, 1, total // 2, total - 1, total}
    return sorted(p for p in pick if 0 <= p <= total)


def check_e2e(ctx: Ctx, res: Result):
    rng = ctx.rng
    wls = corpus() + [random_workload(rng, 1) for _ in range(ctx.n(8, 60))] + [random_workload(rng, 2) for _ in range(ctx.n(2, 12))]
    for wl in wls:
        ref = sync_reference(ctx, wl)
        probe = run_async(ctx, wl, 10 ** 6, ref)     # the background runs to completion before the mutation
        total = probe["bg_points_total"]
        runs = [(10 ** 6, probe)]
        for P in positions(total, ctx.thorough, rng):
            if P < total:
                runs.append((P, run_async(ctx, wl, P, ref)))
        for P, obs in runs:
            res.case({"W": wl["W"], "ranks": wl["ranks"], "shared": wl["shared"], "knobs": wl["knobs"], "op": wl["op"], "P": P},
                     nontrivial=not obs["errors"] and obs["writes_after_mutation"] + obs["writes_in_flight_at_mutation"] > 0 and obs["tensors_changed"] > 0)
            if obs["errors"]:
                res.count("e2e.outcome", "raised")
            else:
                res.count("e2e.writes_after_mutation", min(obs["writes_after_mutation"], 6))
                res.count("e2e.writes_before_return", min(obs["writes"] - obs["writes_after_return"], 6))
                res.count("e2e.outcome", "differs" if obs["diffs"] else "equal")
            res.count("e2e.W", wl["W"]); res.count("e2e.batching", wl["knobs"]["batching"]); res.count("e2e.budget", wl["knobs"]["budget"])
            res.count("e2e.chunk", wl["knobs"]["chunk"]); res.count("e2e.slab", wl["knobs"]["slab"])
            for sig, msg in e2e_oracle(wl, obs):
                res.failures.append(Failure(sig, msg, {"kind": "e2e", "wl": wl, "P": P}))


# =========================================================================== stager level
def run_coro(c):
    loop = asyncio.new_event_loop()
    try:
        return loop.run_until_complete(c)
    finally:
        loop.close()


def tensor_entry(t, serializer):
    from torchsnapshot.manifest import TensorEntry
    from torchsnapshot.serialization import dtype_to_string
    return TensorEntry(location="x", serializer=serializer, dtype=dtype_to_string(t.dtype), shape=list(t.shape), replicated=False)


def layout_flags(t):
    return bool(t.is_contiguous()), bool(t.nelement() == t.untyped_storage().nbytes() // t.element_size())


def check_decision(ctx: Ctx, res: Result):
    import torch
    from torchsnapshot.io_preparers.tensor import TensorBufferStager
    cases, meta = [], []
    for ser in ("buffer_protocol", "torch_save", "per_tensor_qtensor"):
        for is_async in (False, True):
            for layout in LAYOUTS:
                t = make_tensor("float32", layout, 3)
                contig, whole = layout_flags(t)
                st = TensorBufferStager(tensor=t, entry=tensor_entry(t, ser), is_async_snapshot=is_async, _tensor_prepare_func=None)
                real = bool(st._should_copy_cpu_tensor())
                res.case({"kind": "decision", "serializer": ser, "async": is_async, "layout": layout}, nontrivial=True)
                cases.append((f"({term(ser)}, ({term(is_async)}, {term(contig)}, {term(not whole)}))", val(real)))
                meta.append({"serializer": ser, "async": is_async, "contiguous": contig, "nelem_ne_storage": not whole, "real": real})
    bad, errs = coqrun.run_cases("C09_decision", IMPORTS, "obs_should_copy", cases)
    for e in errs:
        res.mismatches.append(Mismatch(CORRESPONDENCES[0], "coqc error", None, e))
    for i in bad:
        res.mismatches.append(Mismatch(CORRESPONDENCES[0], meta[i], meta[i]["real"], None))


def stage_real(kind, t, is_async):
    """stage a request of the given kind around tensor t; returns (buffer, keepalive)"""
    from torchsnapshot.batcher import BatchedBufferStager
    from torchsnapshot.io_preparers.object import ObjectBufferStager
    from torchsnapshot.io_preparers.tensor import TensorBufferStager
    if kind == 0:
        st = TensorBufferStager(t, tensor_entry(t, "buffer_protocol"), is_async, None)
    elif kind == 1:
        st = TensorBufferStager(t, tensor_entry(t, "torch_save"), is_async, None)
    elif kind == 2:
        st = ObjectBufferStager((t, "tag"))
    else:
        n = t.nelement() * t.element_size()
        st = BatchedBufferStager({(0, n): TensorBufferStager(t, tensor_entry(t, "buffer_protocol"), is_async, None),
                                  (n, 2 * n): TensorBufferStager(t, tensor_entry(t, "buffer_protocol"), is_async, None)})
    return run_coro(st.stage_buffer()), st


def check_alias(ctx: Ctx, res: Result):
    import torch
    cases, meta = [], []
    for kind in (0, 1, 2, 3):
        for dtype in (BP_DTYPES if kind in (0, 3) else ["float32", "complex64"]):
            for layout in LAYOUTS:
                for is_async in (False, True):
                    t = make_tensor(dtype, layout, 3)
                    contig, whole = layout_flags(t)
                    buf, keep = stage_real(kind, t, is_async)
                    before = bytes(buf)
                    if mutate(t, 0) != 1:
                        raise RuntimeError("harness: mutation did not change the tensor")
                    aliased = bytes(buf) != before
                    res.case({"kind": "alias", "stager": kind, "dtype": dtype, "layout": layout, "async": is_async}, nontrivial=True)
                    res.count("alias.observed", f"kind{kind}:{'async' if is_async else 'sync'}:{'contig' if contig else 'noncontig'}:{'alias' if aliased else 'copy'}")
                    if aliased and is_async:
                        res.failures.append(Failure("C09:stager:buffer-staged-for-async_take-aliases-live-tensor",
                                                    f"stager kind {kind} dtype {dtype} layout {layout}: the bytes of the staged buffer "
                                                    f"changed when the tensor was mutated after stage_buffer()",
                                                    {"kind": "alias", "stager": kind, "dtype": dtype, "layout": layout}))
                    cases.append((f"({term(kind)}, ({term(is_async)}, {term(contig)}, {term(whole)}))", val(aliased)))
                    meta.append({"stager": kind, "dtype": dtype, "layout": layout, "async": is_async, "aliased": aliased})
    bad, errs = coqrun.run_cases("C09_alias", IMPORTS, "obs_alias_kind", cases)
    for e in errs:
        res.mismatches.append(Mismatch(CORRESPONDENCES[1], "coqc error", None, e))
    for i in bad:
        res.mismatches.append(Mismatch(CORRESPONDENCES[1], meta[i], meta[i]["aliased"], None))


def view_of(base, spec):
    """spec: ['whole'] | ['slice', a, b] | ['stride', k] | ['t', rows, cols]; returns (tensor, byte offsets)"""
    n = base.numel()
    if spec[0] == "whole":
        return base, list(range(n))
    if spec[0] == "slice":
        return base[spec[1]:spec[2]], list(range(spec[1], spec[2]))
    if spec[0] == "stride":
        return base[::spec[1]], list(range(0, n, spec[1]))
    r, c = spec[1], spec[2]
    return base[: r * c].reshape(r, c).t(), [i * c + j for j in range(c) for i in range(r)]


def check_runs(ctx: Ctx, res: Result):
    import torch
    from torchsnapshot.io_preparers.tensor import TensorBufferStager
    rng = ctx.rng
    cases, meta = [], []
    for _ in range(ctx.n(60, 600)):
        ncell = rng.randint(1, 3)
        cells = [[rng.randrange(256) for _ in range(rng.choice([1, 4, 6, 8]))] for _ in range(ncell)]
        bases = [torch.tensor(c, dtype=torch.uint8) for c in cells]
        tens, tdesc = [], []
        for _ in range(rng.randint(1, 4)):
            ci = rng.randrange(ncell)
            n = len(cells[ci])
            opts = [["whole"]]
            if n >= 4:
                a = rng.randint(0, n - 2)
                opts += [["slice", a, rng.randint(a + 1, n)], ["stride", 2], ["t", 2, n // 2]]
            spec = rng.choice(opts)
            t, idx = view_of(bases[ci], spec)
            contig, whole = layout_flags(t)
            tens.append(t)
            tdesc.append((ci, idx, contig, whole))
        is_async = rng.random() < 0.5
        bufs = [run_coro(TensorBufferStager(t, tensor_entry(t, "buffer_protocol"), is_async, None).stage_buffer()) for t in tens]
        steps, out = [], []
        nmut = 0
        for _ in range(rng.randint(1, 8)):
            if rng.random() < 0.45:
                ci = rng.randrange(ncell)
                b = [rng.randrange(256) for _ in cells[ci]]
                bases[ci].copy_(torch.tensor(b, dtype=torch.uint8))
                steps.append((0, ci, b))
                nmut += 1
            else:
                i = rng.randrange(len(bufs))
                steps.append((1, i, []))
                out.append([i, list(bytes(bufs[i]))])
        res.case({"kind": "run", "cells": cells, "tensors": [list(map(lambda x: x, d)) for d in tdesc], "async": is_async, "steps": steps},
                 nontrivial=nmut > 0 and len(out) > 0)
        res.count("run.flag", "async" if is_async else "sync")
        m_term = "[" + "; ".join(f"({term(i)}, {term(c)})" for i, c in enumerate(cells)) + "]"
        t_term = "[" + "; ".join(f"({term(ci)}, {term(idx)}, {term(contig)}, {term(whole)})" for ci, idx, contig, whole in tdesc) + "]"
        s_term = "[" + "; ".join(f"({term(k)}, {term(a)}, {term(b)})" for k, a, b in steps) + "]"
        cases.append((f"({m_term}, {t_term}, {term(is_async)}, {s_term})", val(out)))
        meta.append({"cells": cells, "tensors": tdesc, "async": is_async, "steps": steps, "written": out})
    bad, errs = coqrun.run_cases("C09_run", IMPORTS, "obs_run", cases, shard=200,
                                 in_type="list (Z * list Z) * list (Z * list Z * bool * bool) * bool * list (Z * Z * list Z)")
    for e in errs:
        res.mismatches.append(Mismatch(CORRESPONDENCES[2], "coqc error", None, e))
    for i in bad:
        res.mismatches.append(Mismatch(CORRESPONDENCES[2], meta[i], meta[i]["written"], None))
    res.traces_validated += len(cases)


# =========================================================================== entry points
def correspond(ctx: Ctx) -> Result:
    res = Result(rule=RULE)
    check_decision(ctx, res)
    check_alias(ctx, res)
    check_runs(ctx, res)
    check_e2e(ctx, res)
    return res


def replay(ctx: Ctx, data):
    if data["kind"] == "e2e":
        obs = run_async(ctx, data["wl"], data["P"])
        bad = e2e_oracle(data["wl"], obs)
        return Failure(bad[0][0], bad[0][1], data) if bad else None
    if data["kind"] == "alias":
        t = make_tensor(data["dtype"], data["layout"], 3)
        buf, keep = stage_real(data["stager"], t, True)
        before = bytes(buf)
        mutate(t, 0)
        if bytes(buf) != before:
            return Failure("C09:stager:buffer-staged-for-async_take-aliases-live-tensor", "staged bytes follow the live tensor", data)
    return None


MANIFEST = {
    "level_text": ("Machine-checked proof (Coq 8.16.1) over a model of what async_take hands to its background writer: memory "
                   "cells, staged buffers that are a Copy of bytes or an Alias of a live cell, one staging function per stager "
                   "kind (buffer-protocol tensor of any layout, torch_save tensor, object, batched slab) whose copy decision is "
                   "the function translated from TensorBufferStager._should_copy_cpu_tensor on every run (typed: str == Enum "
                   "member is false), then an arbitrary interleaving of in-place mutations and background writes. Proved: every "
                   "buffer staged for async_take is a copy; for every interleaving the bytes written are the bytes at return "
                   "time and equal those of a synchronous take, manifest entries identical (the async flag reaches only the "
                   "copy decision); staging is over at return (translated loop condition of execute_write_reqs); the legacy "
                   "comparison is refuted by a witness. Real async_take runs in a simulated rank with the application mutating "
                   "every tensor/object at every chosen position relative to the background writes, restore compared bit-exactly "
                   "with the original state and with a sync take; stager-level aliasing observed on the real stagers is compared "
                   "with the model."),
    "level_note": ("Trusted: Coq kernel+VM; translators gen_dtype/gen_sched; model AsyncCapture.v (clone = private copy; "
                   "torch.save serialises when called); simulated world scheduler; torch runtime (clone/contiguous/torch.save do "
                   "not share memory). Mutation during async_take itself, CUDA/UVM paths and the private tensor-prepare hook are "
                   "outside. No axioms."),
    "technique": "Coq proof over a Copy/Alias staging model with the source-translated copy decision + scheduled mutate-after-return runs of the real async_take",
    "design_ref": "DESIGN.md section 5, C09",
}
