"""C02 - Metadata is committed last: a crash leaves no snapshot or a complete one."""
from __future__ import annotations

import os
import random
import shutil

from lib import coqrun
from lib.core import Ctx, Failure, Mismatch, Result
from lib.tocoq import term, val
from props import commit_common as cc

PROP = "C02"
PROPS_FILE = "props/C02.v"
GEN = ["gen_commit", "gen_barrier"]
CORRESPONDENCES = ["sync-take:real-trace-accepted-by-model"]
RULE = ("real Snapshot.take and async_take+wait on 1-4 simulated ranks (threads under a deterministic scheduler; "
        "workloads: private/replicated tensors, per-rank extra keys, batching on/off, chunking) under schedules "
        "{fifo, lifo, starve rank r, starve all but r, random}; for each recorded write history crash cuts at write "
        "boundaries are materialised into a scratch directory (completed writes present; in-flight write absent / "
        "half / complete; metadata torn at several offsets) and the real Snapshot(path).metadata / restore is run; the same "
        "check on the storage state left by attempts in which a payload write failed (empty and non-empty error messages). "
        "Non-trivial = at least 2 ranks; distinct by (workload, mode, schedule) and (cut index, variant).")
TRUSTED = [
    "Coq 8.16.1 kernel and vm_compute; theorems closed under the global context",
    "translator/gen_commit.py (statement classification of Snapshot.take's commit tail; fail closed)",
    "model: a collective barrier lets a rank pass only when every rank has arrived; a raised rank never arrives "
    "(a rank blocked in a barrier may time out and raise); one linearised storage history with prefix-growing files",
    "harness: lib/dsched.py + lib/world.py (simulated process group, store and hooked FS plugin), crash-cut materialisation",
]
ASSUMPTIONS = [
    "storage writes become visible in one linearised order and a file's content grows as a prefix (a real file system may "
    "persist data and directory entries in a different order across a power loss: not modelled)",
    "a torn metadata file is rejected on read (C14_strict_prefix_rejected; tested here at sampled offsets)",
    "the async variant's barrier protocol is the subject of C13 (its theorems commit_after_all_arrive / depart_after_commit); "
    "here it is exercised end to end",
]
IMPORTS = "From TS Require Import model.Commit.\n"


def schedules(wl, rng, thorough):
    W = wl["W"]
    out = ["fifo", "lifo", ("starve", W - 1), ("starve_others", 0), "random"]
    if W > 1:
        out.append(("starve", 0))
    if thorough:
        out += [("starve", r) for r in range(1, W - 1)] + [("starve_others", r) for r in range(1, W)] + ["random", "random"]
    return out


def correspond(ctx: Ctx) -> Result:
    res = Result(rule=RULE)
    rng = ctx.rng
    coq, meta = [], []
    nwl = ctx.n(7, 40)
    for i, wl in enumerate(cc.workloads(rng, nwl)):
        for mode in ("sync", "async"):
            for si, sched in enumerate(schedules(wl, rng, ctx.thorough)):
                root = ctx.scratch("take")
                path = os.path.join(root, "snap")
                seed = rng.randrange(1 << 30)
                world = cc.run_take(wl, path, mode, sched, seed)
                replay = {"workload": wl, "mode": mode, "sched": sched, "seed": seed}
                res.case({"W": wl["W"], "mode": mode, "sched": str(sched), "batching": wl["batching"], "chunk": wl["chunk"],
                          "writes": len(cc.writes_of(world))}, nontrivial=wl["W"] >= 2)
                res.count("W", wl["W"]); res.count("mode", mode); res.count("sched", str(sched) if isinstance(sched, str) else sched[0])
                if world.deadlock or any(e is not None for e in world.errors):
                    res.failures.append(Failure(f"C02:{mode}:take-did-not-complete",
                                                f"{mode} take failed without any injected fault: errors={[str(e)[:100] for e in world.errors]} deadlock={world.deadlock}", replay))
                    shutil.rmtree(root, ignore_errors=True)
                    continue
                for sig, msg in cc.oracle_commit_order(world, mode):
                    res.failures.append(Failure(sig, f"{msg} [W={wl['W']} sched={sched}]", replay))
                # final state must restore
                ok, detail = cc.run_restore(wl, path)
                if not ok:
                    res.failures.append(Failure(f"C02:{mode}:committed-snapshot-does-not-restore", detail, replay))
                # crash cuts ----------------------------------------------------
                ws = cc.writes_of(world)
                points = sorted({w["begin"] for w in ws} | {w["begin"] + 1 for w in ws} | {w["end"] for w in ws if w["end"] is not None}
                                | {w["end"] + 1 for w in ws if w["end"] is not None})
                if not ctx.thorough and si > 1:
                    points = rng.sample(points, min(4, len(points)))
                elif not ctx.thorough:
                    points = rng.sample(points, min(10, len(points)))
                mlen = os.path.getsize(os.path.join(path, cc.META))
                for k in points:
                    offs = [None]
                    if any(w["path"] == cc.META and w["begin"] < k and (w["end"] is None or w["end"] >= k) for w in ws):
                        offs = [0, 1, mlen // 2, mlen - 1] if not ctx.thorough else sorted(set([0, 1, 2, mlen // 3, mlen // 2, mlen - 2, mlen - 1] + [rng.randrange(mlen) for _ in range(6)]))
                    for off in offs:
                        cut = os.path.join(root, f"cut{k}_{off}")
                        vr = random.Random(f"{seed}:{k}:{off}")
                        cc.materialise_cut(path, cut, world, k, vr, torn_meta_at=off)
                        msg = cc.check_cut(wl, cut)
                        res.evaluations += 1
                        res.nontrivial.add(f"cut:{i}:{mode}:{si}:{k}:{off}")
                        res.count("cut.kind", "meta-torn" if off is not None else "payload-boundary")
                        if msg:
                            res.failures.append(Failure(f"C02:{mode}:crash-cut-readable-but-incomplete",
                                                        f"crash before event {k} (metadata cut at {off}): {msg} [W={wl['W']} sched={sched}]",
                                                        dict(replay, cut=k, torn=off)))
                        shutil.rmtree(cut, ignore_errors=True)
                # correspondence with the Coq model (sync tail) ---------------------
                if mode == "sync":
                    evs, nwr = cc.model_trace(wl, world)
                    exp = [[1] * len(evs), [2] * wl["W"], 2]
                    coq.append((f"({term(nwr)}, {term([tuple(e) for e in evs])})", val(exp)))
                    meta.append(replay)
                shutil.rmtree(root, ignore_errors=True)
    check_after_failed_write(ctx, res)
    bad, errs = coqrun.run_cases("C02_sync", IMPORTS, "obs_commit", coq, shard=100, in_type="list Z * list (Z * Z)")
    for e in errs:
        res.mismatches.append(Mismatch(CORRESPONDENCES[0], "coqc error", None, e))
    for i in bad:
        res.mismatches.append(Mismatch(CORRESPONDENCES[0], meta[i], coq[i][0][:800], None))
    res.traces_validated += len(coq)
    return res


def check_after_failed_write(ctx: Ctx, res: Result):
    """the storage state left behind by an attempt in which a payload write FAILED (any rank, any write, error message
    empty or not) is 'no snapshot or a complete one' too: opening it raises, or it restores completely"""
    rng = ctx.rng
    for i, wl in enumerate(cc.workloads(rng, ctx.n(6, 30))):
        for mode in ("sync", "async"):
            root = ctx.scratch("ref")
            ref = cc.run_take(wl, os.path.join(root, "snap"), mode, "fifo")
            shutil.rmtree(root, ignore_errors=True)
            if ref.deadlock or any(e is not None for e in ref.errors):
                continue
            targets = [(r, n) for r in range(wl["W"]) for n in range(ref.nwrites[r]) if not (r == 0 and n == ref.nwrites[0] - 1)]
            for (fr, fn_) in rng.sample(targets, min(len(targets), ctx.n(2, 5))):
                root = ctx.scratch("failw")
                path = os.path.join(root, "snap")
                seed = rng.randrange(1 << 30)
                how = ("fail-empty", "fail-late", "fail")[seed % 3]
                sched = rng.choice(["fifo", "random", ("starve", fr)])
                world = cc.run_take(wl, path, mode, sched, seed, write_policy=lambda r, p, n, fr=fr, fn_=fn_, how=how: how if (r == fr and n == fn_) else None)
                replay = {"workload": wl, "mode": mode, "sched": sched, "seed": seed, "fail_rank": fr, "fail_nth": fn_, "how": how}
                failed = [w for w in cc.writes_of(world) if w["failed"]]
                res.evaluations += 1
                res.nontrivial.add(f"failw:{i}:{mode}:{fr}:{fn_}:{how}")
                res.count("failed_write_runs", f"{mode}:{'empty' if how == 'fail-empty' else 'text'}-message")
                again = sorted({e["rank"] for e in world.events if e["kind"] == "second_wait_returned"})
                if again and not os.path.exists(os.path.join(path, cc.META)):
                    res.failures.append(Failure(f"C02:{mode}:second-wait-returned-normally-without-commit",
                                                f"write #{fn_} of rank {fr} failed: the first wait() raised, a second wait() on the same handle returned normally on ranks {again} "
                                                f"but the snapshot is not committed [W={wl['W']} sched={sched}]", replay))
                if failed and failed[0]["path"] != cc.META:
                    msg = cc.check_cut(wl, path)
                    if msg:
                        res.failures.append(Failure(f"C02:{mode}:readable-but-incomplete-after-failed-write",
                                                    f"payload write #{fn_} of rank {fr} failed ({how}), yet {msg} [W={wl['W']} sched={sched}]", replay))
                shutil.rmtree(root, ignore_errors=True)


def replay(ctx: Ctx, data):
    wl = data["workload"]
    if "fail_rank" in data:
        root = ctx.scratch("replay")
        path = os.path.join(root, "snap")
        sched = data["sched"] if isinstance(data["sched"], str) else tuple(data["sched"])
        fr, fn_ = data["fail_rank"], data["fail_nth"]
        cc.run_take(wl, path, data["mode"], sched, data["seed"], write_policy=lambda r, p, n: data["how"] if (r == fr and n == fn_) else None)
        msg = cc.check_cut(wl, path)
        shutil.rmtree(root, ignore_errors=True)
        return Failure(f"C02:{data['mode']}:readable-but-incomplete-after-failed-write", msg, data) if msg else None
    root = ctx.scratch("replay")
    path = os.path.join(root, "snap")
    sched = data["sched"] if isinstance(data["sched"], str) else tuple(data["sched"])
    world = cc.run_take(wl, path, data["mode"], sched, data["seed"])
    bad = cc.oracle_commit_order(world, data["mode"])
    if not bad and data.get("cut") is not None:
        cut = os.path.join(root, "cut")
        cc.materialise_cut(path, cut, world, data["cut"], random.Random(f"{data['seed']}:{data['cut']}:{data.get('torn')}"), torn_meta_at=data.get("torn"))
        msg = cc.check_cut(wl, cut)
        if msg:
            bad = [(f"C02:{data['mode']}:crash-cut-readable-but-incomplete", msg)]
    shutil.rmtree(root, ignore_errors=True)
    return Failure(bad[0][0], bad[0][1], data) if bad else None


MANIFEST = {
    "level_text": ("Machine-checked proof (Coq 8.16.1): the commit tail of Snapshot.take is translated from snapshot.py on every "
                   "run into a program skeleton (Complete / Barrier / rank-0 metadata write / Barrier); a decidable ordering "
                   "condition is proved sound for every program it accepts - for any number of ranks, any number of payload "
                   "writes per rank and every interleaving with non-atomic writes and failures, every reachable state (= crash "
                   "cut) has no metadata, or metadata only after all payload is complete, and a rank returns only after the "
                   "metadata is complete; the per-run obligation is checker(generated skeleton) = true. Real take/async_take "
                   "executions in a simulated multi-rank world (adversarial schedules) must be accepted by the model, satisfy "
                   "the ordering directly, and survive crash cuts materialised on real storage (open raises, or full restore)."),
    "level_note": ("Trusted: Coq kernel+VM, translator, barrier semantics of the model (with a nondeterministic timeout action), simulated process group / "
                   "store / FS hooks, crash-cut materialisation (one linearised history, prefix-growing files). The async barrier "
                   "protocol itself is proved under C13. No axioms."),
    "technique": "Coq proof of a reflective ordering checker over the source-translated commit skeleton + trace acceptance and crash cuts on real storage",
    "design_ref": "DESIGN.md section 5, C02",
}
