"""C12 - All ranks issue the same collective sequence whatever their local state."""
from __future__ import annotations

import json
import os
import shutil

from lib import coqrun
from lib.core import Ctx, Failure, Mismatch, Result
from lib.dsched import Deadlock
from lib.tocoq import term, val
from lib.world import CollectiveMismatch, World

PROP = "C12"
PROPS_FILE = "props/C12.v"
GEN = ["gen_coll"]
CORRESPONDENCES = ["recorded-collective-sequences~generated-skeletons"]
RULE = ("real Snapshot.take / async_take+wait / restore on 2-4 simulated ranks whose application states differ: per-rank "
        "key sets disjoint, nested, or empty on some ranks; RNGState on a subset of ranks; value kinds (tensor, object, "
        "primitive) varied; memory-budget override set or unset; per-rank free memory (values around the points where the "
        "automatic budget reaches its cap) and per-rank host names (one host, one per rank, pairs); restore with key sets "
        "different from the saving ones. "
        "Each rank's recorded collective sequence must be a possible trace of the generated skeleton. Non-trivial = key "
        "sets differ between ranks; distinct by (scenario, api).")
TRUSTED = [
    "Coq 8.16.1 kernel and vm_compute; theorems closed under the global context",
    "translator/gen_coll.py: interprocedural inlining of every function that can reach a PGWrapper collective; "
    "classification of conditions (uniform only if on an explicit list or statically decided); fail closed",
    "lib/world.py rendezvous (detects kind mismatch and deadlock) standing in for gloo object collectives",
]
ASSUMPTIONS = [
    "conditions classified Uniform really are identical on all ranks: environment knobs (memory-budget override, batching, "
    "partitioner) are set identically (free memory and host names are rank-local and are varied per rank by the harness); torch.distributed / the default store are initialised on all ranks or none; the "
    "global key list is the sorted union gathered by all_gather_object",
    "collectives issued by application code inside state_dict()/load_state_dict() are the application's responsibility "
    "(the library separates stateful objects by barriers)",
    "error paths (raise) are not part of the sequence",
]
IMPORTS = "From TS Require Import model.Collectives gen.CollGen.\n"
KIND = {"barrier": 0, "broadcast_object_list": 1, "all_gather_object": 2, "scatter_object_list": 3}


def scenario(rng):
    W = rng.choice([2, 2, 3, 3, 4])
    style = rng.choice(["disjoint", "nested", "some-empty", "same", "random"])
    allkeys = ["a", "b", "c", "d"]
    keysets = []
    for r in range(W):
        if style == "disjoint":
            ks = [allkeys[r % 4]]
        elif style == "nested":
            ks = allkeys[: (r % 3) + 1]
        elif style == "some-empty":
            ks = [] if r % 2 == 1 else rng.sample(allkeys, rng.randint(1, 3))
        elif style == "same":
            ks = allkeys[:2]
        else:
            ks = rng.sample(allkeys, rng.randint(0, 4))
        keysets.append(sorted(ks))
    rng_ranks = [r for r in range(W) if rng.random() < 0.4]
    # rank-local runtime state: free memory of the rank's host (in GiB; boundary values around the points where
    # 0.6 * available / n crosses the 32 GiB cap for n = 1..W) and the host the rank runs on
    GiB = 1 << 30
    bars = [int(32 * GiB * n / 0.6) for n in (1, 2, 3, 4)]
    pool = [8 * GiB, 48 * GiB, 2048 * GiB] + [b + d for b in bars for d in (-GiB, GiB)]
    hostsets = rng.choice(["one", "each", "pairs"])
    hosts = [{"one": "h0", "each": f"h{r}", "pairs": f"h{r // 2}"}[hostsets] for r in range(W)]
    per_host = {h: rng.choice(pool) for h in hosts}
    mem = [per_host[hosts[r]] if rng.random() < 0.8 else rng.choice(pool) for r in range(W)]
    # value kinds that differ between ranks for ONE path under a replication glob (the property: "independent of ... value
    # kinds ... it registers locally"): a Python primitive (inlined in the manifest, no write request) on some ranks, a tensor
    # on the others.  Only with the glob "**" and a key every rank has.
    skew = rng.choice([None, None, None, "prim-on-0", "tensor-on-0"])
    # an explicit process group handed to take / async_take, and restore through the Snapshot object those calls return
    explicit_pg = rng.random() < 0.5
    return {"W": W, "style": style, "keys": keysets, "rng_ranks": rng_ranks, "override": rng.random() < 0.35, "mem": mem, "hosts": hosts, "skew": skew, "explicit_pg": explicit_pg,
            "kinds": {k: rng.choice(["tensor", "object", "prim", "mixed"]) for k in allkeys},
            "restore_shift": rng.choice([0, 0, 1]),
            "replicated": (["**"] if skew else rng.choice([None, None, ["**"], ["a/**"], ["b/t", "zz_rng/**"]]))}


def make_state(sc, r, fill, shift=0):
    import torch
    from torchsnapshot import RNGState, StateDict
    keys = sc["keys"][(r + shift) % sc["W"]] if shift else sc["keys"][r]
    st = {}
    globs = sc.get("replicated") or []
    for k in keys:
        kind = sc["kinds"][k]
        # data declared replicated must really be identical on all ranks (declaring different data replicated is a
        # usage error that raises on every rank): such stateful objects get rank-independent values
        rr = 0 if any(g == "**" or g.startswith(k + "/") for g in globs) else r
        d = {}
        if kind in ("tensor", "mixed"):
            d["t"] = torch.full((3,), float(10 * rr + ord(k))) if fill else torch.zeros(3)
        common = [x for x in sc["keys"][0] if all(x in ks for ks in sc["keys"])]
        if sc.get("skew") and common and k == common[0]:
            prim_here = (r == 0) == (sc["skew"] == "prim-on-0")
            d["s"] = 7 if prim_here else (torch.full((2,), 7.0) if fill else torch.zeros(2))
        if kind in ("object", "mixed"):
            d["o"] = (rr, k) if fill else None
        if kind in ("prim", "mixed"):
            d["p"] = 100 * rr + ord(k) if fill else -1
        st[k] = StateDict(d)
    if ((r + shift) % sc["W"] if shift else r) in sc["rng_ranks"]:
        st["zz_rng"] = RNGState()
    return st


class _GroupTag:
    """stands for a torch.distributed.ProcessGroup in the simulated world (PGWrapper only stores and forwards it)"""
    def __repr__(self):
        return "<the group given by the application>"


_HANDLES = {}        # path -> per-rank Snapshot objects returned by take / async_take().wait()
_GROUP = _GroupTag()


def run_api(sc, api, path):
    from torchsnapshot import Snapshot
    world = World(sc["W"])
    pg = _GROUP if sc.get("explicit_pg") else None

    def fn(r):
        if api == "take":
            _HANDLES.setdefault(path, {})[r] = Snapshot.take(path, make_state(sc, r, True), replicated=sc.get("replicated"), pg=pg)
        elif api == "async_take":
            _HANDLES.setdefault(path, {})[r] = Snapshot.async_take(path, make_state(sc, r, True), replicated=sc.get("replicated"), pg=pg).wait()
        else:
            st = make_state(sc, r, False, shift=0)
            # restore through the object that take()/wait() returned on this rank when there is one (it must carry the
            # application's process group), else through a fresh Snapshot
            src = sc.get("restore_from") or path
            handle = _HANDLES.get(src, {}).get(r) if sc.get("explicit_pg") else None
            (handle if handle is not None else Snapshot(path, pg=pg)).restore(st)
            exp = make_state(sc, r, True)
            ok = True
            for k in st:
                if k == "zz_rng":
                    continue
                a, b = st[k].state_dict(), exp[k].state_dict()
                for kk in b:
                    if kk == "s":
                        continue          # the value-kind-skewed path: which rank's value a restore delivers is not specified
                    import torch
                    if isinstance(b[kk], torch.Tensor):
                        ok = ok and torch.equal(a[kk], b[kk])
                    else:
                        ok = ok and a[kk] == b[kk]
            return ok
        return True
    import torchsnapshot.scheduler as schedmod

    class _VM:
        def __init__(self, available):
            self.available = available

    class _Psutil:
        """psutil as one rank's process sees it: the free memory of that rank's host"""
        def __getattr__(self, name):
            return getattr(real_psutil, name)

        def virtual_memory(self):
            try:
                r = world.rank()
            except RuntimeError:
                return real_psutil.virtual_memory()
            return _VM(sc["mem"][r]) if sc.get("mem") else real_psutil.virtual_memory()

    class _Socket:
        def __getattr__(self, name):
            return getattr(real_socket, name)

        def gethostname(self):
            try:
                r = world.rank()
            except RuntimeError:
                return real_socket.gethostname()
            return sc["hosts"][r] if sc.get("hosts") else real_socket.gethostname()
    real_psutil, real_socket = schedmod.psutil, schedmod.socket
    schedmod.psutil, schedmod.socket = _Psutil(), _Socket()
    saved = os.environ.get("TORCHSNAPSHOT_PER_RANK_MEMORY_BUDGET_BYTES")
    if sc["override"]:
        os.environ["TORCHSNAPSHOT_PER_RANK_MEMORY_BUDGET_BYTES"] = "50000000"
    else:
        os.environ.pop("TORCHSNAPSHOT_PER_RANK_MEMORY_BUDGET_BYTES", None)
    try:
        world.run(fn)
    finally:
        schedmod.psutil, schedmod.socket = real_psutil, real_socket
        if saved is None:
            os.environ.pop("TORCHSNAPSHOT_PER_RANK_MEMORY_BUDGET_BYTES", None)
        else:
            os.environ["TORCHSNAPSHOT_PER_RANK_MEMORY_BUDGET_BYTES"] = saved
    return world


def correspond(ctx: Ctx) -> Result:
    res = Result(rule=RULE)
    rng = ctx.rng
    coq = {"take": [], "async_take": [], "restore": []}
    meta = {"take": [], "async_take": [], "restore": []}
    corpus = [{"W": 3, "style": "corpus-D11", "keys": [["a"], ["a", "b"], ["a"]], "rng_ranks": [1], "override": False,
               "kinds": {"a": "tensor", "b": "tensor", "c": "prim", "d": "prim"}, "restore_shift": 0},
              {"W": 2, "style": "corpus-empty", "keys": [[], ["a"]], "rng_ranks": [0], "override": False,
               "kinds": {"a": "mixed", "b": "tensor", "c": "prim", "d": "prim"}, "restore_shift": 0}]
    for i in range(ctx.n(25, 200) + len(corpus)):
        sc = corpus[i] if i < len(corpus) else scenario(rng)
        root = ctx.scratch("c12")
        path = os.path.join(root, "snap")
        for label in ("take", "async_take", "restore", "restore(async handle)"):
            api = "restore" if label.startswith("restore") else label
            p = path + "_async" if label in ("async_take", "restore(async handle)") else path
            world = run_api(sc, api, p)
            differ = len({tuple(k) for k in sc["keys"]}) > 1 or 0 < len(sc["rng_ranks"]) < sc["W"]
            res.case({"api": api, "W": sc["W"], "style": sc["style"], "keys": sc["keys"], "rng_ranks": sc["rng_ranks"], "override": sc["override"], "replicated": sc.get("replicated")},
                     nontrivial=differ)
            res.count("api", api); res.count("style", sc["style"]); res.count("override", sc["override"]); res.count("free_memory_differs", len(set(sc.get("mem") or [0])) > 1); res.count("hosts", len(set(sc.get("hosts") or [0]))); res.count("W", sc["W"]); res.count("replicated_globs", str(sc.get("replicated")))
            replay = {"scenario": sc, "api": api}
            # --- the property, directly ---------------------------------------------------------------
            errs = [e for e in world.errors if e is not None]
            mism = [e for e in errs if isinstance(e, CollectiveMismatch)]
            dead = [e for e in errs if isinstance(e, Deadlock)]
            res.count("value_kind_skew", str(sc.get("skew"))); res.count("explicit_pg", bool(sc.get("explicit_pg")))
            if sc.get("explicit_pg"):
                other = sorted({repr(g) for r in range(sc["W"]) for g in world.coll_pg[r] if g is not _GROUP})
                if other:
                    res.failures.append(Failure(f"C12:{api}:collectives-on-another-group",
                                                f"{api}: the application passed its own process group, yet collectives were issued on {other} "
                                                f"(a restore goes through the Snapshot object returned by {'async_take().wait()' if p.endswith('_async') else 'take()'}) keys={sc['keys']}", replay))
            if (sc.get("skew") == "tensor-on-0" and isinstance(world.errors[0], KeyError)
                    and all(isinstance(e, Deadlock) for e in world.errors[1:])):
                res.failures.append(Failure("C12:replicated-path-kinds-differ:rank0-KeyError-peers-blocked",
                                            f"{api}: a path under the replication glob holds a tensor on rank 0 and a Python primitive on another rank: rank 0 raised KeyError "
                                            f"in the partitioner, the other ranks are blocked in {world.deadlock} keys={sc['keys']}", replay))
                break
            if mism:
                res.failures.append(Failure(f"C12:{api}:collective-mismatch", f"{api}: {mism[0]} keys={sc['keys']} rng={sc['rng_ranks']} override={sc['override']}", replay))
            elif dead:
                res.failures.append(Failure(f"C12:{api}:deadlock", f"{api}: ranks blocked: {world.deadlock} keys={sc['keys']} rng={sc['rng_ranks']} override={sc['override']}", replay))
            elif errs:
                res.failures.append(Failure(f"C12:{api}:raised", f"{api} raised {type(errs[0]).__name__}: {str(errs[0])[:200]} keys={sc['keys']}", replay))
            elif len({tuple(l) for l in world.coll_log}) != 1:
                res.failures.append(Failure(f"C12:{api}:sequences-differ", f"{api}: per-rank collective sequences differ: {world.coll_log}", replay))
            elif api == "restore" and not all(world.results):
                res.failures.append(Failure("C12:restore:state-not-restored-to-its-ranks",
                                            f"restore did not reproduce the per-rank state on ranks {[r for r, x in enumerate(world.results) if not x]} keys={sc['keys']}", replay))
            if api == "take" and not errs:
                # state registered on only some ranks is saved by exactly those ranks
                from torchsnapshot import Snapshot
                man = Snapshot(p).get_manifest()
                for r in range(sc["W"]):
                    saved_keys = {q.split("/")[1] for q in man if q.split("/")[0] == str(r) and len(q.split("/")) > 1}
                    want = set(sc["keys"][r]) | ({"zz_rng"} if r in sc["rng_ranks"] else set())
                    if saved_keys != want:
                        res.failures.append(Failure("C12:take:state-saved-by-wrong-ranks", f"rank {r} saved keys {sorted(saved_keys)} but registered {sorted(want)}", replay))
            # --- correspondence: recorded sequences are traces of the generated skeleton ---------------------
            for r in range(sc["W"]):
                seq = [KIND[k] for k in world.coll_log[r]]
                complete = world.errors[r] is None
                if complete:
                    coq[api].append((term(seq), val(True)))
                    meta[api].append(dict(replay, rank=r, seq=seq))
        shutil.rmtree(root, ignore_errors=True)
    for api, skel in (("take", "gen_take_skel"), ("async_take", "gen_async_take_skel"), ("restore", "gen_restore_skel")):
        # distinct sequences only (most runs repeat a few shapes)
        uniq = {}
        for c, m in zip(coq[api], meta[api]):
            uniq.setdefault(c[0], (c, m))
        cases = [c for c, _ in uniq.values()]
        metas = [m for _, m in uniq.values()]
        bad, errs = coqrun.run_cases(f"C12_{api}", IMPORTS, f"obs_accepts {skel}", cases, shard=200, in_type="list Z")
        for e in errs:
            res.mismatches.append(Mismatch(CORRESPONDENCES[0], "coqc error", None, e))
        for i in bad:
            res.mismatches.append(Mismatch(CORRESPONDENCES[0], metas[i], "sequence not a trace of " + skel, None))
        res.traces_validated += len(coq[api])
        res.count("distinct_sequences." + api, len(cases))
    try:
        side = json.load(open("/verif/coq/gen/CollGen.json"))
        res.notes.append({"skeleton_conditions": side["ids"], "uniformity_assumptions": side["assumptions"]})
    except Exception:
        pass
    return res


def replay(ctx: Ctx, data):
    sc, api = data["scenario"], data["api"]
    root = ctx.scratch("replay")
    path = os.path.join(root, "snap")
    if api == "restore":
        w0 = run_api(sc, "take", path)
        if any(e is not None for e in w0.errors):
            return Failure("C12:take:raised", str(w0.errors), data)
    world = run_api(sc, api, path)
    shutil.rmtree(root, ignore_errors=True)
    errs = [e for e in world.errors if e is not None]
    if errs:
        return Failure(f"C12:{api}:collective-mismatch-or-deadlock", str(errs[0])[:300], data)
    if len({tuple(l) for l in world.coll_log}) != 1:
        return Failure(f"C12:{api}:sequences-differ", str(world.coll_log), data)
    return None


MANIFEST = {
    "level_text": ("Machine-checked proof (Coq 8.16.1): a fail-closed interprocedural translator turns take, async_take and "
                   "restore (every function from which a PGWrapper collective is reachable, inlined) into collective "
                   "skeletons with branches/loops classified uniform or rank-local; a decidable uniformity condition is proved "
                   "sound for every skeleton (the collective trace is independent of all rank-local conditions and loop counts, "
                   "which may differ per iteration; early returns handled by scopes); the per-run obligations are uniform(generated "
                   "skeleton) = true for the three APIs and 'background completion issues no collective'. The translation is "
                   "validated every run: each rank's recorded collective sequence in a simulated multi-rank world (differing key "
                   "sets, RNGState on subsets, override on/off) must be a trace of the skeleton; mismatch/deadlock are detected "
                   "directly."),
    "level_note": ("Trusted: Coq kernel+VM, the translator and its list of uniform conditions (environment knobs identical on all "
                   "ranks, initialisation state identical), the simulated process group. Collectives inside application "
                   "state_dict/load_state_dict and error paths are out of scope. No axioms."),
    "technique": "Coq soundness proof of a uniformity checker over source-translated collective skeletons + acceptance of recorded real sequences",
    "design_ref": "DESIGN.md section 5, C12",
}
