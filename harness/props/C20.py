"""C20 - Filesystem plugin and memoryview stream preserve bytes exactly."""
from __future__ import annotations

import asyncio
import io
import itertools
import os

from lib import coqrun
from lib.core import Ctx, Failure, Mismatch, Result
from lib.tocoq import Ctor, Raw, Some, term, val

PROP = "C20"
PROPS_FILE = "props/C20.v"
GEN = ["gen_stream"]
CORRESPONDENCES = ["stream:MemoryviewStream~model", "stream:BytesIO~spec", "fs:FSStoragePlugin~model"]
RULE = ("stream: all op sequences up to a bound over a 13-op alphabet (read n/None, seek pos whence incl. bad whence, "
        "tell, close) on several buffers + random longer ones; fs: random sets of concurrent writes (bytes and "
        "memoryview, empty, nested paths, overwrites) followed by whole, every-(a,b) ranged, past-EOF and missing-path "
        "reads. A case is non-trivial when it contains at least one read that returns data; distinct by content hash.")
TRUSTED = [
    "Coq 8.16.1 kernel and its vm_compute VM (no native_compute)",
    "translator/gen_stream.py (MemoryviewStream.read/seek/tell statement by statement; the file operations of "
    "FSStoragePlugin.read/write over the modelled POSIX file handle of coq/model/FsStream.v; fail closed), also exercised by "
    "differential runs of the generated terms against the real classes (this harness); "
    "the OS file system, aiofiles and CPython's io.BytesIO are runtime, modelled not verified",
    "harness/props/C20.py generators, canonicalisation and lib/tocoq.py literal printer",
]
ASSUMPTIONS = [
    "a path names one file: path normalisation/aliasing by the OS ('..', symlinks) is excluded here (C05 covers confinement)",
    "POSIX read semantics: seek(a); read(n) returns min(n, remaining) bytes",
]

IMPORTS = "From TS Require Import model.FsStream model.StreamGenObs.\n"


# --------------------------------------------------------------------------- stream
def op_term(op) -> str:
    k = op[0]
    if k == "read":
        return term(Ctor("SRead", None if op[1] is None else Some(op[1])))
    if k == "seek":
        return term(Ctor("SSeek", op[1], op[2]))
    if k == "tell":
        return "STell"
    return "SClose"


def run_stream(make, data: bytes, ops):
    s = make(data)
    out = []
    for op in ops:
        try:
            if op[0] == "read":
                r = s.read(op[1])
                out.append([0, list(bytes(r))])
            elif op[0] == "seek":
                out.append([1, s.seek(op[1], op[2])])
            elif op[0] == "tell":
                out.append([1, s.tell()])
            else:
                s.close()
                out.append([3])
        except ValueError:
            out.append([2])
    return out


def stream_alphabet(n: int):
    return [("read", None), ("read", -1), ("read", 0), ("read", 1), ("read", n + 1),
            ("seek", 0, 0), ("seek", -1, 0), ("seek", n + 2, 0), ("seek", -1, 1), ("seek", 1, 1),
            ("seek", -2, 2), ("seek", 0, 3), ("tell",), ("close",)]


def stream_cases(ctx: Ctx):
    rng = ctx.rng
    cases = []
    datas = [b"", b"\x07", bytes([1, 2, 3])]
    depth = 4 if ctx.thorough else 3
    for d in datas[1:]:
        alpha = stream_alphabet(len(d))
        for k in range(1, depth + 1):
            if k == depth and not ctx.thorough and d != datas[2]:
                continue
            for ops in itertools.product(alpha, repeat=k):
                cases.append((d, list(ops)))
    alpha = stream_alphabet(0)
    for k in range(1, 3):
        for ops in itertools.product(alpha, repeat=k):
            cases.append((b"", list(ops)))
    for _ in range(ctx.n(300, 3000)):
        n = rng.choice([0, 1, 2, 5, 17, 64])
        d = bytes(rng.randrange(256) for _ in range(n))
        ops = []
        for _ in range(rng.randint(1, 12)):
            r = rng.random()
            if r < 0.45:
                ops.append(("read", rng.choice([None, -1, -7, 0, 1, 2, n // 2, n, n + 1, n + 5])))
            elif r < 0.85:
                ops.append(("seek", rng.randint(-n - 3, n + 3), rng.choice([0, 0, 1, 1, 2, 2, 3, -1])))
            elif r < 0.97:
                ops.append(("tell",))
            else:
                ops.append(("close",))
        cases.append((d, ops))
    return cases


def check_stream(ctx: Ctx, res: Result):
    from torchsnapshot.memoryview_stream import MemoryviewStream

    cases = stream_cases(ctx)
    coq_mv, coq_bio = [], []
    for d, ops in cases:
        mv = run_stream(lambda b: MemoryviewStream(memoryview(b)), d, ops)
        bio = run_stream(lambda b: io.BytesIO(b), d, ops)
        nontrivial = any(o[0] == 0 and o[1] for o in mv)
        res.case({"kind": "stream", "data": list(d), "ops": [list(map(lambda x: x, o)) for o in ops]}, nontrivial)
        res.count("stream.len_ops", len(ops))
        for o in mv:
            res.count("stream.out_kind", {0: "bytes", 1: "int", 2: "ValueError", 3: "None"}[o[0]])
        if mv != bio:
            res.failures.append(Failure(
                "C20:stream-differs-from-BytesIO",
                f"MemoryviewStream differs from io.BytesIO on data={list(d)} ops={ops}: {mv} vs {bio}",
                {"kind": "stream", "data": list(d), "ops": ops}))
        inp = f"({term(d)}, [{'; '.join(op_term(o) for o in ops)}])"
        coq_mv.append((inp, val(mv)))
        coq_bio.append((inp, val(bio)))
    bad, errs = coqrun.run_cases("C20_mv", IMPORTS, "obs_stream_gen", coq_mv)
    for e in errs:
        res.mismatches.append(Mismatch("stream:MemoryviewStream~model", "coqc error", None, e))
    for i in bad:
        res.mismatches.append(Mismatch("stream:MemoryviewStream~model", {"data": list(cases[i][0]), "ops": cases[i][1]},
                                       coq_mv[i][1], None))
    bad, errs = coqrun.run_cases("C20_bio", IMPORTS, "obs_stream_bio", coq_bio)
    for e in errs:
        res.mismatches.append(Mismatch("stream:BytesIO~spec", "coqc error", None, e))
    for i in bad:
        res.mismatches.append(Mismatch("stream:BytesIO~spec", {"data": list(cases[i][0]), "ops": cases[i][1]},
                                       coq_bio[i][1], None))
    res.traces_validated += len(cases)


# --------------------------------------------------------------------------- fs
NAMES = ["a", "b", "0/x", "0/y", "replicated/m/w", "batched/3f2a", "d1/d2/d3/f", "sharded/t_0_0", "ü/ß", "a b/c",
         # directories whose names are string prefixes of one another without being ancestors, at several depths
         "ab/c/x", "ab/x", "0/s/10/e", "0/s/1/e", "0/s/1/f", "p/qr/s", "p/q/s", "d1/d2/g", "d1/d/h", "d1/d2/d3x/i"]


def fs_scenario(ctx: Ctx, small: bool):
    rng = ctx.rng
    k = rng.randint(1, 5)
    paths = rng.sample(NAMES, k)
    writes = []
    for p in paths:
        n = rng.choice([0, 1, 2, 3, 7]) if small else rng.choice([0, 1, 5, 33, 257, 1025])
        d = bytes(rng.randrange(256) for _ in range(n))
        writes.append((p, d, rng.random() < 0.5))
    overwrite = []
    if rng.random() < 0.3:
        p = rng.choice(paths)
        overwrite.append((p, bytes(rng.randrange(256) for _ in range(rng.choice([0, 1, 4]))), rng.random() < 0.5))
    final = {p: d for p, d, _ in writes}
    for p, d, _ in overwrite:
        final[p] = d
    reads = []
    for p, d in final.items():
        reads.append((p, None))
        n = len(d)
        if n <= 7:
            for a in range(n + 1):
                for b in range(a, n + 1):
                    reads.append((p, (a, b)))
            reads.append((p, (0, n + 3)))       # past EOF: short read (model only, not part of the oracle)
            reads.append((p, (n, n + 1)))
        else:
            for _ in range(6):
                a = rng.randint(0, n)
                b = rng.randint(a, n)
                reads.append((p, (a, b)))
            reads += [(p, (0, n)), (p, (n, n)), (p, (n - 1, n)), (p, (0, 1)), (p, (n // 2, n + 10))]
    missing = [q for q in NAMES if q not in final][:2] + ["never/written"]
    for q in missing:
        reads.append((q, None))
        reads.append((q, (0, 1)))
    return writes, overwrite, reads, final


def run_fs(root: str, writes, overwrite, reads, seq=False, werrs=None):
    werrs = werrs if werrs is not None else []
    from torchsnapshot.io_types import ReadIO, WriteIO
    from torchsnapshot.storage_plugins.fs import FSStoragePlugin

    plugin = FSStoragePlugin(root=root)

    async def main():
        def buf(d, as_mv):
            return memoryview(bytearray(d)) if as_mv else d
        if seq:
            for p, d, mv in writes:                       # one after the other, in the given order
                try:
                    await plugin.write(WriteIO(path=p, buf=buf(d, mv)))
                except Exception as e:  # noqa
                    werrs.append((p, f"{type(e).__name__}: {str(e)[:120]}"))
        else:
            rs = await asyncio.gather(*[plugin.write(WriteIO(path=p, buf=buf(d, mv))) for p, d, mv in writes], return_exceptions=True)
            for (p, _, _), e in zip(writes, rs):
                if isinstance(e, BaseException):
                    werrs.append((p, f"{type(e).__name__}: {str(e)[:120]}"))
        for p, d, mv in overwrite:
            try:
                await plugin.write(WriteIO(path=p, buf=buf(d, mv)))
            except Exception as e:  # noqa
                werrs.append((p, f"{type(e).__name__}: {str(e)[:120]}"))
        out = []
        for p, r in reads:
            rio = ReadIO(path=p, byte_range=r)
            try:
                await plugin.read(rio)
                out.append(rio.buf.getvalue())
            except (FileNotFoundError, NotADirectoryError):
                out.append(None)
        await plugin.close()
        return out

    loop = asyncio.new_event_loop()
    try:
        return loop.run_until_complete(main())
    finally:
        loop.close()


def check_fs(ctx: Ctx, res: Result):
    import shutil

    coq_cases, meta = [], []
    nscen = ctx.n(60, 600)
    for i in range(nscen):
        writes, overwrite, reads, final = fs_scenario(ctx, small=(i % 3 != 0))
        root = ctx.scratch("fs")
        seq = ctx.rng.random() < 0.5
        werrs = []
        try:
            out = run_fs(root, writes, overwrite, reads, seq=seq, werrs=werrs)
        finally:
            shutil.rmtree(root, ignore_errors=True)
        res.count("fs.n_writes", len(writes) + len(overwrite)); res.count("fs.write_mode", "sequential" if seq else "concurrent")
        for p, e in werrs:
            res.failures.append(Failure(f"C20:fs-write-raised:{e.split(':')[0]}", f"write of {p!r} raised {e} (writes in order: {[w[0] for w in writes]}, {'sequential' if seq else 'concurrent'})",
                                        {"kind": "fs", "writes": [(a, list(b), c) for a, b, c in writes], "overwrite": [(a, list(b), c) for a, b, c in overwrite],
                                         "read": [writes[0][0], None], "seq": seq}))
        for (p, r), o in zip(reads, out):
            res.count("fs.read_kind", "missing" if p not in final else ("whole" if r is None else
                      ("past-eof" if r[1] > len(final[p]) else "ranged")))
            # direct oracle -------------------------------------------------
            if p not in final:
                if o is not None:
                    res.failures.append(Failure("C20:fs-missing-path-no-error", f"read of missing path {p!r} returned {o!r}",
                                                {"kind": "fs", "writes": [(a, list(b), c) for a, b, c in writes], "read": [p, r]}))
            else:
                d = final[p]
                exp = d if r is None else (d[r[0]:r[1]] if r[1] <= len(d) else None)
                if exp is not None and o != exp:
                    res.failures.append(Failure(
                        "C20:fs-read-wrong-bytes",
                        f"read {p!r} range={r} returned {None if o is None else list(o)} expected {list(exp)}",
                        {"kind": "fs", "writes": [(a, list(b), c) for a, b, c in writes],
                         "overwrite": [(a, list(b), c) for a, b, c in overwrite], "read": [p, r]}))
        res.case({"kind": "fs", "writes": [(p, len(d), "memoryview" if mv else "bytes") for p, d, mv in writes],
                  "overwrite": [(p, len(d)) for p, d, _ in overwrite], "n_reads": len(reads)},
                 nontrivial=any(len(d) > 0 for d in final.values()))
        w_term = "[" + "; ".join(f"({term(p)}, {term(d)})" for p, d, _ in writes + overwrite) + "]"
        r_term = "[" + "; ".join(
            f"({term(p)}, {'None' if r is None else '(Some (' + term(r[0]) + ', ' + term(r[1]) + '))'})" for p, r in reads) + "]"
        coq_cases.append((f"({w_term}, {r_term})", val([None if o is None else [list(o)] for o in out])))
        meta.append((writes, overwrite, reads))
    bad, errs = coqrun.run_cases("C20_fs", IMPORTS, "obs_fs_gen", coq_cases, shard=100)
    for e in errs:
        res.mismatches.append(Mismatch("fs:FSStoragePlugin~model", "coqc error", None, e))
    for i in bad:
        w, o, r = meta[i]
        res.mismatches.append(Mismatch("fs:FSStoragePlugin~model",
                                       {"writes": [(a, list(b)) for a, b, _ in w + o], "reads": r}, coq_cases[i][1], None))
    res.traces_validated += len(coq_cases)


def check_urls(ctx: Ctx, res: Result):
    """the plugin as the library obtains it: url_to_storage_plugin(url) for snapshot roots with every character a directory
    name may contain; the bytes must land under exactly the directory the caller named, and two different roots never
    share a file"""
    import shutil
    from torchsnapshot.io_types import ReadIO, WriteIO
    from torchsnapshot.storage_plugin import url_to_storage_plugin
    rng = ctx.rng
    base = os.path.realpath(ctx.scratch("urls"))
    names = ["plain", "run#1", "run#2", "epoch?3", "epoch?4", "a b", "50%", "x;y", "q&r=1", "it's", "ü", "c:d", "@host", "p#", "#frag", "?q"]
    try:
        for i in range(ctx.n(24, 120)):
            n1, n2 = rng.sample(names, 2)
            form = rng.choice(["bare", "fs://", "://"])
            roots = [os.path.join(base, f"s{i}", n) for n in (n1, n2)]
            datas = [bytes(rng.randrange(256) for _ in range(rng.choice([1, 5, 33]))) for _ in roots]
            loop = asyncio.new_event_loop()
            try:
                plugins = []
                for root in roots:
                    url = root if form == "bare" else form + root
                    plugins.append(url_to_storage_plugin(url_path=url))
                for pl, d in zip(plugins, datas):
                    loop.run_until_complete(pl.write(WriteIO(path="0/x", buf=d)))
                outs = []
                for pl in plugins:
                    rio = ReadIO(path="0/x")
                    loop.run_until_complete(pl.read(rio))
                    outs.append(rio.buf.getvalue())
            except Exception as e:  # noqa
                res.failures.append(Failure(f"C20:url-plugin-raised:{type(e).__name__}", f"url_to_storage_plugin round trip raised {type(e).__name__}: {str(e)[:160]} (roots {n1!r}, {n2!r}, form {form})",
                                            {"kind": "url", "names": [n1, n2], "form": form}))
                continue
            finally:
                loop.close()
            res.case({"kind": "url", "names": [n1, n2], "form": form}, nontrivial=True)
            res.count("url.form", form)
            for root, d, o, n in zip(roots, datas, outs, (n1, n2)):
                on_disk = os.path.join(root, "0", "x")
                if o != d:
                    res.failures.append(Failure("C20:url-root-read-wrong-bytes", f"root {n!r} ({form}): read back {list(o)[:8]} after writing {list(d)[:8]} (the other root was {n1 if n == n2 else n2!r})",
                                                {"kind": "url", "names": [n1, n2], "form": form}))
                elif not (os.path.isfile(on_disk) and open(on_disk, "rb").read() == d):
                    res.failures.append(Failure("C20:url-root-bytes-not-under-the-named-directory", f"root {n!r} ({form}): the bytes written are not in {on_disk!r}",
                                                {"kind": "url", "names": [n1, n2], "form": form}))
    finally:
        shutil.rmtree(base, ignore_errors=True)


def check_in_loop(ctx: Ctx, res: Result):
    """a caller that is itself inside a running event loop (notebook, async driver) mixes the plugin's blocking calls
    (sync_write / sync_read, which run on the library's re-entrant nested loop) with its coroutine calls (await
    plugin.write / read, asyncio.gather of several): every completed write reads back exactly, a missing path is an error,
    and the caller's loop keeps working afterwards"""
    import shutil
    from torchsnapshot.asyncio_utils import maybe_nested_loop
    from torchsnapshot.io_types import ReadIO, WriteIO
    from torchsnapshot.storage_plugin import url_to_storage_plugin
    rng = ctx.rng
    base = os.path.realpath(ctx.scratch("inloop"))
    try:
        for i in range(ctx.n(8, 40)):
            root = os.path.join(base, f"r{i}")
            names = rng.sample(["a", "d/b", "d/e/c", "x y", "0/m/w", "empty"], rng.randint(2, 5))
            data = {n: (b"" if n == "empty" else bytes(rng.randrange(256) for _ in range(rng.choice([1, 7, 64])))) for n in names}
            script = [rng.choice(["sync", "await"]) for _ in names]
            problems = []

            async def main():
                plugin = url_to_storage_plugin(url_path=root)
                for n, how in zip(names, script):
                    if how == "sync":
                        plugin.sync_write(WriteIO(path=n, buf=data[n]), event_loop=maybe_nested_loop())
                    else:
                        await plugin.write(WriteIO(path=n, buf=memoryview(data[n])))
                # reads: the opposite style of the write, then a gather of everything, then a missing path
                for n, how in zip(names, script):
                    rio = ReadIO(path=n)
                    if how == "sync":
                        await plugin.read(rio)
                    else:
                        plugin.sync_read(rio, event_loop=maybe_nested_loop())
                    if rio.buf.getvalue() != data[n]:
                        problems.append(f"{n!r} written {how} read back {list(rio.buf.getvalue())[:6]} instead of {list(data[n])[:6]}")
                rios = [ReadIO(path=n, byte_range=(0, len(data[n]))) for n in names]
                await asyncio.gather(*[plugin.read(r) for r in rios])
                for n, r in zip(names, rios):
                    if r.buf.getvalue() != data[n]:
                        problems.append(f"gathered ranged read of {n!r} differs")
                try:
                    await plugin.read(ReadIO(path="never/written"))
                    problems.append("read of a missing path returned normally")
                except FileNotFoundError:
                    pass
                await asyncio.sleep(0)          # the caller's own loop is still the running loop
            try:
                asyncio.run(main())
            except Exception as e:  # noqa
                problems.append(f"raised {type(e).__name__}: {str(e)[:120]}")
            res.case({"kind": "in-loop", "names": names, "script": script}, nontrivial=True)
            res.count("in_loop.script", "+".join(sorted(set(script))))
            for pr in problems[:3]:
                res.failures.append(Failure("C20:in-running-loop:" + ("raised" if pr.startswith("raised") else "wrong-bytes"),
                                            f"caller inside a running event loop, writes {list(zip(names, script))}: {pr}", {"kind": "in-loop", "names": names, "script": script}))
    finally:
        shutil.rmtree(base, ignore_errors=True)


def correspond(ctx: Ctx) -> Result:
    res = Result(rule=RULE)
    check_stream(ctx, res)
    check_fs(ctx, res)
    check_urls(ctx, res)
    check_in_loop(ctx, res)
    return res


def replay(ctx: Ctx, data):
    from torchsnapshot.memoryview_stream import MemoryviewStream
    if data["kind"] == "stream":
        d = bytes(data["data"])
        ops = [tuple(o) for o in data["ops"]]
        mv = run_stream(lambda b: MemoryviewStream(memoryview(b)), d, ops)
        bio = run_stream(lambda b: io.BytesIO(b), d, ops)
        if mv != bio:
            return Failure("C20:stream-differs-from-BytesIO", f"{mv} vs {bio}", data)
        return None
    import shutil
    if data["kind"] == "in-loop":
        r = Result()
        check_in_loop(Ctx(ctx.prop, ctx.tier, ctx.seed), r)
        return r.failures[0] if r.failures else None
    if data["kind"] == "url":
        r = Result()
        check_urls(Ctx(ctx.prop, ctx.tier, ctx.seed), r)
        return r.failures[0] if r.failures else None
    writes = [(a, bytes(b), c) for a, b, c in data["writes"]]
    over = [(a, bytes(b), c) for a, b, c in data.get("overwrite", [])]
    p, r = data["read"]
    r = None if r is None else tuple(r)
    root = ctx.scratch("fs")
    werrs = []
    try:
        out = run_fs(root, writes, over, [(p, r)], seq=bool(data.get("seq")), werrs=werrs)[0]
    finally:
        shutil.rmtree(root, ignore_errors=True)
    if werrs:
        return Failure(f"C20:fs-write-raised:{werrs[0][1].split(':')[0]}", f"write of {werrs[0][0]!r} raised {werrs[0][1]}", data)
    final = {a: b for a, b, _ in writes + over}
    if p not in final:
        return Failure("C20:fs-missing-path-no-error", "missing path read succeeded", data) if out is not None else None
    exp = final[p] if r is None else final[p][r[0]:r[1]]
    return Failure("C20:fs-read-wrong-bytes", f"got {out!r} expected {exp!r}", data) if out != exp else None

MANIFEST = {
    "level_text": ("Machine-checked proof (Coq 8.16.1) over a model REGENERATED FROM THE SOURCE on every run (MemoryviewStream "
                   "methods translated statement by statement; the file operations of FSStoragePlugin.read/write as programs "
                   "over a modelled POSIX file handle): ranged reads are exact for every byte string and every 0<=a<=b<=len; writes to distinct "
                   "paths in any completion order read back exactly; a missing path is an error; the stream is observationally "
                   "equal to an in-memory byte stream for every op sequence (refinement by simulation). The per-run "
                   "obligations are the instantiation lemmas of proofs/StreamInst.v; in addition the generated terms are tied to "
                   "the code on every run by differential execution of the real plugin (scratch directory), the real "
                   "MemoryviewStream and the real io.BytesIO against the model inside coqc (vm_compute)."),
    "level_note": ("Trusted: Coq kernel + VM; translator/gen_stream.py; the POSIX file-handle semantics of coq/model/FsStream.v and the differential harness; the OS file "
                   "system, aiofiles and CPython io are runtime behaviour (modelled, not verified). Theorems are closed under the "
                   "global context (no axioms)."),
    "technique": "Coq refinement proof over the source-translated stream methods and file programs + vm_compute correspondence against the real plugin/stream",
    "design_ref": "DESIGN.md section 5, C20",
}
