"""C15 - Flatten/inflate is an exact inverse for every nested container.

Real code under test: torchsnapshot.flatten.{flatten, inflate, _flatten, _entry_to_container, _populate_container,
_encode, _decode, _should_flatten_dict} and SnapshotMetadata.to_yaml/from_yaml for the container manifest.
Models: the hand model coq/model/Flatten.v (what the theorems were proved about) AND the terms regenerated from
flatten.py on every run (gen/FlattenGen.v, gen/FlattenRecGen.v; vocabulary coq/model/FlattenPy.v; observations
coq/model/FlattenGenObs.v).  Every structure case is evaluated against both.

NOT modelled (cases falling there are skipped and counted under `skipped.*` in the evidence):
  * urllib unquote of "%XY" with XY >= 0x80 (never produced by _encode);
  * int(token) outside [+-]?[0-9]+ where Python still accepts (white space, '_', non-ASCII digits) - flatten only
    ever writes str(idx) under a list;
  * a path present in both the manifest and the leaf map (flatten never produces one): not described by the HAND model;
    the generated inflate is a translation of the code and is compared on these cases too (`perturbed.both`).
"""
from __future__ import annotations

import itertools
import re
from collections import OrderedDict, defaultdict

from lib import coqrun
from lib.core import Ctx, Failure, Mismatch, Result
from lib.tocoq import val

PROP = "C15"
PROPS_FILE = "props/C15.v"
GEN = ["gen_flatten", "gen_flatten_rec"]
CORRESPONDENCES = [
    "flatten:flatten~model",
    "inflate:inflate(flatten)~model",
    "inflate:perturbed-manifest~model",
    "flatten:flatten~generated",
    "inflate:inflate(flatten)~generated",
    "inflate:perturbed-manifest~generated",
    "containers:_entry_to_container~generated",
    "containers:_populate_container~generated",
    "encode:_encode~model",
    "decode:_decode~model",
    "keys:_should_flatten_dict~model",
    "keys:str(key)~model",
    "int:int(str)~model",
]
RULE = ("corpus of adversarial structures (D4/D13 witnesses, wide lists 10..13 and 101, all special keys) + random nested "
        "structures of list/dict/OrderedDict (depth<=5, width<=6, node budget 45; occasional lists of 10..13) with keys "
        "drawn per dict from themed adversarial pools (ints vs int-like strs, leading zeros, signs, Unicode digits of "
        "several scripts, bool vs 'True'/1/0, '', '%', '/', percent-escapes, '.', '..', lone surrogates, non-BMP), "
        "shuffled key orders, non-flattenable dicts (colliding str(), tuple/float/None/bytes keys), aliased leaves; each "
        "structure is flattened and inflated directly, after SnapshotMetadata.to_yaml/from_yaml, with both dicts "
        "reordered, and embedded among entries of other prefixes; perturbed manifests (dropped leaves / entries / keys, "
        "added and duplicated keys, changed container kind, extra tokens, a leaf stored at a container's path) are compared "
        "including the error outcome. Every flatten / inflate case is evaluated twice inside coqc: against the hand model "
        "and against the terms generated from flatten.py in this run (the leaf-at-a-container-path cases against the "
        "generated inflate only: the hand model does not describe them). _entry_to_container and _populate_container are "
        "run directly on random entries (repeated / 1-vs-True keys) and token sets against the generated terms. Thorough "
        "tier adds every dict/OrderedDict with <=3 keys (ordered) over a 14-key adversarial alphabet x 3 value shapes. A "
        "case is non-trivial when it contains at least one flattened container with a key or item; distinct by content hash.")
TRUSTED = [
    "Coq 8.16.1 kernel and its vm_compute VM (no native_compute)",
    "translator/gen_flatten.py (Python ast -> Gallina, fail closed; registered twice: gen_flatten -> gen/FlattenGen.v for "
    "_encode/_should_flatten_dict, gen_flatten_rec -> gen/FlattenRecGen.v for _flatten, flatten, _entry_to_container, "
    "_populate_container, inflate translated statement by statement) and the Python vocabulary it targets, "
    "coq/model/FlattenPy.v: insertion-ordered dicts (a store to an existing key keeps its position), type(x) == T vs "
    "isinstance, exceptions as None, stable sorted(), mutable containers as a heap keyed by path with references "
    "(RCont path) read back by `resolve`; the class tests on entries are equality because the translator checks in "
    "manifest.py that ListEntry/DictEntry/OrderedDictEntry derive from Entry directly",
    "coq/model/FlattenGenObs.v: the fuel given to the generated _flatten (nesting depth + 1) and reading the reference the "
    "generated inflate returns back as a value",
    "hand model coq/model/Flatten.v: its flatten / inflate / populate are no longer trusted (the generated terms are proved "
    "equal to them: proofs/FlattenRecInst.v, proofs/InflateInst.v); what remains hand-written and tied to CPython only by "
    "the differential runs of this harness are the primitives: str(int), int(str), urllib unquote, split('/') / '/'.join, "
    "str.replace, Python key equality (1 == True) and dict.fromkeys",
    "harness/props/C15.py generators/canonicalisation, lib/tocoq.py",
]
ASSUMPTIONS = [
    "dict keys are pairwise distinct under Python equality (wf_obj) - guaranteed by Python's dict",
    "keys are str, int or bool exactly (no str/int subclasses such as IntEnum); leaves are compared by identity",
    "the manifest and the leaf map handed to inflate are Python dicts (distinct keys) and no path under the prefix is both a "
    "container and a leaf (hypotheses of C15_generated_inflate_is_model; flatten never produces such a pair - proved - and "
    "the generated inflate is still compared with the code on such inputs)",
    "metadata serialization returns the same container entries (any order): checked here on the real to_yaml/from_yaml, "
    "proved as a codec property under C14",
]

IMPORTS = "From TS Require Import model.Flatten.\n"
IMPORTS_GEN = "From TS Require Import model.Flatten model.FlattenPy model.FlattenGenObs.\n"
GEN_MODEL_ERROR = None          # set by correspond(): why model/FlattenGenObs.vo could not be built in this run


# =========================================================================== specs <-> python objects
# A structure is generated as a json-able *spec* (so that a failure can be replayed):
#   ["L", n]                      leaf number n (same n = same python object)
#   ["l", [spec...]]              list
#   ["d", ordered, [[key, spec]...]]   dict / OrderedDict, keys inserted in this order
# key:  ["s", [code points]] | ["i", "decimal"] | ["b", 0|1] | ["o", index into OTHER_KEYS]
OTHER_KEYS = [(1, 2), 1.5, None, b"x", (), 2.5, frozenset([1]), ("a", 1)]


class Opaque:
    __slots__ = ("n",)

    def __init__(self, n):
        self.n = n

    def __repr__(self):
        return f"<leaf {self.n}>"


class MyList(list):
    pass


def make_leaf(n: int):
    k = n % 7
    if k == 0:
        return Opaque(n)
    if k == 1:
        return 100000 + n
    if k == 2:
        return f"leaf-{n}"
    if k == 3:
        return (n, [n])                      # a tuple is not a container for flatten
    if k == 4:
        return defaultdict(list, {"x": n})    # dict subclass: type(obj) is not dict
    if k == 5:
        return MyList([n, n])                 # list subclass
    return Opaque(-n)


def key_of(kspec):
    t, v = kspec
    if t == "s":
        return "".join(chr(c) for c in v)
    if t == "i":
        return int(v)
    if t == "b":
        return bool(v)
    return OTHER_KEYS[v]


def kspec_of(k):
    if isinstance(k, str):
        return ["s", [ord(c) for c in k]]
    if isinstance(k, bool):
        return ["b", int(k)]
    if isinstance(k, int):
        return ["i", str(k)]
    return ["o", OTHER_KEYS.index(k)]


class Table:
    """leaf objects <-> model leaf ids; non str/int keys <-> KOther ids (Python equality)"""

    def __init__(self):
        self.leaves = {}       # n -> object
        self.ids = {}          # id(object) -> n
        self.others = {}

    def leaf(self, n):
        if n not in self.leaves:
            o = make_leaf(n)
            self.leaves[n] = o
            self.ids[id(o)] = n
        return self.leaves[n]

    def other(self, k):
        return self.others.setdefault(k, len(self.others))


def build(spec, tab: Table):
    t = spec[0]
    if t == "L":
        return tab.leaf(spec[1])
    if t == "l":
        return [build(s, tab) for s in spec[1]]
    d = OrderedDict() if spec[1] else {}
    for ks, vs in spec[2]:
        d[key_of(ks)] = build(vs, tab)
    return d


# --------------------------------------------------------------------------- python -> model term / observation
def key_term(k, tab):
    if isinstance(k, str):
        return "(KStr [" + "; ".join(str(ord(c)) for c in k) + "])"
    if isinstance(k, bool):
        return "(KBool true)" if k else "(KBool false)"
    if isinstance(k, int):
        return f"(KInt ({k}))"
    try:
        return f"(KOther {tab.other(k)})"
    except TypeError:          # an unhashable key (a tuple key comes back from the metadata codec as a list)
        return "(KOther 9999)"


def obj_term(o, tab):
    t = type(o)
    if t is list:
        return "(OList [" + "; ".join(obj_term(x, tab) for x in o) + "])"
    if t in (dict, OrderedDict):
        return ("(ODict " + ("true" if t is OrderedDict else "false") + " [" +
                "; ".join(f"({key_term(k, tab)}, {obj_term(v, tab)})" for k, v in o.items()) + "])")
    return f"(Leaf {tab.ids[id(o)]})"


def key_obs(k, tab):
    if isinstance(k, str):
        return [0, [ord(c) for c in k]]
    if isinstance(k, bool):
        return [2, int(k)]
    if isinstance(k, int):
        return [1, k]
    try:
        return [3, tab.other(k)]
    except TypeError:
        return [9]


def obj_obs(o, tab):
    t = type(o)
    if t is list:
        return [1, [obj_obs(x, tab) for x in o]]
    if t in (dict, OrderedDict):
        return [2, int(t is OrderedDict), [[key_obs(k, tab), obj_obs(v, tab)] for k, v in o.items()]]
    if id(o) in tab.ids:
        return [0, tab.ids[id(o)]]
    if o is None:
        return [0, -1]         # the None dict.fromkeys leaves under a key (model: py_none); never an input leaf here
    return [9]                 # an object the input did not contain: never equal to a model observation


def entry_obs(e, tab):
    from torchsnapshot.manifest import DictEntry, ListEntry, OrderedDictEntry
    if isinstance(e, ListEntry):
        return [0]
    if isinstance(e, OrderedDictEntry):
        return [2, [key_obs(k, tab) for k in e.keys]]
    if isinstance(e, DictEntry):
        return [1, [key_obs(k, tab) for k in e.keys]]
    return [9]


def entry_term(e, tab):
    from torchsnapshot.manifest import ListEntry, OrderedDictEntry
    if isinstance(e, ListEntry):
        return "EList"
    return ("(EDict " + ("true" if isinstance(e, OrderedDictEntry) else "false") + " [" +
            "; ".join(key_term(k, tab) for k in e.keys) + "])")


def s_term(s: str) -> str:
    return "[" + "; ".join(str(ord(c)) for c in s) + "]"


def inflate_input_term(manifest, flattened, prefix, tab) -> str:
    m = "[" + "; ".join(f"({s_term(p)}, {entry_term(e, tab)})" for p, e in manifest.items()) + "]"
    f = "[" + "; ".join(f"({s_term(p)}, {obj_term(o, tab)})" for p, o in flattened.items()) + "]"
    return f"({m}, {f}, {s_term(prefix)})"


# =========================================================================== generators
def S(s):
    return ["s", [ord(c) for c in s]]


def I(n):
    return ["i", str(n)]


B1, B0 = ["b", 1], ["b", 0]

POOLS = {
    "intlike": [I(0), I(1), I(-1), I(2), I(10), I(7), S("0"), S("1"), S("-1"), S("01"), S("+1"), S("-0"), S("+0"), S("00"),
                S("1_0"), S(" 1"), S("1 "), S("10"), S("1.0"), S("1e3"), S("0x1"), I(123456789012345678901234567890), I(-5),
                S("-"), S("+")],
    "unidigit": [I(1), I(0), S("١"), S("٠١"), S("²"), S("¹"), S("१"), S("１"), S("Ⅷ"),
                 S("½"), S("\U0001d7d9"), S("1"), S("١٢"), I(12), S("४"), S("-١")],
    "bool": [B1, B0, I(1), I(0), S("True"), S("False"), S("true"), S("1"), S("0"), I(2), S("")],
    "pct": [S("%"), S("/"), S("%2F"), S("%2f"), S("%25"), S("%252F"), S("a/b"), S("//"), S("a%2Fb"), S("%2E"), S("."), S(".."),
            S("..."), S("%2E%2E"), S("%%"), S("%2"), S("%zz"), S("%C3%A9"), S("/a"), S("a/"), S(""), S("%2E."), S("./."), S("%41"),
            S("A")],
    "unicode": [S("é"), S("日本"), S("\ud800"), S("\U0001f600"), S("\x00"), S(" "), S("\n"), S(" "),
                S("\udc00x"), S("é"), S("é%"), S("\ud800/"), S("￿")],
    "plain": [S("a"), S("b"), S("key"), S("weight"), S("0a"), S("state"), I(3), I(4), S("x")],
    "other": [["o", i] for i in range(len(OTHER_KEYS))] + [S("a"), I(1), B1],
}
ALL_KEYS = [k for p in POOLS.values() for k in p]
PREFIXES = ["p", "", "0", "a/b", "%", ".", "..", "x%2Fy", "ü", "0/stateful", "%2E", "p/"]


class Gen:
    def __init__(self, rng):
        self.rng = rng
        self.next_leaf = 0
        self.budget = 0

    def leaf(self):
        r = self.rng
        if self.next_leaf > 0 and r.random() < 0.08:
            return ["L", r.randrange(self.next_leaf)]        # alias an earlier leaf object
        self.next_leaf += 1
        return ["L", self.next_leaf - 1]

    def keys(self, width):
        r = self.rng
        theme = r.choice(["intlike", "intlike", "unidigit", "bool", "pct", "pct", "unicode", "plain", "mixed", "collide", "other"])
        if theme == "mixed":
            ks = [r.choice(ALL_KEYS) for _ in range(width)]
        elif theme == "collide":
            base = r.choice([I(1), I(0), I(-1), B1, B0, I(10)])
            ks = [base, S(str(key_of(base)))] + [r.choice(ALL_KEYS) for _ in range(max(0, width - 2))]
        elif theme == "other":
            ks = [r.choice(POOLS["other"][:len(OTHER_KEYS)])] + [r.choice(POOLS["other"]) for _ in range(max(0, width - 1))]
        else:
            pool = POOLS[theme]
            ks = r.sample(pool, min(width, len(pool)))
        r.shuffle(ks)
        return theme, ks

    def node(self, depth, res=None):
        r = self.rng
        self.budget -= 1
        if depth <= 0 or self.budget <= 0 or r.random() < 0.28:
            return self.leaf()
        kind = r.random()
        width = r.choice([0, 1, 1, 2, 2, 3, 3, 4, 5, 6])
        if kind < 0.3:
            if r.random() < 0.06:
                width = r.choice([10, 11, 12, 13])
            return ["l", [self.node(depth - 1, res) for _ in range(width)]]
        theme, ks = self.keys(width)
        if res is not None:
            res.count("gen.key_theme", theme)
        return ["d", int(kind < 0.65), [[k, self.node(depth - 1, res)] for k in ks]]

    def structure(self, res=None):
        self.next_leaf = 0
        self.budget = self.rng.choice([6, 12, 25, 45])
        depth = self.rng.choice([1, 2, 3, 4, 5])
        if self.rng.random() < 0.03:
            return self.leaf()
        spec = self.node(depth, res)
        return spec


def reorder(spec, rng):
    """the same structure with every dict's keys in another order"""
    if spec[0] == "l":
        return ["l", [reorder(s, rng) for s in spec[1]]]
    if spec[0] == "d":
        kv = [[k, reorder(v, rng)] for k, v in spec[2]]
        rng.shuffle(kv)
        return ["d", spec[1], kv]
    return spec


def corpus():
    L = lambda n: ["L", n]
    d = lambda *kv: ["d", 0, [list(x) for x in kv]]
    od = lambda *kv: ["d", 1, [list(x) for x in kv]]
    out = [
        d((I(1), L(0)), (S("01"), L(1))), d((S("01"), L(0)), (I(1), L(1))),
        d((I(1), L(0)), (S("+1"), L(1))), d((I(0), L(0)), (S("-0"), L(1))), d((I(1), L(0)), (S("١"), L(1))),
        d((S("²"), L(0))), d((B1, L(0))), od((B0, L(0)), (B1, L(1))), d((B1, L(0)), (S("True"), L(1))),
        d((B1, L(0)), (S("1"), L(1))), d((I(1), L(0)), (S("1"), L(1))), d((S(""), L(0))),
        d((S(""), d((S(""), d((S(""), L(0))))))), d((S("%2F"), L(0)), (S("/"), L(1))), d((S("a/b"), L(0)), (S("a"), d((S("b"), L(1))))),
        d((S("%"), L(0)), (S("%25"), L(1)), (S("%2525"), L(2))), d((S("."), L(0)), (S(".."), L(1)), (S("%2E"), L(2)), (S("%2E%2E"), L(3))),
        d((S(".."), d((S(".."), d((S(".."), d((S("x"), L(0))))))))),
        ["l", [L(i) for i in range(12)]], ["l", [L(i % 3) for i in range(101)]], ["l", [["l", [L(i)]] for i in range(11)]],
        ["l", []], d(), od(), L(0), ["l", [d(), od(), ["l", []]]],
        d((S("a"), L(0)), (S("b"), ["l", [L(1)]]), (S("c"), L(2)), (S("d"), d((S("e"), L(3)))), (S("f"), L(4))),
        od((S("z"), L(0)), (S("y"), ["l", []]), (S("x"), L(1)), (I(3), od()), (I(2), L(2))),
        d((["o", 0], L(0)), (S("a"), L(1))), d((["o", 1], L(0))), d((["o", 2], ["l", [L(0)]])),
        d((S("k"), d((I(1), L(0)), (S("1"), ["l", [L(1)]])))), ["l", [d((I(1), L(0)), (S("1"), L(1))), od((B1, L(2)), (S("True"), L(3)))]],
        d((I(1), L(0)), (S("01"), L(1)), (S("+1"), L(2)), (S("١"), L(3)), (S("²"), L(4)), (S(""), L(5)), (S("%2F"), L(6)),
          (S("a/b"), L(7)), (S("."), L(8)), (S(".."), L(9)),
          (S("n"), ["l", [od((B1, L(10)), (I(0), L(11)), (S("1"), L(12)), (S("true"), L(13)))]])),
        d((I(-1), L(0)), (S("-1 "), L(1)), (I(-10), ["l", [L(2), L(3)]]), (I(10 ** 30), L(4))),
        d((S("\ud800"), L(0)), (S("\U0001f600"), L(1)), (S("\x00"), ["l", [L(2)]])),
        d((S("0"), L(0)), (S("1"), L(1)), (S("2"), L(2)), (S("10"), L(3)), (I(3), L(4))),
        od((I(10), L(0)), (I(9), L(1)), (I(2), L(2)), (I(1), L(3)), (I(0), L(4)), (I(11), L(5))),
    ]
    return out


def exhaustive_specs():
    alpha = [I(1), S("1"), S("01"), S("+1"), S("١"), S("²"), B1, B0, I(0), S(""), S("%2F"), S("a/b"), S("."), S("..")]
    for n in range(1, 4):
        for ks in itertools.permutations(alpha, n):
            for ordered in (0, 1):
                for shape in (0, 1, 2):
                    kv = []
                    for i, k in enumerate(ks):
                        if shape == 0 or (shape == 1 and i % 2 == 0):
                            v = ["L", i]
                        elif shape == 1:
                            v = ["l", [["L", i]]]
                        else:
                            v = ["d", 1 - ordered, [[k, ["L", i]]]]
                        kv.append([list(k), v])
                    yield ["d", ordered, kv]


# =========================================================================== oracle
def spec_flattenable(d) -> bool:
    """the property's wording: a dict can be flattened unambiguously iff all keys are str/int and their str() differ"""
    return all(isinstance(k, (str, int)) for k in d) and len({str(k) for k in d}) == len(d)


def diff(a, b, where="root"):
    """None when b equals a in the sense of the property (container types, keys with their types, key order,
    identical leaves); otherwise (class, description)."""
    if a is b:
        return None
    ta = type(a)
    if ta is list:
        if type(b) is not list:
            return ("container-type", f"{where}: list became {type(b).__name__}")
        if len(a) != len(b):
            return ("list-length", f"{where}: {len(a)} items became {len(b)}")
        for i, (x, y) in enumerate(zip(a, b)):
            r = diff(x, y, f"{where}[{i}]")
            if r:
                return r
        return None
    if ta in (dict, OrderedDict):
        if not spec_flattenable(a):
            return ("opaque-dict-not-identical", f"{where}: a dict that cannot be flattened did not come back as the same object")
        if type(b) is not ta:
            return ("container-type", f"{where}: {ta.__name__} became {type(b).__name__}")
        ka, kb = list(a.keys()), list(b.keys())
        sa = [(type(k).__name__, k) for k in ka]
        sb = [(type(k).__name__, k) for k in kb]
        if sa != sb:
            if sorted(map(ascii, sa)) == sorted(map(ascii, sb)):
                return ("key-order", f"{where}: keys {ascii(ka)} came back in order {ascii(kb)}")
            if [k for _, k in sa] == [k for _, k in sb]:
                return ("key-type", f"{where}: key types changed {ascii(sa)} -> {ascii(sb)}")
            return ("key-set", f"{where}: keys {ascii(ka)} became {ascii(kb)}")
        for (k, x), (_, y) in zip(a.items(), b.items()):
            r = diff(x, y, f"{where}[{ascii(k)}]")
            if r:
                return r
        return None
    return ("leaf", f"{where}: leaf {ascii(a)[:60]} became {ascii(b)[:60]}")


def via_yaml(manifest):
    from torchsnapshot.manifest import SnapshotMetadata
    md = SnapshotMetadata(version="0.0.0", world_size=1, manifest=manifest)
    return SnapshotMetadata.from_yaml(md.to_yaml()).manifest


def via_views(manifest, flattened):
    """the container manifest as restore sees it AFTER the same metadata object has served a rank that did not exist at
    save time: global manifest of a 1-rank snapshot (container entries + one private ObjectEntry per leaf), first the view
    of rank 1 (a new rank: its private leaves are removed from ITS view), then the view of rank 0"""
    from torchsnapshot.manifest import ObjectEntry, SnapshotMetadata
    from torchsnapshot.manifest_ops import get_manifest_for_rank
    from torchsnapshot.manifest_utils import is_container_entry
    g = {"0/" + k: e for k, e in manifest.items()}
    for i, k in enumerate(flattened):
        g["0/" + k] = ObjectEntry(location=f"0/{i}", serializer="torch_save", obj_type="object", replicated=False)
    md = SnapshotMetadata.from_yaml(SnapshotMetadata(version="0.0.0", world_size=1, manifest=g).to_yaml())
    get_manifest_for_rank(md, 1)
    man0, _ = get_manifest_for_rank(md, 0)
    return {k: e for k, e in man0.items() if is_container_entry(e)}


def roundtrip_failures(spec, prefix, obj=None, tab=None):
    """the property evaluated on the real code: list of (via, class, description)"""
    from torchsnapshot.flatten import flatten, inflate
    if obj is None:
        tab = Table()
        obj = build(spec, tab)
    out = []
    try:
        m, f = flatten(obj, prefix)
    except Exception as e:  # noqa
        return [("flatten", "exception:" + type(e).__name__, f"flatten raised {type(e).__name__}: {ascii(str(e))[:200]}")]
    for via in ("direct", "yaml", "views", "siblings"):
        try:
            f2 = f
            if via == "siblings":
                # as in Snapshot.restore: the manifest / leaf map handed to inflate hold OTHER statefuls too, among them
                # keys of which this prefix is a string prefix, and keys that are string prefixes of it
                m2, f2 = dict(m), dict(f)
                for other in (prefix + "x", prefix + "_ema", prefix[:-1] if len(prefix) > 1 else prefix + "y"):
                    if other == prefix:
                        continue
                    mo, fo = flatten({"w": 1, "sub": {"k": [2, 3]}}, other)
                    m2.update(mo)
                    f2.update(fo)
                back = inflate(m2, f2, prefix)
                r = diff(obj, back)
                if r:
                    out.append((via, r[0], r[1]))
                continue
            m2 = m if via == "direct" else (via_yaml(m) if via == "yaml" else via_views(m, f))
            back = inflate(m2, f, prefix)
        except Exception as e:  # noqa
            out.append((via, "exception:" + type(e).__name__,
                        f"inflate ({via}) raised {type(e).__name__}: {ascii(str(e))[:200]}"))
            continue
        r = diff(obj, back)
        if r:
            out.append((via, r[0], r[1]))
    return out


def record_failures(res, spec, prefix, fails):
    for via, cls, what in fails:
        res.failures.append(Failure(
            f"C15:inflate(flatten(x))!=x:{via}:{cls}",
            f"inflate(flatten(x, {prefix!a})) via {via}: {what}; x = {ascii(build(spec, Table()))[:300]}",
            {"spec": spec, "prefix": [ord(c) for c in prefix]}))


# =========================================================================== model-domain guards
INT_RE = re.compile(r"^[+-]?[0-9]+$")
BAD_ESC = re.compile(r"%[89A-Fa-f][0-9A-Fa-f]")


def int_modelled(tok: str) -> bool:
    if INT_RE.match(tok):
        return True
    try:
        int(tok)
    except ValueError:
        return True
    return False                # Python accepts, the model does not describe it


def prims_modelled(manifest, flattened) -> bool:
    """the runtime primitives both models share (unquote, int) are inside their modelled domain"""
    from torchsnapshot.manifest import ListEntry
    for p in list(manifest) + list(flattened):
        parent, _, tok = p.rpartition("/")
        if BAD_ESC.search(tok):
            return False
        if isinstance(manifest.get(parent), ListEntry) and not int_modelled(tok):
            return False
    return True


def inflate_modelled(manifest, flattened) -> bool:
    """the HAND model describes this input (the generated inflate also covers a path that is both container and leaf)"""
    return not (set(manifest) & set(flattened)) and prims_modelled(manifest, flattened)


# =========================================================================== perturbations of a valid flatten output
def perturb(rng, m, f, prefix, tab):
    """returns (tag, manifest', flattened') - dicts in a chosen insertion order"""
    from torchsnapshot.flatten import _encode
    from torchsnapshot.manifest import DictEntry, ListEntry, OrderedDictEntry
    m = dict(m)
    f = dict(f)
    root = _encode(prefix)

    def clone(e, keys=None):
        if isinstance(e, ListEntry):
            return ListEntry()
        return type(e)(keys=list(e.keys if keys is None else keys))

    tag = rng.choice(["drop-leaf", "drop-entry", "drop-key", "add-key", "dup-key", "reorder-keys", "kind", "extra-leaf",
                      "drop-root", "empty", "leaf-on-container"])
    paths = list(m)
    if tag == "drop-leaf" and f:
        for p in rng.sample(list(f), rng.randint(1, min(3, len(f)))):
            del f[p]
    elif tag == "drop-entry" and len(paths) > 1:
        del m[rng.choice([p for p in paths if p != root] or paths)]
    elif tag == "drop-root":
        m.pop(root, None)
        if rng.random() < 0.5:
            f.pop(root, None)
    elif tag == "empty":
        m, f = ({}, {}) if rng.random() < 0.5 else (m, {})
    elif tag in ("drop-key", "add-key", "dup-key", "reorder-keys"):
        dps = [p for p in paths if not isinstance(m[p], ListEntry)]
        if dps:
            p = rng.choice(dps)
            ks = list(m[p].keys)
            if tag == "drop-key" and ks:
                ks.pop(rng.randrange(len(ks)))
            elif tag == "add-key":
                extra = key_of(rng.choice([k for k in ALL_KEYS if k[0] != "o"]))
                ks.insert(rng.randint(0, len(ks)), extra)
            elif tag == "dup-key" and ks:
                k = rng.choice(ks)
                alt = int(k) if isinstance(k, bool) else (bool(k) if (isinstance(k, int) and k in (0, 1)) else k)
                ks.insert(rng.randint(0, len(ks)), rng.choice([k, alt]))
            else:
                rng.shuffle(ks)
            m[p] = clone(m[p], ks)
    elif tag == "kind" and paths:
        p = rng.choice(paths)
        e = m[p]
        if isinstance(e, ListEntry):
            n = sum(1 for q in list(m) + list(f) if q.rpartition("/")[0] == p)
            m[p] = rng.choice([DictEntry, OrderedDictEntry])(keys=rng.choice([[], list(range(n)), [str(i) for i in range(n)][::-1]]))
        elif rng.random() < 0.5:
            m[p] = ListEntry()
        else:
            m[p] = (OrderedDictEntry if type(e) is DictEntry else DictEntry)(keys=list(e.keys))
    elif tag == "extra-leaf" and paths:
        p = rng.choice(paths)
        tok = rng.choice(["7", "-3", "+2", "007", "x", "", "1a", "%41", "A", "%2F", "%25", "%2E", "0", "1", "True"])
        q = f"{p}/{tok}"
        if q not in m and q not in f:
            f[q] = tab.leaf(9000 + rng.randrange(3))
    elif tag == "leaf-on-container" and paths:
        f[rng.choice(paths)] = tab.leaf(9100 + rng.randrange(3))      # outside the hand model; the generated one covers it
    if rng.random() < 0.5:
        items = list(m.items())
        rng.shuffle(items)
        m = dict(items)
        items = list(f.items())
        rng.shuffle(items)
        f = dict(items)
    return tag, m, f


# =========================================================================== the correspondence
def run_inflate(m, f, prefix, tab):
    from torchsnapshot.flatten import inflate
    try:
        return [obj_obs(inflate(m, f, prefix), tab)]
    except Exception:  # noqa
        return None


def structures(ctx: Ctx, res: Result):
    """yields (origin, spec, prefix)"""
    rng = ctx.rng
    for i, spec in enumerate(corpus()):
        yield "corpus", spec, PREFIXES[i % 3] if i % 5 else rng.choice(PREFIXES)
    g = Gen(rng)
    for _ in range(ctx.n(220, 2500)):
        spec = g.structure(res)
        prefix = rng.choice(PREFIXES) if rng.random() < 0.4 else "p"
        yield "random", spec, prefix
        if rng.random() < 0.25:
            yield "reordered", reorder(spec, rng), prefix
    if ctx.thorough:
        for spec in exhaustive_specs():
            yield "exhaustive", spec, "p"


def stats(spec, acc):
    if spec[0] == "l":
        acc["lists"] += 1
        acc["maxw"] = max(acc["maxw"], len(spec[1]))
        ds = [stats(s, acc) for s in spec[1]]
        return 1 + max(ds, default=0)
    if spec[0] == "d":
        acc["dicts"] += 1
        acc["maxw"] = max(acc["maxw"], len(spec[2]))
        ds = [stats(v, acc) for _, v in spec[2]]
        return 1 + max(ds, default=0)
    return 0


def check_structures(ctx: Ctx, res: Result, with_model: bool):
    from torchsnapshot.flatten import flatten
    rng = ctx.rng
    c_flat, c_inf, c_mal, c_both = [], [], [], []
    meta_flat, meta_inf, meta_mal, meta_both = [], [], [], []
    other_tab = Table()
    other = build(["d", 0, [[S("w"), ["L", 7000]], [S("p"), ["l", [["L", 7001]]]]]], other_tab)
    for origin, spec, prefix in structures(ctx, res):
        tab = Table()
        obj = build(spec, tab)
        acc = {"lists": 0, "dicts": 0, "maxw": 0}
        depth = stats(spec, acc)
        res.count("struct.origin", origin)
        res.count("struct.depth", depth)
        res.count("struct.max_width", acc["maxw"] if acc["maxw"] < 10 else "10+")
        res.case({"spec": spec, "prefix": [ord(c) for c in prefix]}, nontrivial=acc["maxw"] > 0)
        # ---- direct oracle on the real code
        fails = roundtrip_failures(spec, prefix, obj, tab)
        record_failures(res, spec, prefix, fails)
        if any(v == "flatten" for v, _, _ in fails) or not with_model:
            continue
        # ---- flatten correspondence
        m, f = flatten(obj, prefix)
        res.count("flatten.opaque_leaves", sum(1 for v in f.values() if type(v) in (dict, OrderedDict)))
        exp = [[[p, entry_obs(e, tab)] for p, e in m.items()], [[p, obj_obs(o, tab)] for p, o in f.items()]]
        c_flat.append((f"({obj_term(obj, tab)}, {s_term(prefix)})", val(exp)))
        meta_flat.append((spec, prefix))
        # ---- inflate correspondence: direct / yaml / reordered / embedded
        try:
            variants = [("yaml", via_yaml(m), f)]
        except Exception:  # noqa - already a Failure of the direct oracle above (inflate via yaml raised)
            variants = []
        if origin != "exhaustive":
            variants.append(("direct", m, f))
            mi, fi = list(m.items()), list(f.items())
            rng.shuffle(mi)
            rng.shuffle(fi)
            variants.append(("reordered", dict(mi), dict(fi)))
            if rng.random() < 0.4:
                op = rng.choice([q for q in PREFIXES if q != prefix])
                om, of = flatten(other, op)
                mm = list(m.items()) + list(om.items())
                ff = list(f.items()) + list(of.items())
                rng.shuffle(mm)
                rng.shuffle(ff)
                for o in other_tab.leaves.values():
                    tab.ids[id(o)] = other_tab.ids[id(o)]
                variants.append(("embedded", dict(mm), dict(ff)))
        for vname, vm, vf in variants:
            res.count("inflate.variant", vname)
            out = run_inflate(vm, vf, prefix, tab)
            c_inf.append((inflate_input_term(vm, vf, prefix, tab), val(out)))
            meta_inf.append((vname, spec, prefix))
        # ---- perturbed manifests (model incl. the error outcome)
        if origin in ("random", "corpus"):
            for _ in range(2):
                tag, pm, pf = perturb(rng, m, f, prefix, tab)
                if not prims_modelled(pm, pf):
                    res.count("skipped.inflate_not_modelled", tag)
                    continue
                out = run_inflate(pm, pf, prefix, tab)
                case = (inflate_input_term(pm, pf, prefix, tab), val(out))
                if set(pm) & set(pf):
                    res.count("perturbed.both", "exception" if out is None else "value")
                    c_both.append(case)
                    meta_both.append((tag, spec, prefix))
                    continue
                res.count("perturbed.kind", tag)
                res.count("perturbed.outcome", "exception" if out is None else "value")
                c_mal.append(case)
                meta_mal.append((tag, spec, prefix))
    if not with_model:
        return
    # the flatten observation of the generated term is an option (None = the fuel of _flatten ran out / an exception)
    c_flat_gen = [(i, "(VL [" + o + "])") for i, o in c_flat]
    for name, tag, imports, fn, cases, meta, shard in (
            ("flatten:flatten~model", "C15_flat", IMPORTS, "obs_flatten", c_flat, meta_flat, 300),
            ("inflate:inflate(flatten)~model", "C15_inf", IMPORTS, "obs_inflate", c_inf, meta_inf, 200),
            ("inflate:perturbed-manifest~model", "C15_mal", IMPORTS, "obs_inflate", c_mal, meta_mal, 200),
            ("flatten:flatten~generated", "C15_gflat", IMPORTS_GEN, "obs_flatten_gen", c_flat_gen, meta_flat, 300),
            ("inflate:inflate(flatten)~generated", "C15_ginf", IMPORTS_GEN, "obs_inflate_gen", c_inf, meta_inf, 200),
            ("inflate:perturbed-manifest~generated", "C15_gmal", IMPORTS_GEN, "obs_inflate_gen", c_mal + c_both,
             meta_mal + meta_both, 200)):
        if imports is IMPORTS_GEN and GEN_MODEL_ERROR:
            res.mismatches.append(Mismatch(name, "generated model unavailable", None, GEN_MODEL_ERROR))
            continue
        bad, errs = coqrun.run_cases(tag, imports, fn, cases, shard=shard)
        for e in errs:
            res.mismatches.append(Mismatch(name, "coqc error", None, e))
        for i in bad:
            res.mismatches.append(Mismatch(name, {"case": meta[i], "input": cases[i][0][:1500]}, cases[i][1][:1500], None))
        res.traces_validated += len(cases)


# --------------------------------------------------------------------------- _entry_to_container / _populate_container
def check_containers(ctx: Ctx, res: Result):
    """the two helpers of inflate run directly against the generated terms (fresh container; values are plain leaves)"""
    from torchsnapshot.flatten import _encode, _entry_to_container, _populate_container
    from torchsnapshot.manifest import DictEntry, ListEntry, OrderedDictEntry
    rng = ctx.rng
    tab = Table()
    g = Gen(rng)
    e2c_cases, pop_cases, meta = [], [], []
    list_toks = ["0", "1", "2", "3", "10", "11", "9", "-1", "+3", "007", "-0", "x", "", "1a", "12345678901234567890", "١"]
    extra_toks = ["x", "%41", "A", "1", "True", "01", "", "%2F", "%25", "0", "%2E"]
    for i in range(ctx.n(160, 1600)):
        kind = rng.choice(["list", "dict", "dict", "odict"])
        if kind == "list":
            entry = ListEntry()
            toks = rng.sample(list_toks, rng.randint(0, 7))
            if rng.random() < 0.6:
                toks = [t for t in toks if INT_RE.match(t)]
        else:
            _, ks = g.keys(rng.choice([0, 1, 2, 3, 4, 6]))
            keys = [key_of(k) for k in ks if k[0] != "o"]
            if rng.random() < 0.3 and keys:
                keys.insert(rng.randint(0, len(keys)), rng.choice(keys))       # a repeated key in the entry
            entry = (DictEntry if kind == "dict" else OrderedDictEntry)(keys=keys)
            toks = [_encode(str(k)) for k in keys if rng.random() < 0.7] + rng.sample(extra_toks, rng.randint(0, 2))
            toks = list(dict.fromkeys(toks))
            rng.shuffle(toks)
        if any(BAD_ESC.search(t) for t in toks) or (kind == "list" and not all(int_modelled(t) for t in toks)):
            res.count("skipped.populate_not_modelled", kind)
            continue
        res.count("containers.kind", kind)
        fresh = _entry_to_container(entry)
        e2c_cases.append((entry_term(entry, tab), val([container_obs(fresh, tab)])))
        values = {t: tab.leaf(i * 10 + j) for j, t in enumerate(toks)}
        try:
            _populate_container(path="p", container=fresh, values=values)
            out = [container_obs(fresh, tab)]
        except Exception:  # noqa
            out = None
        res.count("containers.populate_outcome", "exception" if out is None else "value")
        vals_term = "[" + "; ".join(f"({s_term(t)}, {obj_term(v, tab)})" for t, v in values.items()) + "]"
        pop_cases.append((f"({entry_term(entry, tab)}, {vals_term})", val(out)))
        meta.append((kind, toks))
    for name, tag, fn, cases in (("containers:_entry_to_container~generated", "C15_e2c", "obs_entry_to_container_gen", e2c_cases),
                                 ("containers:_populate_container~generated", "C15_pop", "obs_populate_gen", pop_cases)):
        if GEN_MODEL_ERROR:
            res.mismatches.append(Mismatch(name, "generated model unavailable", None, GEN_MODEL_ERROR))
            continue
        bad, errs = coqrun.run_cases(tag, IMPORTS_GEN, fn, cases, shard=400)
        for e in errs:
            res.mismatches.append(Mismatch(name, "coqc error", None, e))
        for i in bad:
            res.mismatches.append(Mismatch(name, {"case": ascii(meta[i]), "input": cases[i][0][:800]}, cases[i][1][:800], None))
        res.traces_validated += len(cases)


def container_obs(c, tab):
    """a container as _entry_to_container / _populate_container leave it (obs_cont of model/FlattenGenObs.v)"""
    if type(c) is list:
        return [1, [[obj_obs(x, tab)] for x in c]]
    return [2, int(type(c) is OrderedDict), [[key_obs(k, tab), [obj_obs(v, tab)]] for k, v in c.items()]]


# --------------------------------------------------------------------------- small functions
def rand_str(rng, alphabet, maxlen):
    return "".join(rng.choice(alphabet) for _ in range(rng.randint(0, maxlen)))


def check_functions(ctx: Ctx, res: Result):
    from torchsnapshot.flatten import _decode, _encode, _should_flatten_dict
    rng = ctx.rng
    # _encode on everything; _decode(_encode(s)) == s is part of the property's mechanism (oracle)
    strs = [key_of(k) for k in ALL_KEYS if k[0] == "s"] + PREFIXES
    alpha = ["%", "/", ".", "2", "5", "F", "f", "E", "e", "a", "é", "\ud800", "0"]
    strs += [rand_str(rng, alpha, 7) for _ in range(ctx.n(300, 3000))]
    enc_cases = []
    for s in strs:
        e = _encode(s)
        enc_cases.append((s_term(s), val([ord(c) for c in e])))
        res.count("encode.len", min(len(s), 8))
        if "/" in e or _decode(e) != s:
            res.failures.append(Failure("C15:_decode(_encode(s))!=s", f"_encode({s!a}) = {e!a}, _decode gives {_decode(e)!a}",
                                        {"encode": [ord(c) for c in s]}))
    dec_strs = [s for s in strs + [_encode(s) for s in strs] if not BAD_ESC.search(s)]
    dec_cases = [(s_term(s), val([ord(c) for c in _decode(s)])) for s in dec_strs]
    # _should_flatten_dict and str(key)
    tab = Table()
    sf_cases, ks_cases = [], []
    g = Gen(rng)
    for _ in range(ctx.n(300, 3000)):
        _, ks = g.keys(rng.choice([0, 1, 2, 3, 4, 6]))
        d = {}
        for k in ks:
            d[key_of(k)] = None
        keys = list(d.keys())
        sf_cases.append(("[" + "; ".join(key_term(k, tab) for k in keys) + "]", val(bool(_should_flatten_dict(d)))))
        res.count("should_flatten.result", bool(_should_flatten_dict(d)))
    ints = [0, 1, -1, 9, 10, -10, 99, 100, 2 ** 31, -2 ** 63, 10 ** 30, -10 ** 30 + 1] + [rng.randint(-10 ** 6, 10 ** 6) for _ in range(60)]
    for k in ints + [True, False]:
        ks_cases.append((key_term(k, tab), val([ord(c) for c in str(k)])))
    # int(token) on the modelled domain
    toks = ["", "-", "+", "0", "00", "007", "-0", "+0", "-12", "+12", "12", "1a", "a", "--1", "+-1", "1-", "9" * 25, "-" + "9" * 25]
    toks += [rand_str(rng, ["0", "1", "9", "-", "+", "a"], 5) for _ in range(200)]
    pi_cases = []
    for t in toks:
        try:
            v = [int(t)]
        except ValueError:
            v = None
        if v is not None and not INT_RE.match(t):
            continue
        pi_cases.append((s_term(t), val(v)))
    for name, tag, fn, cases in (("encode:_encode~model", "C15_enc", "obs_encode", enc_cases),
                                 ("decode:_decode~model", "C15_dec", "obs_decode", dec_cases),
                                 ("keys:_should_flatten_dict~model", "C15_sf", "obs_should_flatten", sf_cases),
                                 ("keys:str(key)~model", "C15_ks", "obs_key_str", ks_cases),
                                 ("int:int(str)~model", "C15_pi", "obs_parse_int", pi_cases)):
        bad, errs = coqrun.run_cases(tag, IMPORTS, fn, cases, shard=400)
        for e in errs:
            res.mismatches.append(Mismatch(name, "coqc error", None, e))
        for i in bad:
            res.mismatches.append(Mismatch(name, cases[i][0][:600], cases[i][1][:600], None))
        res.traces_validated += len(cases)


def correspond(ctx: Ctx) -> Result:
    res = Result(rule=RULE)
    # the generated observations must be there even when a proof obligation of this run broke; when the generated
    # files themselves do not build (translator failed closed / ill-typed term) the generated correspondences are
    # reported broken instead of being evaluated against a stale build
    global GEN_MODEL_ERROR
    ok, out, _ = coqrun.make(["model/FlattenGenObs.vo"])
    GEN_MODEL_ERROR = None if ok else "the generated model does not build: " + coqrun.error_excerpt(out, 8)
    check_structures(ctx, res, with_model=True)
    check_containers(ctx, res)
    check_functions(ctx, res)
    res.exhaustive = ctx.thorough
    return res


def search(ctx: Ctx, broken) -> Result:
    """a proof obligation / translator / correspondence broke: look for a failing input with the direct oracle only
    (real code, no coqc), on the widened generators and the bounded-exhaustive scope"""
    res = Result(rule=RULE)
    check_structures(ctx, res, with_model=False)
    from torchsnapshot.flatten import _decode, _encode
    for s in [key_of(k) for k in ALL_KEYS if k[0] == "s"] + PREFIXES:
        e = _encode(s)
        if "/" in e or _decode(e) != s:
            res.failures.append(Failure("C15:_decode(_encode(s))!=s", f"_encode({s!a}) = {e!a}, _decode gives {_decode(e)!a}",
                                        {"encode": [ord(c) for c in s]}))
    return res


def replay(ctx: Ctx, data):
    if "encode" in data:
        from torchsnapshot.flatten import _decode, _encode
        s = "".join(chr(c) for c in data["encode"])
        e = _encode(s)
        if "/" in e or _decode(e) != s:
            return Failure("C15:_decode(_encode(s))!=s", f"_encode({s!a}) = {e!a}, _decode gives {_decode(e)!a}", data)
        return None
    prefix = "".join(chr(c) for c in data["prefix"])
    fails = roundtrip_failures(data["spec"], prefix)
    if fails:
        via, cls, what = fails[0]
        return Failure(f"C15:inflate(flatten(x))!=x:{via}:{cls}", f"via {via}: {what}", data)
    return None


MANIFEST = {
    "level_text": ("Machine-checked proof (Coq 8.16.1): for every nested list/dict/OrderedDict object of any depth and width "
                   "whose dicts have keys distinct under Python equality, and every reordering of the container manifest and the "
                   "leaf map (also embedded in a larger manifest, also after any entry-preserving metadata codec), "
                   "inflate(flatten(x)) = x - same container kinds, same keys with their types (str/int/bool), same key order, "
                   "same leaves; non-flattenable dicts come back as the identical leaf; all produced paths are pairwise distinct; "
                   "_encode is injective, '/'-free and inverted by _decode; str(int) is injective; split('/') inverts '/'.join. "
                   "These theorems are stated over the terms that translator/gen_flatten.py regenerates from flatten.py on "
                   "every run - _flatten, flatten, _entry_to_container, _populate_container, inflate statement by statement "
                   "(dispatch order, entry class and key list per container, f-string paths with _encode(str(key)), dict.update "
                   "merging, prefix filter, `prefix in flattened` shortcut, parent path by tokens.pop()/'/'.join, sorted by "
                   "int(token), the _decode map and the keep/del loop, containers created once and populated in place through "
                   "references in the order of container_path_to_vals), _encode and _should_flatten_dict - which are proved "
                   "equal to the hand model the original theorems were proved about (generated flatten = model flatten for "
                   "every object; generated inflate = model inflate, including the exception outcome, on all Python dicts). "
                   "On every run the real flatten, inflate (direct, through SnapshotMetadata.to_yaml/from_yaml, reordered, "
                   "embedded, perturbed manifests incl. error outcomes), _entry_to_container, _populate_container, _encode, "
                   "_decode, _should_flatten_dict, str and int are executed against the generated terms and the hand model "
                   "inside coqc (vm_compute), and the property is evaluated directly on every real execution."),
    "level_note": ("Trusted: Coq kernel + VM; the ast translator with its Python vocabulary (coq/model/FlattenPy.v: ordered "
                   "dicts, exceptions, type tests, containers as a heap with references) and the primitives of "
                   "coq/model/Flatten.v (str/int conversion, unquote, split/join, key equality, fromkeys) - CPython runtime "
                   "behaviour, modelled and compared on every run, not verified; unquote of escapes >= 0x80 and int() of "
                   "non-ASCII/underscore/whitespace forms are not modelled (never produced by flatten). The metadata codec is a "
                   "hypothesis of the _via_metadata_partial theorems (C14's subject) and is exercised on the real code. A source "
                   "change outside the translated subset fails closed (VIOLATION ... no-failing-input-found unless the oracle "
                   "finds an input). Theorems are closed under the global context (no axioms)."),
    "technique": "Coq proof (structural induction over nested containers, permutation-invariant inflate; heap/reference "
                 "semantics for the in-place population) + statement-by-statement ast translation of flatten.py with "
                 "instantiation proofs (generated = model) + vm_compute correspondence of generated terms and hand model "
                 "against the real code + direct oracle on the real flatten/inflate",
    "design_ref": "DESIGN.md section 5, C15",
}
